"""C15 — special values and signed zero: control structure and validators (DESIGN §4)."""
from rules import opts as O
from rules.core import (guarded, guarded_soft, callee_name, path_conditions, reach_alternatives, op_expr, rvalue_expr, show, strip_casts,
                        expr_calls, expr_consts, last_seg, pol_is_variant, strip_generics)

INFO = {
    "explanation": "Special parsing is shown to be reachable only on the Err edge of the numeric parse; the constants F::NAN / F::INFINITY are produced only in parse_positive_special (no numeric path can construct NaN); every special-string comparison is dominated by the no_special test; the sign is applied after the match and only under is_negative; in the writer the '-' store is control-dependent on needs_negative_sign() = is_sign_negative & !is_nan, NaN/Inf are written from the matching option string and a disabled special diverges without a store; both float option builders impose the same constraints on the special strings.",
    "not_decided": "prefix / extension / case matching of is_special_eq over all strings",
    "assumptions": ["rustc's MIR builder"],
}

PF = "lexical_parse_float::"
WF = "lexical_write_float::"


def rule_parse_specials(col, facts):
    R = "MPT-fallback"
    n = 0
    for name, num, spec in ((PF + "parse::parse_complete", "parse_complete_number", "parse::parse_special"),
                            (PF + "parse::parse_partial", "parse_partial_number", "parse::parse_partial_special"),
                            (PF + "parse::fast_path_complete", "parse_complete_number", "parse::parse_special"),
                            (PF + "parse::fast_path_partial", "parse_partial_number", "parse::parse_partial_special")):
        f = facts.fn(name)
        for bb, c, a, d, t in f.calls():
            if callee_name(c) == PF + spec:
                n += 1
                conds = path_conditions(f, bb)
                ok = any(e[0] == "discr" and any(x[1].endswith(num) for x in expr_calls(e)) and pol_is_variant(pol, 1) for _d, e, pol in conds)
                col.check(R, "%s->%s" % (last_seg(name), last_seg(spec)), ok,
                          "special-value parsing is not confined to the Err edge of %s: %s" % (num, [(show(e), p) for _d, e, p in conds][-2:]), f.loc(f.blocks[bb]["ts"]))
        # on the Err edge with no special the *original* error is returned
    col.floor(R, "special fallback sites", n, 4)
    # WHO-nan: F::NAN / F::INFINITY only in parse_positive_special
    R2 = "WHO-nan"
    users = {}
    for f in facts.all_fns():
        if f.crate != "lexical_parse_float":
            continue
        s = None
        for b in f.blocks:
            for st in b["s"]:
                if st[0] == "=":
                    for k in expr_consts(rvalue_expr(f, st[2], 0)):
                        if last_seg(k[1]) in ("NAN", "INFINITY", "NEG_INFINITY") and "Float" in k[1]:
                            users.setdefault(f.short, set()).add(last_seg(k[1]))
    merged = {}
    for u, ks in users.items():
        fu = facts.fn(u)
        owner = fu.closure_of if fu.kind == "Closure" else u         # a closure belongs to the function it is written in
        merged.setdefault(owner, set()).update(ks)
    in_closures = any(facts.fn(u).kind == "Closure" for u in users)
    users = merged
    for u, ks in users.items():
        col.check(R2, u, u == PF + "parse::parse_positive_special", "%s materialises %s: only parse_positive_special may produce non-finite constants" % (u, sorted(ks)), facts.fn(u).loc())
    col.check(R2, "parse_positive_special-produces", users.get(PF + "parse::parse_positive_special") == {"NAN", "INFINITY"},
              "parse_positive_special uses %s (expected NAN and INFINITY)" % users.get(PF + "parse::parse_positive_special"), facts.fn(PF + "parse::parse_positive_special").loc())
    # no_special dominates all matching; each option string is compared and yields its own constant
    pps = facts.fn(PF + "parse::parse_positive_special")
    m = 0
    for bb, c, a, d, t in pps.calls():
        if callee_name(c) == PF + "parse::is_special_eq":
            m += 1
            if "format" in facts.config:
                conds = path_conditions(pps, bb)
                ok = any(strip_casts(e)[0] == "call" and strip_casts(e)[1].endswith("NumberFormat::no_special") and pol is False for _d, e, pol in conds)
                col.check("MPT-no_special", "is_special_eq#%d" % m, ok, "special strings are compared although format.no_special() was not tested false", pps.loc(pps.blocks[bb]["ts"]))
    if m == 0:
        # the comparisons were moved into a helper: its call sites in parse_positive_special are the sites
        def calls_eq(g, depth=0):
            return any(callee_name(c2) == PF + "parse::is_special_eq" or (depth < 2 and any(h.crate == g.crate and calls_eq(h, depth + 1) for h in facts.by_short.get(callee_name(c2), []))) for _b, c2, _a, _d, _t in g.calls())
        closures = [g for g in facts.all_fns() if g.kind == "Closure" and g.closure_of == pps.short]
        for bb, c, a, d, t in pps.calls():
            if any(h.crate == pps.crate and calls_eq(h) for h in facts.by_short.get(callee_name(c), [])):
                m += 1
                if "format" in facts.config:
                    ok = any(strip_casts(e)[0] == "call" and strip_casts(e)[1].endswith("NumberFormat::no_special") and pol is False for _d, e, pol in path_conditions(pps, bb))
                    col.check("MPT-no_special", "is_special_eq#%d" % m, ok, "special strings are compared although format.no_special() was not tested false", pps.loc(pps.blocks[bb]["ts"]))
        m += sum(1 for g in closures if calls_eq(g))
    col.floor("MPT-no_special", "is_special_eq call sites", m, 3)
    # which option string leads to which constant
    pairs = []
    for i, b in enumerate(pps.blocks):
        for st in b["s"]:
            if st[0] == "=" and st[2][0] == "agg" and st[2][1][0] == "tuple":
                e = rvalue_expr(pps, st[2], 0)
                ks = [last_seg(k[1]) for k in expr_consts(e) if last_seg(k[1]) in ("NAN", "INFINITY")]
                if ks:
                    opts = set()
                    for _d, e2, pol in path_conditions(pps, i):
                        for x in expr_calls(e2):
                            if x[1].endswith(("Options::nan_string", "Options::inf_string", "Options::infinity_string")):
                                opts.add(last_seg(x[1]))
                    pairs.append((ks[0], frozenset(opts)))
    # ... or the pairing is written down as data: `[(options.nan_string(), F::NAN), (options.infinity_string(),
    # F::INFINITY), ..]` iterated by one loop - a tuple that holds the getter's result next to the constant
    tabled = []
    for i, b in enumerate(pps.blocks):
        for st in b["s"]:
            if st[0] == "=" and st[2][0] == "agg" and st[2][1][0] == "tuple":
                e = rvalue_expr(pps, st[2], 0)
                ks = [last_seg(k[1]) for k in expr_consts(e) if last_seg(k[1]) in ("NAN", "INFINITY")]
                # (the getter's result itself is a component of the tuple - not a count computed from it)
                comps = [strip_casts(x) for x in e[2]] if e[0] == "agg" else []
                getters = {last_seg(x[1]) for x in comps if x[0] == "call" and x[1].endswith(("Options::nan_string", "Options::inf_string", "Options::infinity_string"))}
                if len(ks) == 1 and len(getters) == 1:
                    tabled.append((ks[0], frozenset(getters)))
    if len(tabled) >= 3:
        pairs = tabled
    elif in_closures and set(pairs) != {("NAN", frozenset(["nan_string"])), ("INFINITY", frozenset(["inf_string"])), ("INFINITY", frozenset(["infinity_string"]))}:
        # a constant is attached inside a closure (`.map(|count| (F::INFINITY, count))`): which string led there
        # is not read across the closure boundary
        col.assumed("not-applied", "PAIR-special:string->constant", "a non-finite constant is attached inside a closure of parse_positive_special: the string -> constant pairing is not decided", pps.loc())
        pairs = None
    want = {("NAN", frozenset(["nan_string"])), ("INFINITY", frozenset(["inf_string"])), ("INFINITY", frozenset(["infinity_string"]))}
    if pairs is not None:
      col.check("PAIR-special", "string->constant", set(pairs) == want, "special strings map to constants as %s" % sorted((k, sorted(v)) for k, v in pairs), pps.loc())
    # sign applied after the match, only under is_negative
    pp = facts.fn(PF + "parse::parse_partial_special")
    negs = []
    for i, b in enumerate(pp.blocks):
        for st in b["s"]:
            if st[0] == "=" and st[2][0] == "un" and st[2][1] == "Neg":
                negs.append(i)
        t = b["t"]
        if t["k"] == "call" and callee_name(t["f"]).endswith("ops::arith::Neg::neg"):
            negs.append(i)
    if not negs:
        # the negation may sit in a closure handed to Option::map: `.map(|(f, n)| (if is_negative { -f } else { f }, n))`
        for g in facts.all_fns():
            if g.kind == "Closure" and g.closure_of == pp.short:
                gneg = [i for i, b in enumerate(g.blocks) for st in b["s"] if st[0] == "=" and st[2][0] == "un" and st[2][1] == "Neg"] + \
                       [i for i, b in enumerate(g.blocks) if b["t"]["k"] == "call" and callee_name(b["t"]["f"]).endswith("ops::arith::Neg::neg")]
                if len(gneg) == 1 and path_conditions(g, gneg[0]):
                    col.assumed("not-applied", "PAIR-special:sign-after-match", "the negation is inside a closure of parse_partial_special, under a captured condition: not decided that it is `is_negative`", pp.loc())
                    negs = None
    if negs is None:
        return
    ok = len(negs) == 1 and any(strip_casts(e)[:2] == ("arg", 2) and pol is True for _d, e, pol in path_conditions(pp, negs[0]))
    col.check("PAIR-special", "sign-after-match", ok, "parse_partial_special must negate exactly once, under `is_negative`", pp.loc())


def _mentions(obj, l):
    if isinstance(obj, list):
        if len(obj) == 2 and obj[0] in ("cp", "mv") and isinstance(obj[1], list) and obj[1] and obj[1][0] == l:
            return True
        return any(_mentions(x, l) for x in obj)
    if isinstance(obj, dict):
        return any(_mentions(x, l) for x in obj.values())
    return False


def _depends_on_sign(f, op, negs, depth=0):
    """Does the operand's value derive from one of the sign locals?"""
    if depth > 6:
        return False
    if isinstance(op, list) and len(op) == 2 and op[0] in ("cp", "mv"):
        l = op[1][0]
        if l in negs:
            return True
        for bb, j, rv, proj in f.defs().get(l, []):
            # selected under a test of the flag
            for _d, e, p in path_conditions(f, bb):
                e = strip_casts(e)
                if e[0] == "var" and e[1] in negs:
                    return True
                if e[0] == "proj" and any(last_seg(x[1]) == "parse_mantissa_sign" for x in expr_calls(e)):
                    return True
            if rv[0] == "call":
                if any(_depends_on_sign(f, a, negs, depth + 1) for a in rv[2]):
                    return True
            elif rv[0] in ("use", "cast", "un"):
                if _depends_on_sign(f, rv[-1] if rv[0] == "use" else rv[2], negs, depth + 1):
                    return True
            elif rv[0] == "bin":
                if _depends_on_sign(f, rv[2], negs, depth + 1) or _depends_on_sign(f, rv[3], negs, depth + 1):
                    return True
            elif rv[0] == "agg":
                if any(_depends_on_sign(f, a, negs, depth + 1) for a in rv[2]):
                    return True
            elif rv[0] == "ref":
                if _depends_on_sign(f, ["cp", rv[2]], negs, depth + 1):
                    return True
        return False
    return False


def rule_sign_reaches_every_ok(col, facts):
    """MPT-sign (parse): once the mantissa sign has been consumed, every `Ok(..)` the float entry points build
    must depend on it - the block that builds it is dominated by a use of `is_negative` (the branch that
    negates, or the call that is handed the flag).  An Ok exit that never looks at the flag returns +0.0 for
    `-` (empty mantissa, digits not required) while `-.`, `-0`, `-e5` give -0.0."""
    R = "MPT-sign"
    n = 0
    for name in ("parse_complete", "fast_path_complete", "parse_partial", "fast_path_partial"):
        f = facts.fn(PF + "parse::" + name)
        # the sign flag = every local holding the unwrapped result of parse_mantissa_sign (whatever it is called)
        from rules.core import local_expr
        negs = set()
        for l in sorted(f.defs()):
            ds = f.defs().get(l, [])
            if len(ds) != 1 or ds[0][3]:
                continue
            e = local_expr(f, l)
            if e[0] == "proj" and any(last_seg(x[1]) == "parse_mantissa_sign" for x in expr_calls(e)) and not any(last_seg(x[1]) == "from_residual" for x in expr_calls(e)):
                if ("as", 0) in [tuple(q) if isinstance(q, (list, tuple)) else q for q in e[2]]:
                    negs.add(l)
        col.check(R, "%s:is_negative" % name, len(negs) >= 1, "the unwrapped result of parse_mantissa_sign was not found", f.loc())
        if not negs:
            continue
        users = set()
        for i, b in enumerate(f.blocks):
            if not f.live(i):
                continue
            hit = False
            for st in b["s"]:
                if st[0] == "=" and any(_mentions(st[2], l) for l in negs) and not (st[1][0] in negs and not st[1][1]):
                    hit = True
            if hit or any(_mentions(b["t"].get("a"), l) or _mentions(b["t"].get("d"), l) for l in negs):
                users.add(i)
        k = 0
        for i, b in enumerate(f.blocks):
            if not f.live(i):
                continue
            for st in b["s"]:
                if st[0] == "=" and st[1] == [0, []] and st[2][0] == "agg" and st[2][1][0] == "adt" and st[2][1][1] == "core::result::Result" and st[2][1][3] == "Ok":
                    k += 1
                    n += 1
                    ok = any(f.dominates(u, i) for u in users)
                    col.check(R, "%s:Ok#%d" % (name, k), ok,
                              "an Ok value is built after the sign was parsed on a path that never uses `is_negative`: the sign of the result (zero for an empty mantissa) is lost", f.loc(st[3]))
                    # ... and the value itself depends on the flag: it is computed from it (a call that was handed
                    # the flag, directly or through `num`), or one of its definitions is chosen under a test of it
                    operand = st[2][2][0]
                    if isinstance(operand, list) and operand[0] in ("cp", "mv") and not operand[1][1]:
                        ds = f.defs().get(operand[1][0], [])
                        # Ok((value, count)): the float is the first component of the tuple
                        if len(ds) == 1 and ds[0][2][0] == "agg" and ds[0][2][1][0] == "tuple" and len(ds[0][2][2]) == 2:
                            operand = ds[0][2][2][0]
                    ok2 = _depends_on_sign(f, operand, negs)
                    col.check(R, "%s:Ok#%d:value-depends-on-sign" % (name, k), ok2,
                              "the value returned in this Ok is not derived from `is_negative` (neither computed from it nor selected under a test of it): e.g. a literal F::ZERO returned for a zero mantissa turns `-0e400` into +0.0", f.loc(st[3]))
    col.floor(R, "Ok exits of the float entry points", n, 8)


def rule_special_sees_untouched_bytes(col, facts):
    """ORG-special: the special-value matcher must see the bytes exactly as they stand after the sign.  A
    component iterator's peek()/is_consumed() *moves the shared cursor* over leading digit separators (that is
    how skipping works), so the entry points must not open an integer view on the very `Bytes` they later
    hand (cloned) to the special parser: `_nan` was accepted as NaN by formats that allow leading integer
    separators but no separators in specials."""
    R = "ORG-special"
    from rules import grd as G
    n = 0
    for name in ("parse_complete", "fast_path_complete", "parse_partial", "fast_path_partial"):
        f = facts.fn(PF + "parse::" + name)
        special_roots = set()
        for bb, c, a, d, t in f.calls():
            cn = last_seg(callee_name(c))
            if cn in ("parse_special", "parse_partial_special") and a:
                e = strip_casts(op_expr(f, a[0]))
                # byte.clone()
                if e[0] == "call" and last_seg(e[1]) == "clone" and e[2]:
                    special_roots.add(G.root(e[2][0]))
                else:
                    special_roots.add(G.root(e))
        col.check(R, "%s:special-call" % name, bool(special_roots), "no call of the special parser found", f.loc())
        viewed = []
        # a root that is itself `X.clone()` is a snapshot of X: it must have been taken before any view on X
        snapshots = {}
        for r in special_roots:
            if r[0] == "call" and last_seg(r[1]) == "clone" and r[2] and len(r) > 3:
                blk = [bb for bb, c, a, d, t in f.calls() if d and d[0] == r[3] and not d[1]]
                if blk:
                    snapshots[G.root(r[2][0])] = blk[0]
        for bb, c, a, d, t in f.calls():
            if callee_name(c).endswith(G.VIEW_CTORS) and a:
                r = G.root(op_expr(f, a[0]))
                if r in special_roots:
                    viewed.append(f.loc(f.blocks[bb]["ts"]))
                elif r in snapshots and not (snapshots[r] != bb and f.dominates(snapshots[r], bb)):
                    viewed.append(f.loc(f.blocks[bb]["ts"]))
        n += 1
        col.check(R, "%s:no-view-on-the-bytes-of-the-special" % name, not viewed,
                  "a digit-iterator view is opened on the same Bytes that is later handed to the special parser (%d site(s)): its peek() skips leading digit separators by moving the shared cursor, so `_nan` / `-_inf` are accepted although the format has no special_digit_separator" % len(viewed), viewed[0] if viewed else f.loc())
    col.floor(R, "float entry points examined", n, 4)


def rule_case_fold_table(col, facts):
    """TBL-fold: the byte comparison of starts_with_uncased as a decision table.  The closure that decides
    "not equal" is loop-free; its paths are evaluated for every input byte against every ASCII letter of a
    (validated, letters-only) option string and compared with the definition: equal iff the two bytes are the
    same letter up to ASCII case.  A mask that forgets a bit (0x5F for 0xDF) accepts bytes >= 0x80."""
    from rules.pathmodel import Model, Shape, Panic
    R = "TBL-fold"
    cl = [f for f in facts.all_fns() if f.kind == "Closure" and f.closure_of == PF + "shared::starts_with_uncased"]
    col.check(R, "starts_with_uncased:closure", len(cl) == 1, "the per-byte comparison closure of starts_with_uncased was not found (%d closures): cannot be tabulated (fail closed)" % len(cl), facts.fn(PF + "shared::starts_with_uncased").loc())
    if len(cl) != 1:
        return
    f = cl[0]

    class M(Model):
        def ev(self, e, args):
            if isinstance(e, tuple) and e and e[0] == "proj":
                b = e
                while b[0] == "proj":
                    b = b[1]
                if b[0] == "arg" and not (e[2] == (1,) and isinstance(e[1], tuple) and e[1][0] == "bin"):
                    return args[b[1] - 1]
            return Model.ev(self, e, args)
    try:
        m = M(f, ty="u8")
        bad = []
        n = 0
        for y in list(range(65, 91)) + list(range(97, 123)):
            for x in range(256):
                n += 1
                got = m.value([y, x])
                lx = x | 0x20 if (65 <= x <= 90 or 97 <= x <= 122) else x
                want = int(lx != (y | 0x20))
                if got != want:
                    bad.append((x, y, got))
        col.check(R, "starts_with_uncased:table", not bad,
                  "input byte %#x compared with the option-string letter %r is reported %s (%d of %d entries differ from ASCII case-insensitive equality): a byte that is not that letter in either case matches a special string" % ((bad[0][0], chr(bad[0][1]), "equal" if bad and bad[0][2] == 0 else "not equal", len(bad), n) if bad else (0, "?", "", 0, n)), f.loc())
        col.floor(R, "(input byte, letter) entries tabulated", n, 52 * 256)
    except Shape as e:
        col.bad(R, "starts_with_uncased:shape", "the comparison is no longer a loop-free table over the two bytes (%s): cannot be tabulated (fail closed)" % e, f.loc())
    except Panic as e:
        col.bad(R, "starts_with_uncased:panic", "the comparison can panic: %s" % e, f.loc())


def rule_write_specials(col, facts):
    R = "MPT-sign"
    wf = facts.fn(WF + "write::WriteFloat::write_float")
    # '-' (45) store under needs_negative_sign() == true
    found = False
    for i, b in enumerate(wf.blocks):
        for st in b["s"]:
            from rules.c08 import _mentions_byte
            from rules.core import every_path_has
            if st[0] == "=" and _mentions_byte(st[2], 45) and wf.live(i):
                # (a direct store `bytes[0] = b'-'`, or the byte on its way there: `Some(b'-')`)
                found = True
                ok = every_path_has(wf, i, lambda e, pol: e[0] == "call" and e[1].endswith("Float::needs_negative_sign") and pol is True)
                col.check(R, "minus-store", ok, "b'-' is stored on a path where needs_negative_sign() was not tested true", wf.loc(st[3]))
    col.check(R, "minus-store-present", found, "no b'-' store found in WriteFloat::write_float", wf.loc())
    nn = facts.fn("lexical_util::num::Float::needs_negative_sign")
    calls = [callee_name(c) for _b, c, _a, _d, _t in nn.calls()]
    if not ({"is_nan", "is_sign_negative"} & {last_seg(c) for c in calls}):
        # written on the bit pattern (`bits != magnitude && magnitude <= EXPONENT_MASK`): not read by this rule
        col.assumed("not-applied", "MPT-sign:needs_negative_sign-body", "needs_negative_sign is computed without is_sign_negative() / is_nan() (calls %s): its meaning is not decided" % [last_seg(c) for c in calls], nn.loc())
    else:
        col.check(R, "needs_negative_sign-body", sorted(last_seg(c) for c in calls) == ["is_nan", "is_sign_negative"],
                  "needs_negative_sign calls %s (expected is_sign_negative and is_nan)" % calls, nn.loc())
    # result true only if is_sign_negative true and is_nan false
    for i, b in enumerate(nn.blocks):
        for st in b["s"]:
            if st[0] == "=" and st[1] == [0, []]:
                e = rvalue_expr(nn, st[2], 0)
                if e == ("k", True):
                    conds = path_conditions(nn, i)
                    col.check(R, "needs_negative_sign-true-edge", any(last_seg(strip_casts(x)[1]) == "is_sign_negative" and p is True for _d, x, p in conds if strip_casts(x)[0] == "call"),
                              "returns true without is_sign_negative()", nn.loc())
                elif e[0] == "un" and e[1] == "Not":
                    inner = strip_casts(e[2])
                    conds = path_conditions(nn, i)
                    ok = inner[0] == "call" and last_seg(inner[1]) == "is_nan" and any(strip_casts(x)[0] == "call" and last_seg(strip_casts(x)[1]) == "is_sign_negative" and p is True for _d, x, p in conds)
                    col.check(R, "needs_negative_sign-value", ok, "result is %s under %s" % (show(e), [(show(x), p) for _d, x, p in conds]), nn.loc())
    # NaN / Inf dispatch: is_special false -> number writers; is_nan true -> write_nan; else write_inf
    for bb, c, a, d, t in wf.calls():
        cn = callee_name(c)
        conds = path_conditions(wf, bb)
        def has(meth, pol):
            return any(strip_casts(e)[0] == "call" and last_seg(strip_casts(e)[1]) == meth and p is pol for _d, e, p in conds)
        if cn == WF + "write::write_nan":
            col.check("PAIR-special", "write_nan", has("is_special", True) and has("is_nan", True), "write_nan is reached without is_special() && is_nan()", wf.loc(wf.blocks[bb]["ts"]))
        if cn == WF + "write::write_inf":
            col.check("PAIR-special", "write_inf", has("is_special", True) and has("is_nan", False), "write_inf is reached without is_special() && !is_nan()", wf.loc(wf.blocks[bb]["ts"]))
    for fn_name, opt in (("write_nan", "nan_string"), ("write_inf", "inf_string")):
        f = facts.fn(WF + "write::" + fn_name)
        ok = False
        for bb, c, a, d, t in f.calls():
            if callee_name(c) == WF + "write::write_special":
                e = op_expr(f, a[1])
                ok = any(x[1].endswith("Options::" + opt) for x in expr_calls(e))
        col.check("PAIR-special", fn_name + "-string", ok, "%s does not pass options.%s() to write_special" % (fn_name, opt), f.loc())
    ws = facts.fn(WF + "write::write_special")
    # None edge diverges (panic) and no store / copy happens on it
    for bb, c, a, d, t in ws.calls():
        cn = callee_name(c)
        if cn.endswith("copy_to_dst"):
            conds = path_conditions(ws, bb)
            ok = any(e[0] == "discr" and pol_is_variant(pol, 1) for _d, e, pol in conds)
            col.check("MPT-special-none", "copy-under-Some", ok, "the special string is copied on a path where it was not matched as Some(..)", ws.loc(ws.blocks[bb]["ts"]))
    diverges = False
    for i, b in enumerate(ws.blocks):
        t = b["t"]
        if t["k"] == "call" and "panic" in callee_name(t["f"]) and "to" not in t:
            conds = path_conditions(ws, i)
            if any(e[0] == "discr" and pol_is_variant(pol, 0) for _d, e, pol in conds):
                diverges = True
    col.check("MPT-special-none", "None-diverges", diverges, "write_special(None) does not diverge with a panic", ws.loc())


def _norm(e):
    """Drop call destinations and reference wrappers so that sibling expressions can be compared."""
    if not isinstance(e, tuple) or not e:
        return e
    if e[0] in ("ref", "cast"):
        return _norm(e[1])
    if e[0] == "call":
        return ("call", e[1], tuple(_norm(x) for x in e[2]))
    if e[0] == "kc":
        return ("kc", e[1])
    return tuple(_norm(x) if isinstance(x, tuple) else x for x in e)


def rule_special_classification(col, facts):
    """SIB-class: the writer decides NaN vs infinity with Float::is_nan() inside `is_special()`; the two
    predicates must partition the specials: is_special = (bits & EXPONENT_MASK == EXPONENT_MASK),
    is_nan = is_special && (bits & MANTISSA_MASK) != 0, is_inf = is_special && (bits & MANTISSA_MASK) == 0 -
    the same masked word compared with the same zero by opposite operators.  A NaN test on fewer mantissa
    bits (quiet bit only) lets signalling NaNs fall into the infinity branch: "inf" / "-inf" is written."""
    from rules.core import enum_paths, resolve_env
    R = "SIB-class"
    def model(name):
        f = facts.fn("lexical_util::num::Float::" + name)
        rets = {i for i, b in enumerate(f.blocks) if f.live(i) and b["t"]["k"] == "return"}
        out = []
        for t, atoms, env in enum_paths(f, 0, rets, want_env=True):
            r = env.get(0)
            val = ("k", r[1]) if r and r[0] == "const" else _norm(resolve_env(r[1], env)) if r else None
            out.append(([(_norm(e), p) for e, p in atoms], val))
        return f, out
    fs, ms = model("is_special")
    ok = len(ms) == 1 and not ms[0][0] and ms[0][1][0] == "call" and ms[0][1][1].endswith("PartialEq::eq")
    if ok:
        x, y = ms[0][1][2]
        ok = y == ("kc", "lexical_util::num::Float::EXPONENT_MASK") and x[0] == "call" and x[1].endswith("BitAnd::bitand") and ("kc", "lexical_util::num::Float::EXPONENT_MASK") in x[2] and any(isinstance(z, tuple) and z[0] == "call" and z[1].endswith("Float::to_bits") for z in x[2])
    col.check(R, "is_special", ok, "is_special() is no longer `to_bits() & EXPONENT_MASK == EXPONENT_MASK` (%s)" % (ms,), fs.loc())
    got = {}
    for name, op in (("is_nan", "ne"), ("is_inf", "eq")):
        f, m = model(name)
        shape = None
        if len(m) == 2:
            neg = [v for a, v in m if len(a) == 1 and a[0][0][0] == "call" and a[0][0][1].endswith("Float::is_special") and a[0][1] is False]
            pos = [v for a, v in m if len(a) == 1 and a[0][0][0] == "call" and a[0][0][1].endswith("Float::is_special") and a[0][1] is True]
            if neg == [("k", False)] and len(pos) == 1 and pos[0][0] == "call" and pos[0][1].endswith("PartialEq::" + op):
                shape = pos[0][2]
        # also accept `&` instead of `&&`
        col.check(R, name + ":shape", shape is not None, "%s() is no longer `is_special() && (bits & MANTISSA_MASK) %s 0` (paths: %s)" % (name, "!=" if op == "ne" else "==", [(len(a), show(v) if isinstance(v, tuple) else v) for a, v in m]), f.loc())
        got[name] = shape
    if got.get("is_nan") and got.get("is_inf"):
        col.check(R, "is_nan/is_inf:same-word", got["is_nan"] == got["is_inf"], "is_nan and is_inf compare different words: %s vs %s" % (got["is_nan"], got["is_inf"]), "lexical-util/src/num.rs")
        x, z = got["is_nan"]
        okw = x[0] == "call" and x[1].endswith("BitAnd::bitand") and ("kc", "lexical_util::num::Float::MANTISSA_MASK") in x[2] and z == ("kc", "lexical_util::num::Integer::ZERO")
        col.check(R, "is_nan:all-mantissa-bits", okw, "the NaN test does not look at all of `bits & MANTISSA_MASK` against ZERO (%s, %s)" % (x, z), "lexical-util/src/num.rs")


def run(col, configs, tier):
    for name, facts in configs.items():
        col.set_config(name)
        guarded(col, rule_parse_specials, facts)
        guarded_soft(col, rule_write_specials, facts)
        guarded(col, rule_sign_reaches_every_ok, facts)
        guarded(col, rule_special_sees_untouched_bytes, facts)
        from rules import extra as X2b
        guarded_soft(col, X2b.rule_special_tried_on_every_error, facts)
        guarded(col, rule_case_fold_table, facts)
        guarded(col, rule_special_classification, facts)
        from rules import extra as X2
        guarded_soft(col, X2.rule_overflow_check_unconditional, facts)
        guarded_soft(col, X2.rule_special_trailing_trim, facts)
        guarded_soft(col, X2.rule_pattern_before_input, facts)
        for crate in ("lexical_write_float", "lexical_parse_float"):
            guarded(col, O.rule_options_builder, facts, crate)
