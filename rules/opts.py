"""Option-builder validation rules (C15 SIB-options, C17 MPT-ascii): both float Options builders
reject non-ASCII punctuation and malformed special strings, under the same constraints."""
from rules.core import (path_conditions, reach_alternatives, op_expr, show, strip_casts, expr_calls, expr_consts,
                        callee_name, last_seg, AnchorMissing, rvalue_expr)
from rules.syntax import error_sites


def field_index(facts, adt, name):
    v = facts.adts.get(adt)
    if not v:
        raise AnchorMissing("struct %s not found" % adt)
    fields = v[0]["fields"]
    if name not in fields:
        raise AnchorMissing("field %s.%s not found" % (adt, name))
    return fields.index(name)


def mentions_field(e, idx):
    """expression reads (*self).<idx>"""
    if isinstance(e, tuple):
        if e and e[0] == "proj" and e[1][:2] == ("arg", 1) and idx in [p for p in e[2] if isinstance(p, int)]:
            return True
        return any(mentions_field(x, idx) for x in e if isinstance(x, tuple))
    return False


def has_call(e, suffix):
    return any(c[1].endswith(suffix) for c in expr_calls(e))


def alt_has(alts, pred):
    """some alternative contains an atom satisfying pred(expr, polarity)"""
    return any(any(pred(e, p) for _d, e, p in alt) for alt in alts)


def rule_options_builder(col, facts, crate):
    """MPT-ascii / SIB-options for `crate`::options::OptionsBuilder::build."""
    R = "MPT-ascii"
    adt = "%s::options::OptionsBuilder" % crate
    f = facts.fn(adt + "::build")
    sites = error_sites(f)
    by = {}
    for bb, v, sp in sites:
        by.setdefault(v, []).append((bb, sp))

    def need(variant, desc, pred, field=None):
        ok = False
        soft = False
        for bb, sp in by.get(variant, []):
            alts = reach_alternatives(f, bb)
            if alt_has(alts, pred):
                ok = True
            elif field is not None and alt_has(alts, lambda e, p: mentions_field(e, field) or any(mentions_field(x, field) for c_ in expr_calls(e) for x in c_[2])):
                soft = True
        if not ok and soft:
            # the error is still produced under a test of that field, written in a form this rule does not read
            # (`match self.nan_string { Some(s) => .. s.first() .. }`, a shared helper): not decided
            col.assumed("not-applied", "MPT-ascii:%s:%s:%s" % (crate, variant, desc), "Error::%s is returned under a test of the field in a form the rule does not read: `%s` not decided" % (variant, desc), f.loc())
            return
        col.check(R, "%s:%s:%s" % (crate, variant, desc), ok,
                  "OptionsBuilder::build has no path returning Error::%s when %s" % (variant, desc), f.loc())

    ex = field_index(facts, adt, "exponent")
    dp = field_index(facts, adt, "decimal_point")
    need("InvalidExponentSymbol", "exponent is not ASCII", lambda e, p: has_call(e, "ascii::is_valid_ascii") and mentions_field(e, ex) and p is False)
    need("InvalidDecimalPoint", "decimal_point is not ASCII", lambda e, p: has_call(e, "ascii::is_valid_ascii") and mentions_field(e, dp) and p is False)
    specials = [("nan_string", "Nan", (78, 110))]
    specials.append(("inf_string", "Inf", (73, 105)))
    if crate == "lexical_parse_float":
        specials.append(("infinity_string", "Infinity", (73, 105)))
    for fld, nm, letters in specials:
        fi = field_index(facts, adt, fld)
        need("Invalid%sString" % nm, "%s contains a non-letter" % fld,
             lambda e, p, fi=fi: has_call(e, "ascii::is_valid_letter_slice") and mentions_field(e, fi) and p is False, fi)
        need("%sStringTooLong" % nm, "%s is longer than MAX_SPECIAL_STRING_LENGTH" % fld,
             lambda e, p, fi=fi: strip_casts(e)[0] == "bin" and strip_casts(e)[1] in ("Gt", "Lt") and mentions_field(e, fi)
             and "MAX_SPECIAL_STRING_LENGTH" in [last_seg(k[1]) for k in expr_consts(e)] and p is True, fi)
        need("Invalid%sString" % nm, "%s is empty" % fld,
             lambda e, p, fi=fi: mentions_field(e, fi) and (("Lt" in str(e) and p is False) or (has_call(e, "is_empty") and p is True)), fi)
        # first letter: a switch on <str>[0] with exactly the two letters; the fall-through sets the
        # matches! flag false and that flag's false edge reaches the error
        ok = False
        for i, b in enumerate(f.blocks):
            t = b["t"]
            if t["k"] == "switch" and sorted(v for v, _ in t["v"]) == sorted(letters):
                e = op_expr(f, t["d"])
                if mentions_field(e, fi):
                    other = t["else"]
                    flags = [st[1][0] for st in f.blocks[other]["s"] if st[0] == "=" and st[2][0] == "use" and st[2][1][0] == "k" and st[2][1][1].get("v") is False]
                    for bb, sp in by.get("Invalid%sString" % nm, []):
                        if alt_has(reach_alternatives(f, bb), lambda e2, p2: e2[0] == "var" and e2[1] in flags and p2 is False):
                            ok = True
        if not ok and any(alt_has(reach_alternatives(f, bb), lambda e, p, fi=fi: mentions_field(e, fi) or any(mentions_field(x, fi) for c_ in expr_calls(e) for x in c_[2])) for bb, sp in by.get("Invalid%sString" % nm, [])):
            col.assumed("not-applied", "MPT-ascii:%s:Invalid%sString:first-letter" % (crate, nm), "Error::Invalid%sString is returned under a test of %s in a form the rule does not read: the first-letter test is not decided" % (nm, fld), f.loc())
            continue
        col.check(R, "%s:Invalid%sString:first-letter" % (crate, nm), ok,
                  "no `matches!(%s[0], %s)` test whose failure returns Error::Invalid%sString" % (fld, "|".join(chr(c) for c in letters), nm), f.loc())
    # the Ok return is the unchecked build
    oks = []
    for i, b in enumerate(f.blocks):
        for st in b["s"]:
            if st[0] == "=" and st[2][0] == "agg" and st[2][1][0] == "adt" and st[2][1][3] == "Ok":
                oks.append((i, op_expr(f, st[2][2][0])))
    col.check(R, "%s:Ok=build_unchecked" % crate, len(oks) == 1 and has_call(oks[0][1], "OptionsBuilder::build_unchecked"),
              "Ok(..) does not wrap build_unchecked()", f.loc())
    if oks:
        conds = path_conditions(f, oks[0][0])
        for fi, nm in ((ex, "exponent"), (dp, "decimal_point")):
            col.check(R, "%s:Ok-after-ascii(%s)" % (crate, nm),
                      any(has_call(e, "ascii::is_valid_ascii") and mentions_field(e, fi) and p is True for _d, e, p in conds),
                      "Ok(..) reachable without is_valid_ascii(self.%s) having succeeded" % nm, f.loc())
    # MAX_SPECIAL_STRING_LENGTH <= 50 (the writer's debug_assert and buffer_size arithmetic assume it)
    name = "lexical_util::options::MAX_SPECIAL_STRING_LENGTH"
    if name in facts.consts:
        v = facts.const_value(name)
        col.check(R, "MAX_SPECIAL_STRING_LENGTH", v == 50, "= %d, documented bound is 50" % v, facts.const_loc(name))
    else:
        cands = [p for p in facts.consts if p.endswith("::MAX_SPECIAL_STRING_LENGTH")]
        vals = {facts.consts[p].get("value") for p in cands}
        col.check(R, "MAX_SPECIAL_STRING_LENGTH", bool(cands) and vals == {50}, "constants %s have values %s (expected one value, 50)" % (cands, vals), "")
    # build_strict panics on Err
    bs = facts.fn(adt + "::build_strict")
    calls = [callee_name(c) for _b, c, _a, _d, _t in bs.calls()]
    col.check(R, "%s:build_strict" % crate, adt + "::build" in calls and any("panic" in c for c in calls),
              "build_strict is not `match self.build() { Ok(v) => v, Err(e) => panic!(..) }` (calls %s)" % calls, bs.loc())


def rule_options_is_valid(col, facts, crate):
    """OptionsBuilder::is_valid returns false when punctuation is not ASCII or a special string is
    malformed; Options::is_valid delegates to it through rebuild()."""
    R = "MPT-ascii"
    adt = "%s::options::OptionsBuilder" % crate
    f = facts.fn(adt + "::is_valid")
    falses = []
    for i, b in enumerate(f.blocks):
        for st in b["s"]:
            if st[0] == "=" and st[1] == [0, []] and st[2][0] == "use" and st[2][1][0] == "k" and st[2][1][1].get("v") is False:
                falses.append(i)
    ex = field_index(facts, adt, "exponent")
    dp = field_index(facts, adt, "decimal_point")
    wants = [("exponent-ascii", lambda e, p: has_call(e, "ascii::is_valid_ascii") and mentions_field(e, ex) and p is False),
             ("decimal_point-ascii", lambda e, p: has_call(e, "ascii::is_valid_ascii") and mentions_field(e, dp) and p is False),
             ("nan", lambda e, p: has_call(e, "::nan_str_is_valid") and p is False),
             ("inf", lambda e, p: has_call(e, "::inf_str_is_valid") and p is False)]
    if crate == "lexical_parse_float":
        wants.append(("infinity", lambda e, p: has_call(e, "::infinity_string_is_valid") and p is False))
    # second reading (one `a && b && ..` expression instead of an if-ladder): on every path on which the check is
    # found failed, the function returns false - and there is such a path
    from rules.core import enum_paths, bool_resolved_atoms, resolve_env
    rets = {i for i, b in enumerate(f.blocks) if f.live(i) and b["t"]["k"] == "return"}
    path_list = []
    try:
        for _t, atoms0, env in enum_paths(f, 0, rets, want_env=True):
            atoms, feasible = bool_resolved_atoms(f, atoms0, env)
            if not feasible:
                continue
            r = env.get(0)
            val = None
            if r is not None:
                val = r[1] if r[0] == "const" else strip_casts(resolve_env(r[1], env))
                if isinstance(val, tuple):
                    # (the last operand of an `&&` chain is returned as it is: the result *is* that check)
                    val = val[1] if val[0] == "k" else ("expr", val)
            path_list.append((atoms, val))
    except AnchorMissing:
        path_list = []

    def by_paths(pred):
        hit = [val for atoms, val in path_list if any(pred(e, p) for e, p in atoms)]
        direct = [val for atoms, val in path_list if isinstance(val, tuple) and val[0] == "expr" and pred(val[1], False)]
        return (bool(hit) or bool(direct)) and all(v is False or v == 0 for v in hit)
    for nm, pred in wants:
        ok = any(alt_has(reach_alternatives(f, bb), pred) for bb in falses) or by_paths(pred)
        col.check(R, "%s:is_valid:%s" % (crate, nm), ok, "OptionsBuilder::is_valid does not return false when the %s check fails" % nm, f.loc())
    g = facts.fn("%s::options::Options::is_valid" % crate)
    calls = [callee_name(c) for _b, c, _a, _d, _t in g.calls()]
    col.check(R, "%s:Options::is_valid" % crate, calls == ["%s::options::Options::rebuild" % crate, adt + "::is_valid"],
              "Options::is_valid is not `self.rebuild().is_valid()` (calls %s)" % calls, g.loc())


def rule_is_valid_agrees_with_build(col, facts, crate):
    """SIB-valid: `OptionsBuilder::is_valid()` and `build()` are two spellings of one predicate - the first is
    what `Options::is_valid()` (hence every `debug_assert!(options.is_valid())` and every user who mutated the
    options) relies on, the second what `build_strict` enforces.  Every condition under which `build()` returns
    an error must make `is_valid()` false: for the scalar fields the rejecting comparison itself must appear
    among is_valid's rejecting tests; for the option strings is_valid must consult the per-string validators."""
    from rules import grd as G
    R = "SIB-valid"
    adt = "%s::options::OptionsBuilder" % crate
    fb = facts.fn(adt + "::build", required=False)
    fv = facts.fn(adt + "::is_valid", required=False)
    if fb is None or fv is None:
        return 0

    def rejecting(f, want):
        out = []
        for i, b in enumerate(f.blocks):
            if not f.live(i):
                continue
            for st in b["s"]:
                if st[0] == "=" and st[1] == [0, []]:
                    rv = st[2]
                    tag = None
                    if rv[0] == "agg" and rv[1][0] == "adt" and rv[1][3] == "Err":
                        tag = "Err"
                    if rv[0] == "use" and rv[1][0] == "k" and rv[1][1].get("ty") == "bool":
                        tag = bool(rv[1][1].get("v"))
                    if tag == want:
                        pc = path_conditions(f, i)
                        if pc:
                            _d, e, p = pc[-1]
                            from rules.core import simplify_proj as _sp
                            out.append((G.norm(strip_casts(_sp(strip_casts(e)))), p, f.loc(st[3])))
        return out
    rb = rejecting(fb, "Err")
    rv_ = rejecting(fv, False)
    have = {(e, p) for e, p, _l in rv_}
    import re as _re

    def canon(e, p):
        """A comparison atom in a canonical form: polarity True, operator in {Lt, Le, Eq}, integer bounds `x < c`."""
        e = strip_casts(e)
        if not (isinstance(p, bool) and e[0] == "bin" and e[1] in ("Lt", "Le", "Gt", "Ge", "Eq", "Ne")):
            return (e, p)
        op, a, b = e[1], e[2], e[3]
        if not p:
            op = {"Lt": "Ge", "Ge": "Lt", "Gt": "Le", "Le": "Gt", "Eq": "Ne", "Ne": "Eq"}[op]
        if op in ("Gt", "Ge"):
            op, a, b = {"Gt": "Lt", "Ge": "Le"}[op], b, a
        # integers: `x <= c` is `x < c + 1`, `c <= x` is `c - 1 < x`
        if op == "Le" and strip_casts(b)[0] == "k" and isinstance(strip_casts(b)[1], int):
            op, b = "Lt", ("k", strip_casts(b)[1] + 1)
        elif op == "Le" and strip_casts(a)[0] == "k" and isinstance(strip_casts(a)[1], int):
            op, a = "Lt", ("k", strip_casts(a)[1] - 1)
        return (("bin", op, G.norm(strip_casts(a)), G.norm(strip_casts(b))), True)

    def fields_of(e):
        return set(_re.findall(r"self\.\*\.(\d+)", show(e) + " " + repr(e)))
    have_c = {canon(e, p) for e, p, _l in rv_}
    # every comparison is_valid makes anywhere (also inside one big `&&`), for the field-level fallback
    tested_fields = set()
    for i, b in enumerate(fv.blocks):
        if fv.live(i) and b["t"]["k"] == "switch":
            tested_fields |= fields_of(op_expr(fv, b["t"]["d"]))
        for st in b["s"]:
            if st[0] == "=" and st[2][0] == "bin":
                tested_fields |= fields_of(rvalue_expr(fv, st[2], 0))
    # ... and in the helper methods it hands `self` to (`self.nan_str_is_valid()`), two levels deep
    def helper_fields(g, depth=0, seen=None):
        seen = seen if seen is not None else set()
        out = set()
        if g.short in seen or depth > 2:
            return out
        seen.add(g.short)
        for i, b in enumerate(g.blocks):
            if g.live(i) and b["t"]["k"] == "switch":
                out |= fields_of(op_expr(g, b["t"]["d"]))
            for st in b["s"]:
                if st[0] == "=" and st[2][0] in ("bin", "use", "ref"):
                    out |= fields_of(rvalue_expr(g, st[2], 0))
        for _b, c, a, _d, _t in g.calls():
            for x in a:
                out |= fields_of(op_expr(g, x))
            for h in facts.by_short.get(callee_name(c), []):
                if h.crate == g.crate:
                    out |= helper_fields(h, depth + 1, seen)
        return out
    all_calls_v = set()
    for _b, c, _a, _d, _t in fv.calls():
        all_calls_v.add(last_seg(callee_name(c)))
        for x in _a:
            tested_fields |= fields_of(op_expr(fv, x))          # `is_valid_ascii(self.exponent)` as an operand of `&&`
        for h in facts.by_short.get(callee_name(c), []):
            if h.crate == fv.crate:
                tested_fields |= helper_fields(h)
    n = 0
    strings = False
    for e, p, loc in rb:
        names = {last_seg(c[1]) for c in expr_calls(e)}
        if names & {"unwrap_str", "is_some", "is_none", "is_empty", "len", "is_valid_letter_slice"} or "MAX_SPECIAL_STRING_LENGTH" in show(e):
            strings = True
            continue
        n += 1
        if (e, p) not in have and canon(e, p) in have_c:
            continue                    # the same test, written the other way round (`min <= max` for `!(max < min)`, `>= 1` for `> 0`)
        if (e, p) not in have and fields_of(e) and fields_of(e) <= tested_fields:
            # is_valid does test these fields, in a form this comparison of two spellings cannot line up (one `&&`
            # expression, a helper): not decided
            col.assumed("not-applied", "SIB-valid:%s:%s" % (crate.replace("lexical_", ""), show(e)[:70]), "build() rejects on `%s`; is_valid() tests the same field(s) in another form: agreement not decided" % show(e)[:80], loc)
            continue
        col.check(R, "%s:%s" % (crate.replace("lexical_", ""), show(e)[:70]), (e, p) in have,
                  "build() rejects the options when `%s` is %s, but is_valid() has no such test: options that cannot be built are reported valid (Options::is_valid(), which the writers' debug assertions and users of the setters rely on, says true)" % (show(e)[:100], p), loc)
    if strings:
        sv = {last_seg(c[1]) for e, p, _l in rv_ for c in expr_calls(e)} | all_calls_v
        col.check(R, "%s:special-strings" % crate.replace("lexical_", ""), any(x.endswith("_str_is_valid") or x.endswith("_string_is_valid") for x in sv) or any(("unwrap_str" in show(e)) for e, p, _l in rv_),
                  "build() validates the special strings but is_valid() never consults a string validator (tests: %s)" % sorted(sv), fv.loc())
    return n
