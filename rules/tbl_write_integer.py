"""TBL / PAIR rules over lexical-write-integer and the shared integer helpers in lexical-util (C03, C09, C16)."""
from oracle import defs as D
from rules.core import (NotATable, TableIndexOutOfRange, tbl_eval, fold, op_local, copy_root, callee_name,
                        find_fn_suffix, AnchorMissing)

WI = "lexical_write_integer::"
RFF = "lexical_util::format_flags::radix_from_flags"


def is_compact(facts):
    return facts.config.startswith("compact")


def valid_radices(facts):
    if "radix" in facts.config:
        return list(range(2, 37))
    if "power-of-two" in facts.config:
        return [2, 4, 8, 10, 16, 32]
    return [10]


def unref(v):
    while isinstance(v, dict) and "ref" in v:
        v = v["ref"]
    return v


def rule_digit_tables(col, facts):
    """TBL-digits / PAIR-table: every DIGIT_TO_BASE{r}_SQUARED is the canonical pair table, and
    get_table maps radix r to table r through an explicit arm."""
    R = "TBL-digits"
    n = 0
    import re
    for path, c in facts.consts.items():
        m = re.search(r"::DIGIT_TO_BASE(\d+)_SQUARED$", path)
        if not m or c["_crate"] != "lexical_write_integer":
            continue
        r = int(m.group(1))
        v = c.get("value")
        want = D.digit_pair_table(r)
        n += 1
        col.check(R, "DIGIT_TO_BASE%d_SQUARED" % r, v == want,
                  "table differs from the canonical digit pairs of radix %d (first difference at byte %s)" %
                  (r, next((i for i, (a, b) in enumerate(zip(v or [], want)) if a != b), "len %d vs %d" % (len(v or []), len(want)))),
                  facts.const_loc(path))
    if not is_compact(facts):
        need = {"radix": 35, "power-of-two": 6}.get("radix" if "radix" in facts.config else ("power-of-two" if "power-of-two" in facts.config else ""), 1)
        col.floor(R, "DIGIT_TO_BASE*_SQUARED tables (%s)" % facts.config, n, need)
    # digit_to_char tables in lexical-util
    for path, c in facts.consts.items():
        if c["_crate"] == "lexical_util" and path.startswith("lexical_util::digit::") and path.endswith("::TABLE"):
            want = [D.digit_char(i) for i in range(36)]
            col.check(R, path, c.get("value") == want, "digit_to_char table is not 0-9A-Z", facts.const_loc(path))
    if is_compact(facts) or "power-of-two" not in facts.config and "radix" not in facts.config:
        return
    gt = find_fn_suffix(facts, "lexical_write_integer", "::get_table")
    for r in valid_radices(facts):
        try:
            res = tbl_eval(facts, gt, [], overrides={RFF: (lambda t, r=r: r)})
        except NotATable as e:
            col.bad("PAIR-table", "get_table(%d)" % r, "no table is returned for valid radix %d: %s" % (r, e), gt.loc())
            continue
        v = unref(res.value)
        col.check("PAIR-table", "get_table(%d)" % r, v == D.digit_pair_table(r) and not res.default_taken,
                  "get_table returns a %d-byte table that is not the radix-%d pair table%s" % (len(v), r, " [wildcard arm]" if res.default_taken else ""), gt.loc())


def rule_digit_count(col, facts):
    """TBL-count / PAIR-log: decimal digit-count tables and the power-of-two dispatch of digit_count."""
    if is_compact(facts):
        return
    R = "TBL-count"
    name = WI + "decimal::fast_digit_count::TABLE"
    T = facts.const_value(name)
    loc = facts.const_loc(name)
    col.floor(R, "fast_digit_count::TABLE rows", len(T), 32, loc)
    for i, t in enumerate(T[:32]):
        lo = 0 if i == 0 else (1 << i)
        hi = (1 << (i + 1)) - 1
        pts = {lo, hi}
        p = 1
        while p <= hi * 10:
            for x in (p - 1, p):
                if lo <= x <= hi:
                    pts.add(x)
            p *= 10
        bad = [x for x in sorted(pts) if ((x + t) >> 32) != len(str(x))]
        col.check(R, "fast_digit_count::TABLE[%d]" % i, not bad and max(pts) + t < (1 << 64),
                  "(x + %d) >> 32 is not the decimal digit count for x=%s (x with floor(log2 x)=%d)" % (t, bad[:3], i), loc)
    # u64 / u128 power-of-ten tables and fast_log10
    fl = facts.fn(WI + "decimal::fast_log10")
    C = S = None
    for b in fl.blocks:
        for st in b["s"]:
            if st[0] == "=" and st[2][0] == "bin":
                if st[2][1].startswith("Mul"):
                    C = fold(fl, st[2][3])
                    if C is None:
                        C = fold(fl, st[2][2])          # `C * log2`
                if st[2][1].startswith("Shr"):
                    S = fold(fl, st[2][3])
    if C is None or S is None:
        col.assumed("not-applied", "TBL-digitcount:fast_log10", "fast_log10 is not written as `(log2 * C) >> S`: its estimate is not decided", fl.loc())
        return
    for ty, bits in (("u64", 64), ("u128", 128)):
        name = "<%s as lexical_write_integer::decimal::DecimalCount>::decimal_count::TABLE" % ty
        T = facts.const_value(name)
        loc = facts.const_loc(name)
        for i, t in enumerate(T):
            col.check(R, "%s-pow10[%d]" % (ty, i), t == 10 ** (i + 1), "entry %d is not 10^%d" % (t, i + 1), loc)
        for L in range(bits):
            g = (L * C) >> S
            lo = 1 if L == 0 else (1 << L)
            hi = (1 << (L + 1)) - 1
            # fallback_digit_count: log10 + (x >= TABLE[log10]) + 1, TABLE.get() may be None
            ok = 10 ** g <= lo
            if g < len(T):
                ok = ok and hi < 10 ** (g + 2)
            else:
                ok = ok and hi < 10 ** (g + 1)
            col.check(R, "%s-fast_log10[L=%d]" % (ty, L), ok,
                      "for %d <= x <= %d the estimate (L*%d)>>%d = %d is not within one of floor(log10 x) (table length %d)" % (lo, hi, C, S, g, len(T)), fl.loc())
    # PAIR-log: digit_count's radix arms 2^k -> digit_log{2^k} -> fast_log2(x)/k + 1
    R2 = "PAIR-log"
    n = 0
    for f in facts.all_fns():
        if f.crate != "lexical_write_integer" or not f.short.endswith("::digit_count") or "DigitCount" not in f.short:
            continue
        for b in f.blocks:
            t = b["t"]
            if t["k"] == "switch" and len(t["v"]) >= 5 and t["dty"] == "u32":
                for v, tgt in t["v"]:
                    callee = first_call_from(f, tgt)
                    if callee is None:
                        continue
                    cn = callee_name(callee)
                    if v == 10:
                        col.check(R2, "%s[10]" % f.short, cn.endswith("DecimalCount::decimal_count"), "radix 10 arm calls %s" % cn, f.loc())
                        n += 1
                        continue
                    g = facts.by_short.get(cn)
                    if not g:
                        col.bad(R2, "%s[%d]" % (f.short, v), "arm calls unknown %s" % cn, f.loc())
                        continue
                    k = div_const(g[0])
                    n += 1
                    col.check(R2, "%s[%d]" % (f.short, v), k is not None and (1 << k) == v,
                              "radix %d is counted by %s which divides log2 by %s (needs log2(%d))" % (v, cn, k, v), g[0].loc())
    col.floor(R2, "digit_count dispatch arms", n, 12)


def first_call_from(f, bb, limit=4):
    for _ in range(limit):
        t = f.blocks[bb]["t"]
        if t["k"] == "call":
            return t["f"]
        if t["k"] == "goto":
            bb = t["to"]
            continue
        return None
    return None


class _Identity:
    """Stand-in callee: fast_log2(x) is taken to be the variable itself, so digit_log<R>(L) is evaluated as a
    function of the bit length L."""
    def value(self, args):
        return args[0]


def div_const(g):
    """k such that g computes fast_log2(x)/k + 1 for every bit length 0..127 - decided by evaluating g's paths
    (so `/ 2`, `>> 1`, `* 43 >> 7` on its exact range ... all count), None if it is not of that form."""
    try:
        from rules.pathmodel import Model, Shape, Panic
        callees = {callee_name(c): _Identity() for _bb, c, _a, _d, _t in g.calls() if callee_name(c).endswith("fast_log2")}
        if callees:
            m = Model(g, ty="usize", callees=callees)
            vals = [m.value([L]) for L in range(128)]
            for k in range(1, 8):
                if all(vals[L] == L // k + 1 for L in range(128)):
                    return k
            return None
    except Exception:
        pass
    return _div_const_shape(g)


def _div_const_shape(g):
    """(fallback) k such that g computes fast_log2(x)/k + 1 (k = 1 when there is no division)."""
    k = 1
    saw_log2 = False
    for _bb, callee, _a, _d, _t in g.calls():
        if callee_name(callee).endswith("fast_log2"):
            saw_log2 = True
    if not saw_log2:
        return None
    for b in g.blocks:
        for st in b["s"]:
            if st[0] == "=" and st[2][0] == "bin" and st[2][1].startswith("Div"):
                k = fold(g, st[2][3])
    return k


def rule_div128(col, facts):
    """TBL-div128: for every radix, u128_divrem dispatches to a helper whose constants implement
    exact division by d = radix^u64_step(radix) for all n < 2^128."""
    if is_compact(facts):
        return
    R = "TBL-div128"
    f = facts.fn("lexical_util::div128::u128_divrem")
    helpers = ["lexical_util::div128::pow2_u128_divrem", "lexical_util::div128::fast_u128_divrem",
               "lexical_util::div128::moderate_u128_divrem", "lexical_util::div128::slow_u128_divrem"]
    step_fn = facts.fn("lexical_util::step::u64_step")
    n = 0
    for r in valid_radices(facts):
        try:
            res = tbl_eval(facts, f, ["N", r], allow=helpers)
        except NotATable as e:
            col.bad(R, "u128_divrem(%d)" % r, "dispatch is not a pure lookup for valid radix %d: %s" % (r, e), f.loc())
            continue
        v = res.value
        if not (isinstance(v, tuple) and v[0] == "call"):
            col.bad(R, "u128_divrem(%d)" % r, "no division helper reached", f.loc())
            continue
        _, helper, args = v
        n += 1
        step = tbl_eval(facts, step_fn, [r]).value
        hloc = facts.fn(res.chain[-1]).loc() if res.chain else f.loc()
        key = "u128_divrem(%d)" % r
        if args[0] != "N":
            col.bad(R, key, "the dividend is not forwarded unchanged", hloc)
            continue
        h = helper.rsplit("::", 1)[-1]
        if h == "pow2_u128_divrem":
            mask, shr = args[1], args[2]
            ok = (1 << shr) == r ** step and mask == (1 << shr) - 1
            col.check(R, key, ok, "pow2 helper with mask %#x shr %d is not division by %d^%d" % (mask, shr, r, step), hloc)
        elif h == "slow_u128_divrem":
            d, ctlz = args[1], args[2]
            ok = d == r ** step and ctlz == 64 - d.bit_length()
            col.check(R, key, ok, "slow helper: d=%d (need %d^%d=%d), d_ctlz=%d (need %d)" % (d, r, step, r ** step, ctlz, 64 - d.bit_length()), hloc)
        elif h == "moderate_u128_divrem":
            d, factor, shr = args[1], args[2], args[3]
            ok = d == r ** step and D.div128_valid(d, factor, shr) and factor < (1 << 128)
            col.check(R, key, ok, "moderate helper: d=%d (need %d^%d), (factor, shift) %s a valid 128-bit reciprocal" % (d, r, step, "is" if D.div128_valid(d, factor, shr) else "is NOT"), hloc)
        elif h == "fast_u128_divrem":
            d, fast, fshr, factor, shr = args[1], args[2], args[3], args[4], args[5]
            ok = (d == r ** step and D.div128_valid(d, factor, shr) and factor < (1 << 128)
                  and d % (1 << fshr) == 0 and fast <= (1 << (64 + fshr)) and fast >= 1)
            col.check(R, key, ok, "fast helper: d=%d (need %d^%d), fast=%d, fast_shr=%d (need 2^fast_shr | d and fast <= 2^(64+fast_shr)), reciprocal %s" %
                      (d, r, step, fast, fshr, "valid" if D.div128_valid(d, factor, shr) else "INVALID"), hloc)
        else:
            col.bad(R, key, "unknown helper %s" % helper, hloc)
    col.floor(R, "u128_divrem arms (%s)" % facts.config, n, len(valid_radices(facts)))
    # the decimal writer's private 10^10 divider
    g = facts.fn(WI + "jeaiii::u128_divrem_10_10pow10")
    for _bb, callee, args, _d, _t in g.calls():
        if callee_name(callee).endswith("fast_u128_divrem"):
            vals = [fold(g, a) for a in args[1:]]
            if None in vals:
                col.bad(R, "jeaiii::u128_divrem_10_10pow10", "non-constant arguments", g.loc())
                continue
            d, fast, fshr, factor, shr = vals
            ok = d == 10 ** 10 and D.div128_valid(d, factor, shr) and d % (1 << fshr) == 0 and 1 <= fast <= (1 << (64 + fshr))
            col.check(R, "jeaiii::u128_divrem_10_10pow10", ok, "constants (%d, %d, %d, %d, %d) are not exact division by 10^10" % tuple(vals), g.loc())


def rule_steps(col, facts):
    """min_step / max_step tables: min_step(r,bits,signed) = max{s : r^s <= max+1 digits always fit},
    checked as bounds: every s-digit numeral fits (min) / some s-digit numeral fits (max)."""
    R = "TBL-step"
    mn = facts.fn("lexical_util::step::min_step")
    mx = facts.fn("lexical_util::step::max_step")
    n = 0
    for r in valid_radices(facts):
        for bits in (8, 16, 32, 64, 128):
            for signed in (False, True):
                tmax = (1 << (bits - (1 if signed else 0))) - 1
                a = tbl_eval(facts, mn, [r, bits, signed])
                b = tbl_eval(facts, mx, [r, bits, signed])
                n += 2
                # min_step: all values with that many digits fit: r^min - 1 <= tmax
                col.check(R, "min_step(%d,%d,%s)" % (r, bits, signed), a.value >= 1 and r ** a.value - 1 <= tmax and not a.default_taken,
                          "= %d: not every %d-digit radix-%d numeral fits a %s%d%s" % (a.value, a.value, r, "i" if signed else "u", bits, " [wildcard arm]" if a.default_taken else ""), mn.loc())
                # max_step: the type's maximum has exactly that many digits
                col.check(R, "max_step(%d,%d,%s)" % (r, bits, signed), b.value == D.ndigits(tmax, r) and not b.default_taken,
                          "= %d: %s%d::MAX has %d radix-%d digits%s" % (b.value, "i" if signed else "u", bits, D.ndigits(tmax, r), r, " [wildcard arm]" if b.default_taken else ""), mx.loc())
    col.floor(R, "step table entries", n, 20)


def rule_sizes(col, facts):
    """TBL-size / PAIR-width: buffer-size constants cover the longest numeral; signed types are
    written through the unsigned type of the same width."""
    R = "TBL-size"
    n = 0
    p2 = "power-of-two" in facts.config or "radix" in facts.config
    for ty, bits, signed in (("u8", 8, 0), ("u16", 16, 0), ("u32", 32, 0), ("u64", 64, 0), ("u128", 128, 0), ("usize", 64, 0),
                             ("i8", 8, 1), ("i16", 16, 1), ("i32", 32, 1), ("i64", 64, 1), ("i128", 128, 1), ("isize", 64, 1)):
        pre = "<%s as lexical_util::constants::FormattedSize>::" % ty
        dec = facts.const_value(pre + "FORMATTED_SIZE_DECIMAL")
        full = facts.const_value(pre + "FORMATTED_SIZE")
        tmax = (1 << (bits - signed)) - 1
        mag = tmax + signed        # |MIN| for signed
        need_dec = D.ndigits(mag, 10) + signed
        need_full = (D.ndigits(mag, 2) + signed) if p2 else need_dec
        n += 2
        col.check(R, "FORMATTED_SIZE_DECIMAL(%s)" % ty, dec >= need_dec, "%d < %d bytes needed for %s::%s" % (dec, need_dec, ty, "MIN" if signed else "MAX"), facts.const_loc(pre + "FORMATTED_SIZE_DECIMAL"))
        col.check(R, "FORMATTED_SIZE(%s)" % ty, full >= need_full, "%d < %d bytes needed in the smallest supported radix" % (full, need_full), facts.const_loc(pre + "FORMATTED_SIZE"))
    col.floor(R, "FORMATTED_SIZE constants", n, 24)
    # PAIR-width
    R2 = "PAIR-width"
    width = {"8": 8, "16": 16, "32": 32, "64": 64, "128": 128, "size": 64}
    m = 0
    for f in facts.all_fns():
        if f.crate != "lexical_write_integer":
            continue
        for bb, callee, args, _d, _t in f.calls():
            if callee_name(callee) == WI + "api::signed":
                ta = callee.get("targs", [])
                if len(ta) >= 2:
                    s, u = ta[0], ta[1]
                    m += 1
                    col.check(R2, "signed::<%s,%s>" % (s, u), s[0] == "i" and u[0] == "u" and width.get(s[1:]) == width.get(u[1:]) and width.get(s[1:]) is not None,
                              "signed type %s is written through %s: wrapping_neg + as_cast would truncate or mis-extend" % (s, u), f.loc(f.blocks[bb]["ts"]))
    col.floor(R2, "signed::<S,U> instantiations", m, 12)
    # jeaiii re-slice constants: between the true maximum length and FORMATTED_SIZE_DECIMAL
    if not is_compact(facts):
        R3 = "TBL-reslice"
        for fn_name, ty, mx in (("from_u8", "u8", 3), ("from_u16", "u16", 5), ("from_u32", "u32", 10), ("from_u128", "u128", 39)):
            f = facts.fn(WI + "jeaiii::" + fn_name)
            ks = reslice_consts(f)
            dec = facts.const_value("<%s as lexical_util::constants::FormattedSize>::FORMATTED_SIZE_DECIMAL" % ty)
            col.check(R3, fn_name, bool(ks) and all(mx <= k <= dec for k in ks),
                      "re-slice `&mut buffer[..k]` with k=%s must satisfy %d <= k <= FORMATTED_SIZE_DECIMAL=%d (shorter: digits are cut / longer: a documented-size buffer panics)" % (ks, mx, dec), f.loc())
        f = facts.fn(WI + "jeaiii::from_u64_impl")
        ks = reslice_consts(f)
        col.check(R3, "from_u64_impl", sorted(ks) == [19, 20] or (bool(ks) and all(19 <= k <= 20 for k in ks)),
                  "re-slice constants %s must be 19 (signed) and 20 (unsigned)" % ks, f.loc())


def reslice_consts(f):
    """Constants k of `buffer[..k]` (RangeTo { end: k } passed to index_mut)."""
    out = []
    for b in f.blocks:
        for st in b["s"]:
            if st[0] == "=" and st[2][0] == "agg" and st[2][1][0] == "adt" and st[2][1][1].endswith("ops::range::RangeTo"):
                k = fold(f, st[2][2][0])
                if k is not None:
                    out.append(k)
    return out
