"""C18 — format and options validation (DESIGN §4)."""
from rules import fmt as F
from rules import extra as X
from rules.core import guarded, guarded_soft
from rules import opts as O

INFO = {
    "explanation": "The packed-format bit layout, the builder<->flag<->rebuild pairing of all 37 fields, the constraint table of format_error_impl (every documented constraint has a rejecting branch with the right polarity and error, in both cfg variants), is_valid_radix per feature set, build_strict's Success-only return and validation-before-use at every *_with_options entry point are decided on the MIR of every configuration.",
    "not_decided": "byte-level correctness of the punctuation predicates beyond their call structure; option-string validators (covered under C15/C17)",
    "assumptions": ["rustc's const evaluator and MIR builder"],
}


def run(col, configs, tier):
    for name, facts in configs.items():
        col.set_config(name)
        guarded(col, F.rule_flag_layout, facts)
        guarded(col, F.rule_builder_pairs, facts)
        guarded(col, F.rule_format_error, facts)
        guarded(col, F.rule_format_error_evaluated, facts)
        guarded(col, F.rule_build_strict, facts)
        guarded(col, F.rule_entry_validation, facts)
        guarded_soft(col, X.rule_byte_predicates, facts)
        guarded_soft(col, X.rule_control_radices, facts)
        guarded_soft(col, X.rule_punctuation_pairs, facts)
        guarded_soft(col, X.rule_options_punctuation_pairs, facts)
        guarded_soft(col, X.rule_default_flags_exact, facts)
        from rules import dispatch as D18
        guarded(col, D18.rule_check_radix_table, facts)
        for crate in ("lexical_write_float", "lexical_parse_float", "lexical_write_integer", "lexical_parse_integer"):
            guarded(col, O.rule_is_valid_agrees_with_build, facts, crate)
