"""C03 — integer->string is the canonical numeral: tables, dispatch, widths (DESIGN §4)."""
from rules import tbl_write_integer as I
from rules.core import guarded, guarded_soft
from rules import extra as X

INFO = {
    "explanation": "All digit-pair tables (2..36), the digit-count tables and log multipliers, the 128-bit division constants for every radix (d = radix^u64_step, reciprocal valid for all n < 2^128), min/max step tables, buffer-size constants, re-slice constants and signed/unsigned width pairing are compared with their mathematical definitions in every feature configuration.",
    "not_decided": "the digit-extraction arithmetic (jeaiii multiply chains, Alexandrescu loops) and digit_count's value-level exactness for non-decimal, non-2^k radices",
    "assumptions": ["rustc's const evaluator and MIR builder", "x86_64: usize/isize are 64-bit"],
}


def run(col, configs, tier):
    for name, facts in configs.items():
        col.set_config(name)
        guarded(col, I.rule_digit_tables, facts)
        guarded(col, I.rule_digit_count, facts)
        guarded(col, I.rule_div128, facts)
        guarded(col, I.rule_steps, facts)
        guarded(col, I.rule_sizes, facts)
        guarded_soft(col, X.rule_step_helper_agreement, facts)
        guarded_soft(col, X.rule_jeaiii, facts)
        guarded_soft(col, X.rule_chunk_padding, facts)
        guarded_soft(col, X.rule_u128_count_chunks, facts)
        guarded_soft(col, X.rule_index_widening, facts)
        guarded_soft(col, X.rule_naive_count_stages, facts)
        guarded_soft(col, X.rule_compact_scratch_size, facts)
        from rules import c08
        guarded(col, c08.rule_mask_shift, facts)
