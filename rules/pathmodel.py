"""Decision-table models of small loop-free pure functions.

A function's MIR is turned into its list of feasible acyclic paths (core.enum_paths, path-sensitive); a path is
a conjunction of atoms over the arguments plus a result expression.  `Model.value(args)` selects the path whose
atoms hold for concrete argument values and evaluates its result with Rust's integer semantics (checked
operations raise Panic exactly where the compiled code's overflow assertions would; `/` and `%` truncate towards
zero).  Calls are only followed into other models given explicitly (`callees`) or into a few integer intrinsics;
anything else - memory, loops (a path that revisits a block is cut by enum_paths and then no path matches),
foreign calls - raises Shape: the function is then not a decision table and the caller reports that (fail
closed).  This is the same idea as core.tbl_eval (decode a lookup function), extended to the arithmetic that
index / alignment helpers consist of; it is used only on functions whose whole domain of interest is a few
thousand points, and every use states the domain it tabulated."""
from rules.core import enum_paths, resolve_env, strip_casts, last_seg, show, simplify_proj, AnchorMissing


class Shape(Exception):
    pass


class Panic(Exception):
    pass


INT_RANGE = {"i8": (-(1 << 7), (1 << 7) - 1), "i16": (-(1 << 15), (1 << 15) - 1), "i32": (-(1 << 31), (1 << 31) - 1),
             "i64": (-(1 << 63), (1 << 63) - 1), "isize": (-(1 << 63), (1 << 63) - 1),
             "u128": (0, (1 << 128) - 1), "i128": (-(1 << 127), (1 << 127) - 1),
             "u8": (0, (1 << 8) - 1), "u16": (0, (1 << 16) - 1), "u32": (0, (1 << 32) - 1), "u64": (0, (1 << 64) - 1), "usize": (0, (1 << 64) - 1)}


_ASCII = {
    "is_ascii": lambda c: c < 0x80,
    "is_ascii_control": lambda c: c < 0x20 or c == 0x7f,
    "is_ascii_digit": lambda c: 0x30 <= c <= 0x39,
    "is_ascii_alphabetic": lambda c: 0x41 <= c <= 0x5a or 0x61 <= c <= 0x7a,
    "is_ascii_uppercase": lambda c: 0x41 <= c <= 0x5a,
    "is_ascii_lowercase": lambda c: 0x61 <= c <= 0x7a,
    "is_ascii_alphanumeric": lambda c: 0x30 <= c <= 0x39 or 0x41 <= c <= 0x5a or 0x61 <= c <= 0x7a,
    "is_ascii_graphic": lambda c: 0x21 <= c <= 0x7e,
    "is_ascii_punctuation": lambda c: 0x21 <= c <= 0x2f or 0x3a <= c <= 0x40 or 0x5b <= c <= 0x60 or 0x7b <= c <= 0x7e,
    "is_ascii_whitespace": lambda c: c in (0x20, 0x09, 0x0a, 0x0c, 0x0d),
    "is_ascii_hexdigit": lambda c: 0x30 <= c <= 0x39 or 0x41 <= c <= 0x46 or 0x61 <= c <= 0x66,
}


def _tdiv(a, b):
    q = abs(a) // abs(b)
    return q if (a >= 0) == (b >= 0) else -q


class Model:
    def __init__(self, f, ty="i32", callees=None, consts=None, resolver=None):
        """`ty`: the integer type the function computes in (used for overflow / wrapping).
        `resolver(name)`: optional, builds the model of a callee that was not given explicitly (a helper
        extracted from, or shared with, the function) - None if it cannot be modelled."""
        self.f = f
        self.ty = ty
        self.callees = dict(callees or {})
        self.resolver = resolver
        self.consts = consts or {}          # last path segment of a named (generic) constant -> value
        rets = {i for i, b in enumerate(f.blocks) if f.live(i) and b["t"]["k"] == "return"}
        self.paths = []
        for t, atoms, env in enum_paths(f, 0, rets, want_env=True, resolve_atoms=True):
            r = env.get(0)
            if r is None:
                raise AnchorMissing("%s: a return path without a result" % f.short)
            e = ("k", r[1]) if r[0] == "const" else simplify_proj(resolve_env(r[1], env))
            self.paths.append(([(simplify_proj(a), p) for a, p in atoms], e))

    # ------------------------------------------------------------------------------------
    def ev(self, e, args):
        if not isinstance(e, tuple) or not e:
            raise Shape("node %r" % (e,))
        k = e[0]
        if k == "arg":
            return args[e[1] - 1]
        if k == "k":
            if isinstance(e[1], bool):
                return int(e[1])
            if isinstance(e[1], int):
                return e[1]
            raise Shape("constant %r" % (e[1],))
        if k == "kc" and last_seg(e[1]) in self.consts:
            return self.consts[last_seg(e[1])]
        if k == "kc" and isinstance(e[2], int):
            return e[2]
        if k == "cast":
            v = self.ev(e[1], args)
            lo_hi = INT_RANGE.get(e[2])
            if lo_hi is None:
                return v
            lo, hi = lo_hi
            span = hi - lo + 1
            return (v - lo) % span + lo          # `as` wraps
        if k == "un":
            v = self.ev(e[2], args)
            if e[1] == "Not":
                return int(not v) if v in (0, 1) else ~v
            if e[1] == "Neg":
                lo, hi = INT_RANGE[self.ty]
                if -v > hi:
                    raise Panic("negation overflow in `%s`" % show(e))
                return -v
            raise Shape("unary %s" % e[1])
        if k == "bin":
            op = e[1]
            a, b = self.ev(e[2], args), self.ev(e[3], args)
            lo, hi = INT_RANGE[self.ty]
            if op in ("Add", "Sub", "Mul"):
                v = {"Add": a + b, "Sub": a - b, "Mul": a * b}[op]
                if not (lo <= v <= hi):
                    raise Panic("`%s` overflows %s for %s" % (show(e), self.ty, args))
                return v
            if op in ("Div", "Rem"):
                if b == 0:
                    raise Panic("`%s` divides by zero for %s" % (show(e), args))
                q = _tdiv(a, b)
                return q if op == "Div" else a - b * q
            if op in ("Lt", "Le", "Gt", "Ge", "Eq", "Ne"):
                return int({"Lt": a < b, "Le": a <= b, "Gt": a > b, "Ge": a >= b, "Eq": a == b, "Ne": a != b}[op])
            if op in ("BitAnd", "BitOr", "BitXor"):
                return {"BitAnd": a & b, "BitOr": a | b, "BitXor": a ^ b}[op]
            if op in ("Shl", "Shr"):
                return (a << b) if op == "Shl" else (a >> b)
            raise Shape("operator %s in `%s`" % (op, show(e)))
        if k == "agg" and isinstance(e[1], tuple) and e[1] and e[1][0] == "adt":
            # an enum / struct value: ("enum", variant index, variant name, fields)
            return ("enum", e[1][2], e[1][3], tuple(self.ev(x, args) for x in e[2]))
        if k == "agg" and (e[1] == "tuple" or (isinstance(e[1], tuple) and e[1] and e[1][0] == "tuple")):
            return ("enum", 0, "tuple", tuple(self.ev(x, args) for x in e[2]))
        if k == "discr":
            v = self.ev(e[1], args)
            if isinstance(v, tuple) and v and v[0] == "enum":
                return v[1]
            return v
        if k == "ref":
            return self.ev(e[1], args)
        if k == "proj" and not (isinstance(e[1], tuple) and e[1] and e[1][0] == "bin"):
            v = self.ev(e[1], args)
            for q in e[2]:
                if q == "*" or (isinstance(q, (tuple, list)) and q and q[0] == "as"):
                    continue
                if isinstance(q, int) and isinstance(v, tuple) and v and v[0] == "enum" and q < len(v[3]):
                    v = v[3][q]
                    continue
                raise Shape("projection %r of `%s`" % (q, show(e)))
            return v
        if k == "proj" and tuple(e[2]) == (0,) and isinstance(e[1], tuple) and e[1][0] == "bin":
            return self.ev(e[1], args)            # the value half of a checked operation
        if k == "proj" and e[2] == (1,) and isinstance(e[1], tuple) and e[1][0] == "bin":
            # overflow flag of a checked operation / zero test of a division
            op = e[1][1]
            a, b = self.ev(e[1][2], args), self.ev(e[1][3], args)
            lo, hi = INT_RANGE[self.ty]
            v = {"Add": a + b, "Sub": a - b, "Mul": a * b}.get(op)
            if v is None:
                raise Shape("overflow flag of %s" % op)
            return int(not (lo <= v <= hi))
        if k == "call":
            n = last_seg(e[1])
            vals = None
            if e[1] not in self.callees and self.resolver is not None:
                m_ = self.resolver(e[1])
                if m_ is not None:
                    self.callees[e[1]] = m_
            if e[1] in self.callees:
                return self.callees[e[1]].value([self.ev(x, args) for x in e[2]])
            if n == "wrapping_neg" and len(e[2]) == 1:
                lo, hi = INT_RANGE[self.ty]
                v = -self.ev(e[2][0], args)
                return v if v <= hi else lo
            if n in ("wrapping_add", "wrapping_sub", "wrapping_mul") and len(e[2]) == 2:
                lo, hi = INT_RANGE[self.ty]
                a, b = self.ev(e[2][0], args), self.ev(e[2][1], args)
                v = {"wrapping_add": a + b, "wrapping_sub": a - b, "wrapping_mul": a * b}[n]
                return (v - lo) % (hi - lo + 1) + lo
            if n == "leading_zeros" and len(e[2]) == 1:
                v = self.ev(e[2][0], args)
                if not (0 <= v < (1 << 32)):
                    raise Shape("leading_zeros of a non-u32 value")
                return 32 - v.bit_length()
            if n == "trailing_zeros" and len(e[2]) == 1:
                v = self.ev(e[2][0], args)
                if v == 0:
                    lo, hi = INT_RANGE[self.ty]
                    return (hi - lo + 1).bit_length() - 1
                return (v & -v).bit_length() - 1
            if n in ("count_ones",) and len(e[2]) == 1:
                return bin(self.ev(e[2][0], args) & ((1 << 128) - 1)).count("1")
            if n in ("rem_euclid", "div_euclid") and len(e[2]) == 2:
                a, b = self.ev(e[2][0], args), self.ev(e[2][1], args)
                if b == 0:
                    raise Panic("`%s` divides by zero for %s" % (show(e), args))
                r = a % abs(b)                          # Python's % with a positive modulus is the Euclidean remainder
                return r if n == "rem_euclid" else (a - r) // b
            if n in ("abs", "unsigned_abs", "wrapping_abs") and len(e[2]) == 1:
                return abs(self.ev(e[2][0], args))
            if n in ("min", "max") and len(e[2]) == 2:
                a, b = self.ev(e[2][0], args), self.ev(e[2][1], args)
                return min(a, b) if n == "min" else max(a, b)
            if n in ("saturating_sub", "saturating_add") and len(e[2]) == 2:
                lo, hi = INT_RANGE[self.ty]
                a, b = self.ev(e[2][0], args), self.ev(e[2][1], args)
                v = a - b if n == "saturating_sub" else a + b
                return min(max(v, lo), hi)
            if n in ("is_power_of_two",) and len(e[2]) == 1:
                v = self.ev(e[2][0], args)
                return int(v > 0 and v & (v - 1) == 0)
            if n in ("from", "into", "as_u32", "as_i32", "as_usize") and len(e[2]) == 1:
                return self.ev(e[2][0], args)
            if n in ("checked_sub", "checked_add", "checked_mul") and len(e[2]) == 2:
                lo, hi = INT_RANGE[self.ty]
                a, b = self.ev(e[2][0], args), self.ev(e[2][1], args)
                v = {"checked_sub": a - b, "checked_add": a + b, "checked_mul": a * b}[n]
                return ("enum", 1, "Some", (v,)) if lo <= v <= hi else ("enum", 0, "None", ())
            if n in ("is_some", "is_none", "is_ok", "is_err") and len(e[2]) == 1:
                v = self.ev(e[2][0], args)
                if isinstance(v, tuple) and v and v[0] == "enum":
                    return int(v[2] == {"is_some": "Some", "is_none": "None", "is_ok": "Ok", "is_err": "Err"}[n])
                raise Shape("%s of a value that is not an enum" % n)
            if n in ("eq", "ne") and len(e[2]) == 2:
                a, b = self.ev(e[2][0], args), self.ev(e[2][1], args)
                return int((a == b) == (n == "eq"))
            if n in _ASCII and len(e[2]) == 1:
                # u8 / char classification of the standard library, by its documented definition
                x = e[2][0]
                while isinstance(x, tuple) and x and (x[0] == "ref" or (x[0] == "proj" and all(q == "*" for q in x[2]))):
                    x = x[1]
                return int(_ASCII[n](self.ev(x, args)))
            if n in ("to_ascii_lowercase", "to_ascii_uppercase") and len(e[2]) == 1:
                x = e[2][0]
                while isinstance(x, tuple) and x and (x[0] == "ref" or (x[0] == "proj" and all(q == "*" for q in x[2]))):
                    x = x[1]
                v = self.ev(x, args)
                if n == "to_ascii_lowercase":
                    return v + 32 if 65 <= v <= 90 else v
                return v - 32 if 97 <= v <= 122 else v
            raise Shape("call to %s" % n)
        raise Shape("node `%s`" % show(e))

    def value(self, args):
        hit = None
        for atoms, res in self.paths:
            ok = True
            for e, p in atoms:
                e1 = strip_casts(e)
                v = self.ev(e, args)
                if isinstance(p, bool):
                    want = int(p)
                    good = (v == want)
                elif isinstance(p, tuple) and p[0] == "eq":
                    good = (v == p[1])
                elif isinstance(p, tuple) and p[0] == "in":
                    good = v in p[1]
                elif isinstance(p, tuple) and p[0] == "ne":
                    good = v not in p[1]
                else:
                    raise Shape("polarity %r" % (p,))
                if not good:
                    if e1[0] == "proj" and e1[2] == (1,):
                        raise Panic("arithmetic overflow `%s` for %s" % (show(e1), args))
                    if e1[0] == "bin" and e1[1] == "Eq" and strip_casts(e1[3]) == ("k", 0) and p is False and False:
                        pass
                    ok = False
                    break
            if ok:
                if hit is not None:
                    raise Shape("two paths match %s" % (args,))
                hit = res
        if hit is None:
            raise Shape("no path matches %s (a loop?)" % (args,))
        return self.ev(hit, args)


def model_value(f, args, ty="u32"):
    """Value of a loop-free pure function on concrete arguments, as plain Python data (tuples -> lists): the fallback
    for lookups that were rewritten as arithmetic (`split_radix`: trailing_zeros and a shift instead of a match)."""
    v = Model(f, ty).value(list(args))
    def plain(x):
        if isinstance(x, tuple) and x and x[0] == "enum":
            return [plain(y) for y in x[3]] if x[2] == "tuple" else (x[2], [plain(y) for y in x[3]])
        return x
    return plain(v)
