"""KEY-dispatch: which back-end serves which (mantissa radix, exponent base).

The dispatchers (WriteFloat::write_float, parse::moderate_path, parse::slow_path) choose a back-end with a few
comparisons on format.radix() / mantissa_radix() / exponent_base().  Every feasible path to a back-end call is
enumerated; its atoms over those getters are evaluated for every (radix, base) pair the feature set admits
(atoms about anything else are ignored, which can only enlarge the set of back-ends found) and the set of
back-ends reachable for the pair must be exactly the one the algorithm is written for:
  writer   radix 10 -> decimal (Dragonbox / Grisu), radix != base -> hex, 2^k -> binary, otherwise generic radix
  parser   radix 10 -> Eisel-Lemire (Bellerophon under compact), 2^k -> binary / slow_binary, otherwise
           Bellerophon / slow_radix
A power-of-two radix sent to the generic writer is no longer exact (it stops at half an ulp); a non-power-of-two
radix sent to the binary code is nonsense."""
from rules.core import enum_paths, strip_casts, last_seg, callee_name, show, simplify_proj, expr_calls

WF = "lexical_write_float::"
PF = "lexical_parse_float::"


class Unknown(Exception):
    pass


def ev(e, r, b):
    e = strip_casts(e)
    k = e[0]
    if k == "k" and isinstance(e[1], (int, bool)):
        return int(e[1])
    if k == "call":
        n = last_seg(e[1])
        if n in ("radix", "mantissa_radix"):
            return r
        if n == "exponent_base":
            return b
        if n == "is_power_of_two" and len(e[2]) == 1:
            v = ev(e[2][0], r, b)
            return int(v > 0 and v & (v - 1) == 0)
        raise Unknown()
    if k == "kc" and isinstance(e[2], int):
        return e[2]
    if k == "un" and e[1] == "Not":
        return int(not ev(e[2], r, b))
    if k == "bin":
        x, y = ev(e[2], r, b), ev(e[3], r, b)
        op = e[1]
        if op in ("Eq", "Ne", "Lt", "Le", "Gt", "Ge"):
            return int({"Eq": x == y, "Ne": x != y, "Lt": x < y, "Le": x <= y, "Gt": x > y, "Ge": x >= y}[op])
        if op in ("BitAnd", "BitOr"):
            return (x & y) if op == "BitAnd" else (x | y)
        if op in ("Add", "Sub", "Mul"):
            return {"Add": x + y, "Sub": x - y, "Mul": x * y}[op]
    raise Unknown()


FACTS = [None]
_HELPER_PATHS = {}


def _helper_can_return(g, want, r, b, depth=0):
    """Can the boolean helper `g` (same crate, loop-free) return `want` for this (radix, base)?  Its paths are
    enumerated once; a path counts if none of its atoms over the radix getters is false (atoms about anything else
    are ignored, as everywhere in this module) and its result evaluates to `want` (or cannot be evaluated)."""
    from rules.core import resolve_env
    if g.dp not in _HELPER_PATHS:
        rets = {i for i, bl in enumerate(g.blocks) if g.live(i) and bl["t"]["k"] == "return"}
        ps = []
        try:
            for t, atoms, env in enum_paths(g, 0, rets, want_env=True, resolve_atoms=True):
                rv = env.get(0)
                res = None if rv is None else (("k", rv[1]) if rv[0] == "const" else simplify_proj(resolve_env(rv[1], env)))
                ps.append((atoms, res))
        except Exception:
            ps = None
        _HELPER_PATHS[g.dp] = ps
    ps = _HELPER_PATHS[g.dp]
    if ps is None:
        return True
    for atoms, res in ps:
        if not all(holds(e, p, r, b, depth + 1) for e, p in atoms):
            continue
        if res is None:
            return True
        try:
            if bool(ev(res, r, b)) == want:
                return True
        except Unknown:
            return True
    return False


def holds(e, p, r, b, depth=0):
    e0 = strip_casts(simplify_proj(e))
    if isinstance(p, bool) and e0[0] == "call" and FACTS[0] is not None and depth < 3:
        gs = [g for g in FACTS[0].by_short.get(e0[1], []) if g.crate in ("lexical_parse_float", "lexical_write_float") and g.kind != "Closure"]
        if len(gs) == 1 and str(gs[0].mir.get("locals", ["?"])[0]) == "bool":
            return _helper_can_return(gs[0], p, r, b, depth)
    try:
        v = ev(simplify_proj(e), r, b)
    except Unknown:
        return True
    if isinstance(p, bool):
        return bool(v) == p
    if isinstance(p, tuple) and p[0] == "eq":
        return v == p[1]
    if isinstance(p, tuple) and p[0] == "in":
        return v in p[1]
    if isinstance(p, tuple) and p[0] == "ne":
        return v not in p[1]
    return True


def pairs(facts):
    mixed = [(4, 2), (8, 2), (16, 2), (32, 2), (16, 4)]
    if "radix" in facts.config:
        return [(r, r) for r in range(2, 37)] + mixed
    if "power-of-two" in facts.config:
        return [(r, r) for r in (2, 4, 8, 10, 16, 32)] + mixed
    return [(10, 10)]


def pow2(r):
    return r & (r - 1) == 0


def rule_dispatch_table(col, facts):
    R = "KEY-dispatch"
    compact = facts.config.startswith("compact")
    specs = [
        (WF + "write::WriteFloat::write_float",
         {"algorithm::write_float": "decimal", "compact::write_float": "decimal", "write::write_float_decimal": "decimal", "hex::write_float": "hex", "binary::write_float": "binary", "radix::write_float": "radix"},
         lambda r, b: "decimal" if r == 10 else ("hex" if r != b else ("binary" if pow2(r) else "radix")), True),
        (PF + "parse::moderate_path",
         {"lemire::lemire": "lemire", "bellerophon::bellerophon": "bellerophon", "binary::binary": "binary"},
         lambda r, b: ("bellerophon" if compact else "lemire") if r == 10 else ("binary" if pow2(r) else "bellerophon"), False),
        (PF + "parse::slow_path",
         {"slow::slow_radix": "slow_radix", "binary::slow_binary": "slow_binary"},
         lambda r, b: "slow_binary" if (pow2(r) and r != 10) else "slow_radix", False),
    ]
    n = 0
    for fname, names, want, uses_base in specs:
        f = facts.fn(fname)
        tg = {}
        for bb, c, a, d, t in f.calls():
            cn = callee_name(c)
            for suffix, label in names.items():
                if cn.endswith("::" + suffix):
                    tg[bb] = label
        if not tg:
            # the dispatch may have been extracted into a helper of the same crate (`write_finite(..)`): the unique
            # callee that holds the back-end calls is read in its place
            cands = []
            for _bb, c, _a, _d, _t in f.calls():
                for h in facts.by_short.get(callee_name(c), []):
                    if h.crate == f.crate and h.short != f.short and not h.impl_trait and any(callee_name(c2).endswith("::" + sfx) for _b2, c2, _a2, _d2, _t2 in h.calls() for sfx in names):
                        cands.append(h)
            if len({h.short for h in cands}) == 1:
                f = cands[0]
                for bb, c, a, d, t in f.calls():
                    cn = callee_name(c)
                    for suffix, label in names.items():
                        if cn.endswith("::" + suffix):
                            tg[bb] = label
        col.check(R, last_seg(fname) + ":backends", bool(tg), "no back-end call found", f.loc())
        if not tg:
            continue
        paths = enum_paths(f, 0, set(tg))
        bad = None
        for r, b in pairs(facts):
            got = set()
            for t, atoms in paths:
                if all(holds(e, p, r, b) for e, p in atoms):
                    got.add(tg[t])
            exp = want(r, b)
            n += 1
            if got != {exp} and bad is None:
                bad = (r, b, sorted(got), exp)
        col.check(R, "%s:table" % "::".join(fname.split("::")[-2:]), bad is None,
                  "for mantissa radix %s / exponent base %s the dispatcher reaches %s, expected exactly the %s back-end" % (bad if bad else (0, 0, 0, 0)), f.loc())
    col.floor(R, "(radix, base) x dispatcher entries", n, 3)


def admitted_mixed_pairs(facts, f, name):
    """The (radix, base) pairs with radix != base for which some path of entry point `f` reaches the back-end call
    parse::<name> (evaluated, helpers followed)."""
    FACTS[0] = facts
    _HELPER_PATHS.clear()
    tg = {bb for bb, c, a, d, t in f.calls() if callee_name(c) == PF + "parse::" + name}
    if len(tg) != 1:
        return set()
    paths = enum_paths(f, 0, tg)
    return {(r, b) for r in range(2, 37) for b in range(2, 37) if r != b and any(all(holds(e, p, r, b) for e, p in atoms) for t, atoms in paths)}


def rule_check_radix_table(col, facts):
    """KEY-radix-pairs: the parse entry points (ParseFloat::parse_complete / parse_partial / fast_path_*) let a
    format through to the back-ends only if its exponent base equals its mantissa radix, or the pair is one of the
    five the back-ends can scale between: (4,2) (8,2) (16,2) (32,2) (16,4) - the same set the writer asserts.
    Every path to the back-end call is evaluated for every (radix, base) in 2..36 x 2..36; the set of admitted
    pairs must be exactly that.  Another pair (8,4), (32,8)... reaches scaling code that assumes the exponent is
    a multiple of the base's bits: wrong values in release, a debug assertion otherwise."""
    if "power-of-two" not in facts.config and "radix" not in facts.config:
        return
    R = "KEY-radix-pairs"
    FACTS[0] = facts
    _HELPER_PATHS.clear()
    mixed = {(4, 2), (8, 2), (16, 2), (32, 2), (16, 4)}
    n = 0
    for name in ("parse_complete", "parse_partial", "fast_path_complete", "fast_path_partial"):
        f = facts.fn(PF + "parse::ParseFloat::" + name)
        tg = {bb for bb, c, a, d, t in f.calls() if callee_name(c) == PF + "parse::" + name}
        col.check(R, name + ":backend-call", len(tg) == 1, "expected one call of parse::%s, found %d" % (name, len(tg)), f.loc())
        if len(tg) != 1:
            continue
        paths = enum_paths(f, 0, tg)
        bad = None
        for r in range(2, 37):
            for b in range(2, 37):
                n += 1
                got = any(all(holds(e, p, r, b) for e, p in atoms) for t, atoms in paths)
                want = (r == b) or ((r, b) in mixed)
                if got != want and bad is None:
                    bad = (r, b, got)
        col.check(R, "ParseFloat::%s:admitted-pairs" % name, bad is None,
                  "mantissa radix %s with exponent base %s is %s by the radix check, but the back-ends %s it" % ((bad[0], bad[1], "admitted" if bad[2] else "rejected", "cannot scale" if bad[2] else "support") if bad else (0, 0, "", "")), f.loc())
    col.floor(R, "(radix, base) x entry point evaluations", n, 4 * 35 * 35)
