"""API-level rules (C17): delegation of `lexical` / `lexical-core` to the per-crate trait
implementations, the shape of to_string, and ASCII origin of every byte a writer stores."""
from rules.core import (op_expr, rvalue_expr, show, strip_casts, expr_calls, expr_consts, callee_name, last_seg,
                        path_conditions, AnchorMissing)

INT_TYPES = ["u8", "u16", "u32", "u64", "u128", "usize", "i8", "i16", "i32", "i64", "i128", "isize"]
FLOAT_TYPES = ["f32", "f64"]


def is_param(e, idx):
    """expression is parameter idx, possibly re-borrowed (`&*p`)"""
    e = strip_casts(e)
    while e[0] == "ref" or (e[0] == "proj" and e[2] == ("*",)):
        e = e[1]
        e = strip_casts(e)
    return e[:2] == ("arg", idx)


def forwarding_calls(f):
    return [(callee_name(c), c, [op_expr(f, a) for a in args], dest, bb) for bb, c, args, dest, _t in f.calls()]


def returns_call_result(f, dest):
    """_0 is assigned (directly or by the call) from the call's destination"""
    if dest[0] == 0 and not dest[1]:
        return True
    for b in f.blocks:
        for st in b["s"]:
            if st[0] == "=" and st[1] == [0, []]:
                e = rvalue_expr(f, st[2], 0)
                e = strip_casts(e)
                while e[0] in ("ref",) or (e[0] == "proj" and e[2] == ("*",)):
                    e = strip_casts(e[1])
                if e[0] == "call" and e[3] == dest[0]:
                    return True
    return False


def rule_delegation(col, facts):
    """DLG: lexical::parse* and lexical_core::{parse*, write*} are single forwarding calls to the same
    trait methods; lexical_core's impls forward to the crate of the right kind, same method name."""
    R = "DLG"
    # lexical_core free functions
    table = [
        ("lexical_core::write", "lexical_core::ToLexical::to_lexical", 2),
        ("lexical_core::write_with_options", "lexical_core::ToLexicalWithOptions::to_lexical_with_options", 3),
        ("lexical_core::parse", "lexical_core::FromLexical::from_lexical", 1),
        ("lexical_core::parse_partial", "lexical_core::FromLexical::from_lexical_partial", 1),
        ("lexical_core::parse_with_options", "lexical_core::FromLexicalWithOptions::from_lexical_with_options", 2),
        ("lexical_core::parse_partial_with_options", "lexical_core::FromLexicalWithOptions::from_lexical_partial_with_options", 2),
    ]
    for fn_name, target, nargs in table:
        f = facts.fn(fn_name)
        calls = forwarding_calls(f)
        ok = len(calls) == 1 and calls[0][0] == target and len(calls[0][2]) == nargs and \
            all(is_param(a, i + 1) for i, a in enumerate(calls[0][2])) and returns_call_result(f, calls[0][3])
        col.check(R, fn_name, ok, "%s is not a single forwarding call to %s with its own parameters in order (calls: %s)" %
                  (fn_name, target, [(c[0], [show(a) for a in c[2]]) for c in calls]), f.loc())
    # lexical free parse functions: as_ref then the same trait method
    for nm, target, nargs in [("parse", "lexical_core::FromLexical::from_lexical", 1), ("parse_partial", "lexical_core::FromLexical::from_lexical_partial", 1),
                              ("parse_with_options", "lexical_core::FromLexicalWithOptions::from_lexical_with_options", 2),
                              ("parse_partial_with_options", "lexical_core::FromLexicalWithOptions::from_lexical_partial_with_options", 2)]:
        f = facts.fn("lexical::" + nm)
        calls = forwarding_calls(f)
        # (directly, or through the lexical_core free function of the same name, which the table above ties to it)
        ok = len(calls) == 2 and calls[0][0] == "core::convert::AsRef::as_ref" and is_param(calls[0][2][0], 1) and calls[1][0] in (target, "lexical_core::" + nm)
        if ok:
            a0 = strip_casts(calls[1][2][0])
            inner = [c for c in expr_calls(a0) if c[1] == "core::convert::AsRef::as_ref"]
            ok = bool(inner) and (nargs == 1 or is_param(calls[1][2][1], 2)) and returns_call_result(f, calls[1][3])
        col.check(R, "lexical::" + nm, ok, "lexical::%s is not `N::%s(bytes.as_ref(), ..)` (calls: %s)" % (nm, last_seg(target), [(c[0], [show(a) for a in c[2]]) for c in calls]), f.loc())
    # lexical_core trait impls
    n = 0
    kinds = [(t, "integer") for t in INT_TYPES] + [(t, "float") for t in FLOAT_TYPES]
    for ty, kind in kinds:
        for trait, methods, crate in (("FromLexical", ["from_lexical", "from_lexical_partial"], "lexical_parse_" + kind),
                                      ("FromLexicalWithOptions", ["from_lexical_with_options", "from_lexical_partial_with_options"], "lexical_parse_" + kind),
                                      ("ToLexical", ["to_lexical"], "lexical_write_" + kind),
                                      ("ToLexicalWithOptions", ["to_lexical_with_options"], "lexical_write_" + kind)):
            for m in methods:
                name = "<%s as lexical_core::%s>::%s" % (ty, trait, m)
                f = facts.fn(name)
                calls = forwarding_calls(f)
                n += 1
                want = "%s::api::%s::%s" % (crate, trait, m)
                ok = len(calls) == 1 and calls[0][0] == want and calls[0][1].get("targs", [None])[0] == ty and \
                    all(is_param(a, i + 1) for i, a in enumerate(calls[0][2])) and returns_call_result(f, calls[0][3])
                col.check(R, name, ok, "does not forward to <%s as %s> with its own parameters (calls: %s)" %
                          (ty, want, [(c[0], c[1].get("targs"), [show(a) for a in c[2]]) for c in calls]), f.loc())
    col.floor(R, "lexical_core trait impl methods", n, 14 * 6)


def rule_to_string(col, facts):
    """to_string / to_string_with_options: buffer sized by the documented bound, written by
    lexical_core::write*, truncated to exactly the written length, converted without further edits."""
    R = "DLG-to_string"
    for nm, writer, size_pred in (
        ("to_string", "lexical_core::write",
         lambda e: e[0] == "kc" and e[1].endswith("FormattedSize::FORMATTED_SIZE_DECIMAL")),
        ("to_string_with_options", "lexical_core::write_with_options",
         lambda e: e[0] == "call" and e[1].endswith("WriteOptions::buffer_size"))):
        f = facts.fn("lexical::" + nm)
        calls = forwarding_calls(f)
        # the trait method the lexical_core free function forwards to (DLG) is the same writer
        trait_writer = {"lexical_core::write": "lexical_core::ToLexical::to_lexical", "lexical_core::write_with_options": "lexical_core::ToLexicalWithOptions::to_lexical_with_options"}[writer]
        if not any(c[0] == writer for c in calls) and any(c[0] == trait_writer for c in calls):
            writer = trait_writer
        # a private helper of the facade that only shortens the vector to the length it is handed and converts it:
        # its calls are read in place of the call to it
        helper_tail = None
        for c in list(calls):
            hs = [h for h in facts.by_short.get(c[0], []) if h.crate == "lexical" and h.kind != "Closure"]
            if len(hs) == 1:
                hc = forwarding_calls(hs[0])
                hn = [x[0] for x in hc]
                if set(hn) <= {"alloc::vec::Vec::truncate", "alloc::vec::Vec::set_len", "alloc::string::String::from_utf8_unchecked"} and "alloc::string::String::from_utf8_unchecked" in hn:
                    cut = [x for x in hc if x[0] in ("alloc::vec::Vec::truncate", "alloc::vec::Vec::set_len")]
                    if len(cut) == 1 and is_param(cut[0][2][1], 2) and len(c[2]) == 2:
                        helper_tail = strip_casts(c[2][1])            # the length the caller hands in
                        calls = [x for x in calls if x is not c]
        names = [c[0] for c in calls]
        allowed = {"alloc::vec::from_elem", "alloc::vec::Vec::as_mut_slice", writer, "core::slice::len", "alloc::vec::Vec::set_len",
                   "alloc::string::String::from_utf8_unchecked", "lexical_util::options::WriteOptions::buffer_size",
                   "core::ops::deref::DerefMut::deref_mut"}
        col.check(R, nm + ":calls", set(names) <= allowed and names.count(writer) == 1,
                  "unexpected calls %s (anything else could touch the bytes between write and the String)" % sorted(set(names) - allowed), f.loc())
        by = {c[0]: c for c in calls}
        if "alloc::vec::from_elem" in by:
            a = by["alloc::vec::from_elem"][2]
            col.check(R, nm + ":buffer-size", a[0] == ("k", 0) and size_pred(strip_casts(a[1])),
                      "buffer is `vec![%s; %s]`, expected the documented size" % (show(a[0]), show(a[1])), f.loc())
        else:
            col.bad(R, nm + ":buffer-size", "no vec![0; size] allocation", f.loc())
        if helper_tail is not None and writer in by:
            a = helper_tail
            ok = a[0] == "call" and a[1] == "core::slice::len" and any(c[1] == writer for c in expr_calls(a))
            col.check(R, nm + ":set_len", ok, "the vector is cut to `%s`: expected `.len()` of the slice returned by %s" % (show(a), last_seg(writer)), f.loc())
            w = by[writer]
            col.check(R, nm + ":writes-own-buffer", is_param(w[2][0], 1) and any(c[1] in ("alloc::vec::Vec::as_mut_slice", "core::ops::deref::DerefMut::deref_mut") for c in expr_calls(w[2][1])),
                      "%s is not called on (n, the buffer)" % last_seg(writer), f.loc())
        elif "alloc::vec::Vec::set_len" in by and writer in by:
            a = strip_casts(by["alloc::vec::Vec::set_len"][2][1])
            ok = a[0] == "call" and a[1] == "core::slice::len" and any(c[1] == writer for c in expr_calls(a))
            col.check(R, nm + ":set_len", ok, "set_len(%s): expected `.len()` of the slice returned by %s" % (show(a), last_seg(writer)), f.loc())
            w = by[writer]
            col.check(R, nm + ":writes-own-buffer", is_param(w[2][0], 1) and any(c[1] == "alloc::vec::Vec::as_mut_slice" for c in expr_calls(w[2][1])),
                      "%s is not called on (n, buf.as_mut_slice())" % last_seg(writer), f.loc())
        else:
            col.bad(R, nm + ":set_len", "set_len / writer call missing", f.loc())
        # no direct store into the buffer in this function
        stores = [st for b in f.blocks for st in b["s"] if st[0] == "=" and st[1][1] and any(isinstance(p, (list, tuple)) and p[0] in ("idx", "cidx") for p in st[1][1])]
        col.check(R, nm + ":no-stores", not stores, "to_string writes bytes itself", f.loc())


# ---------------------------------------------------------------------------------------------
WRITER_CRATES = ("lexical_write_float", "lexical_write_integer")
ASCII_CALLS = ("lexical_util::digit::digit_to_char", "lexical_util::digit::digit_to_char_const")
OPTION_CALLS = ("options::Options::decimal_point", "options::Options::exponent")


def classify_source(f, e, facts, depth=0):
    """Why a stored byte is ASCII.  Returns (kind, detail) with kind in
    const / digit / table / option / buffer-copy / param / assumed / unknown."""
    e = strip_casts(e)
    if depth > 6:
        return ("unknown", show(e))
    if e[0] == "k":
        if isinstance(e[1], int) and 0 <= e[1] < 0x80:
            return ("const", e[1])
        return ("unknown", "constant %r" % (e[1],))
    if e[0] == "call":
        if e[1] in ASCII_CALLS:
            return ("digit", last_seg(e[1]))
        if e[1].endswith(OPTION_CALLS):
            return ("option", last_seg(e[1]))
        return ("unknown", "call " + e[1])
    if e[0] == "proj":
        # *table.get_unchecked(i) / buffer[i] / digits[i]
        base = strip_casts(e[1])
        if base[0] == "call" and base[1].endswith(("::get_unchecked", "::get_unchecked_mut", "::index", "::index_mut")):
            src = strip_casts(base[2][0])
            return classify_slice(f, src, facts, depth + 1)
        return classify_slice(f, base, facts, depth + 1)
    if e[0] == "var" and str(f.locals[e[1]]) == "u8":
        # a byte chosen in several arms (`let sign = if negative { b'-' } else { b'+' }`): ASCII if every
        # assignment is
        kinds = []
        for _bb, _j, rv, pr in f.defs().get(e[1], []):
            if pr:
                return ("unknown", show(e))
            if rv[0] == "call":
                kinds.append(classify_source(f, ("call", callee_name(rv[1]), ()), facts, depth + 1))
            else:
                kinds.append(classify_source(f, rvalue_expr(f, rv, 0), facts, depth + 1))
        if kinds and all(k[0] != "unknown" for k in kinds):
            return ("const" if all(k[0] == "const" for k in kinds) else kinds[0][0], [k[1] for k in kinds])
        return ("unknown", show(e))
    if e[0] == "arg":
        ty = f.locals[e[1]]
        if ty == "u8":
            return ("param", e[2])
        return ("unknown", "argument %s: %s" % (e[2], ty))
    if e[0] == "bin" and e[1] in ("Sub",) and strip_casts(e[3]) == ("k", 1):
        k, d = classify_source(f, e[2], facts, depth + 1)
        if k in ("buffer-copy",):
            return ("assumed", "buffer byte - 1 (Grisu round_digit: digit > '0' is a value-level fact)")
    return ("unknown", show(e))


def classify_slice(f, src, facts, depth):
    """A byte loaded from a slice: ASCII if the slice is a digit table, an output buffer (copy), or a
    `table` parameter fed only with digit tables."""
    src = strip_casts(src)
    while src[0] in ("ref",) or (src[0] == "proj" and src[2] == ("*",)):
        src = strip_casts(src[1])
    if src[0] == "kc" and "DIGIT_TO_BASE" in src[1]:
        return ("table", last_seg(src[1]))
    if src[0] == "kprom":
        return ("table", "promoted constant")
    if src[0] == "arg":
        ty = f.locals[src[1]]
        if "mut [u8" in ty:
            return ("buffer-copy", src[2])
        if "[u8" in ty:
            return ("param-slice", src[2])
    if src[0] in ("var", "call", "proj"):
        return ("buffer-copy", show(src))
    return ("unknown", show(src))


def rule_ascii_origin(col, facts):
    """ORG-ascii: every byte stored into an output buffer by the writer crates comes from an ASCII
    source: a constant < 0x80, digit_to_char*, a digit table, Options::{decimal_point, exponent},
    a u8/&[u8] parameter whose call sites pass such sources, or a copy within a buffer."""
    R = "ORG-ascii"
    n = 0
    param_uses = []      # (fn, param local) whose callers must be checked
    for f in facts.all_fns():
        if f.crate not in WRITER_CRATES:
            continue
        for i, b in enumerate(f.blocks):
            if not f.live(i):
                continue
            for st in b["s"]:
                if st[0] != "=":
                    continue
                l, proj = st[1]
                if not proj:
                    continue
                last = proj[-1]
                is_elem = (isinstance(last, (list, tuple)) and last[0] in ("idx", "cidx")) or last == "*"
                ty = f.locals[l]
                if not is_elem or not ("[u8" in ty or ty.endswith("mut u8")):
                    continue
                e = rvalue_expr(f, st[2], 0)
                kind, detail = classify_source(f, e, facts)
                n += 1
                key = "%s:%s" % (f.short if f.kind != "Closure" else f.closure_of, show(strip_casts(e))[:50])
                if kind == "unknown":
                    col.bad(R, key, "byte stored into an output buffer has no recognised ASCII origin: %s" % detail, f.loc(st[3]))
                elif kind == "assumed":
                    col.assumed(R, key, detail, f.loc(st[3]))
                elif kind in ("param", "param-slice"):
                    col.ok(R, key, loc=f.loc(st[3]))
                    param_uses.append((f, detail))
                else:
                    col.ok(R, key, loc=f.loc(st[3]))
        for bb, c, args, _d, _t in f.calls():
            cn = callee_name(c)
            if cn.endswith("::fill") and c.get("krate") == "core":
                v = strip_casts(op_expr(f, args[1]))
                n += 1
                col.check(R, "%s:fill(%s)" % (f.short, show(v)), v[0] == "k" and isinstance(v[1], int) and v[1] < 0x80,
                          "slice::fill with a value that is not an ASCII constant", f.loc(f.blocks[bb]["ts"]))
    col.floor(R, "byte stores analysed (%s)" % facts.config, n, 25)
    # parameters carrying bytes/tables: every call site passes an ASCII source
    for f, pname in set((f.short, p) for f, p in param_uses):
        callee = facts.fn(f)
        idx = [l for l, nm in callee.names.items() if nm == pname and l <= callee.argc]
        if not idx:
            continue
        sites = 0
        for g in facts.all_fns():
            for bb, c, args, _d, _t in g.calls():
                if callee_name(c) == f and len(args) >= idx[0]:
                    sites += 1
                    e = strip_casts(op_expr(g, args[idx[0] - 1]))
                    kind, detail = classify_arg(g, e, facts)
                    col.check(R, "%s(%s=..)@%s" % (last_seg(f), pname, g.short), kind != "unknown",
                              "argument `%s` of %s is not a recognised ASCII source: %s" % (pname, f, detail), g.loc(g.blocks[bb]["ts"]))
        col.check(R, "%s(%s)-callers" % (last_seg(f), pname), sites >= 1, "no call site found for %s" % f, callee.loc())
    # special strings: copy_to_dst(dst, src) call sites in the writer
    for g in facts.all_fns():
        if g.crate != "lexical_write_float":
            continue
        for bb, c, args, _d, _t in g.calls():
            if callee_name(c) == "lexical_util::algorithm::copy_to_dst":
                e = strip_casts(op_expr(g, args[1]))
                kind, detail = classify_arg(g, e, facts)
                col.check(R, "copy_to_dst@%s" % g.short, kind != "unknown", "source of copy_to_dst is not a recognised ASCII source: %s" % detail, g.loc(g.blocks[bb]["ts"]))


def classify_arg(g, e, facts, depth=0):
    e = strip_casts(e)
    while e[0] == "ref" or (e[0] == "proj" and e[2] == ("*",)):
        e = strip_casts(e[1])
    if e[0] == "call":
        if e[1].endswith(("::get_table",)):
            return ("table", "get_table")
        if e[1].endswith(OPTION_CALLS) or e[1].endswith(("Options::nan_string", "Options::inf_string")):
            return ("option", last_seg(e[1]))
        if e[1].endswith(("Option::unwrap", "Option::expect", "unwrap_str")) and e[2]:
            return classify_arg(g, e[2][0], facts, depth + 1)
    if e[0] == "kc" and "DIGIT_TO_BASE" in e[1]:
        return ("table", last_seg(e[1]))
    if e[0] == "arg":
        nm = e[2]
        ty = g.locals[e[1]]
        if "mut [u8" in ty:
            return ("buffer-copy", nm)
        if ty == "u8" or "[u8" in ty or "Option<&" in ty:
            return ("param", nm)
    if e[0] == "proj":
        return classify_arg(g, e[1], facts, depth)
    if e[0] == "var":
        # a local re-sliced buffer (`&digits[..n]`) is an output buffer already covered by the store rule
        return ("buffer-copy", show(e))
    if e[0] == "call" and e[1].endswith(("::index", "::index_mut", "::get_unchecked", "::get_unchecked_mut")):
        return classify_arg(g, e[2][0], facts, depth)
    return ("unknown", show(e))
