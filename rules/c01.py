"""C01 — decimal string->float correctly rounded: tables, limits, pipeline shape (DESIGN §4)."""
from rules import tbl_parse_float as T
from rules import pipeline as P
from rules import extra as X
from rules.core import guarded, guarded_soft

INFO = {
    "explanation": "Static analysis of necessary structural conditions for correct rounding of decimal input: every embedded constant the rounding decision depends on is compared with its mathematical definition, and the shape of the three-tier pipeline is checked on the MIR of every feature configuration.",
    "not_decided": "the arithmetic of compute_float / bellerophon / digit_comp / round, hence correct rounding itself",
    "assumptions": ["rustc's const evaluator and MIR builder", "under `compact` the fast path's powf/powd(radix,k) is exact for k<=22 (libm, outside lexical)"],
}


def run(col, configs, tier):
    for name, facts in configs.items():
        col.set_config(name)
        dec = [10]
        guarded(col, T.rule_lemire, facts)
        guarded(col, T.rule_small_powers, facts, dec)
        guarded(col, T.rule_limits, facts, dec)
        guarded(col, T.rule_pow_callers, facts)
        guarded(col, T.rule_split_radix, facts, dec)
        guarded(col, T.rule_bellerophon, facts, dec)
        guarded(col, T.rule_invalid_fp_pairing, facts)
        guarded(col, P.rule_slow_fallback, facts)
        guarded(col, P.rule_lemire_truncation, facts)
        if facts.config.startswith('compact'):
            guarded(col, P.rule_error_units, facts)
        guarded(col, P.rule_same_base, facts)
        guarded(col, P.rule_zero_shortcircuit, facts)
        guarded_soft(col, X.rule_sticky_scans, facts)
        guarded_soft(col, X.rule_hi_truncation, facts)
        guarded_soft(col, X.rule_binary_factor, facts)
        guarded_soft(col, X.rule_reparse_skips_zeros, facts)
        if facts.config.startswith("compact"):
            guarded_soft(col, X.rule_exponent_narrowing, facts, ("bellerophon",))      # Bellerophon serves decimal under compact
        guarded_soft(col, X.rule_denormal_shift, facts, ("lemire",))
        guarded_soft(col, X.rule_rte_window, facts)
        guarded_soft(col, X.rule_lemire_precision_and_window, facts)
        guarded_soft(col, X.rule_disguised_fast_path_checked, facts)
        guarded_soft(col, X.rule_bellerophon_underflow_order, facts)
        guarded_soft(col, X.rule_error_accounting, facts)
