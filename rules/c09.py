"""C09 — writers honour the buffer bound, no out-of-slice access: memory-safety clause and size tables (DESIGN §4)."""
from rules import grd as G
from rules import fmt as F
from rules import tbl_write_integer as I
from rules import extra as X
from rules.core import (guarded, guarded_soft, callee_name, last_seg, path_conditions, op_expr, rvalue_expr, show, strip_casts, expr_calls,
                        expr_consts, fold, AnchorMissing)

INFO = {
    "explanation": "Every unsafe call in lexical-write-integer, lexical-write-float and lexical is classified (guard-dominated, forwarded inside an unsafe fn, named contract, or violation); in algorithm/algorithm_u128 the radix-range, table-length and `count <= buffer.len()` assertions plus the re-slice to `count` dominate every write_digits call, and inside write_digits the assertions dominate every unchecked access; WriteFloat::write_float asserts check_buffer and is_valid before any store or back-end; dragonbox_power's argument has the shape whose range TBL-range bounds; FORMATTED_SIZE constants cover the longest numeral; the notation break-point defaults hard-coded in the writers equal those used by buffer_size_const; check_buffer and to_string_with_options size through buffer_size_const.",
    "not_decided": "that the bound is sufficient (no panic with a bound-sized buffer): index arithmetic over (value, options); write_digits' reliance on digit_count being exact (assumed)",
    "assumptions": ["rustc's MIR builder and const evaluator", "x86_64: usize is 64-bit"],
}

WI = "lexical_write_integer::"
WF = "lexical_write_float::"
WRITER_CRATES = ("lexical_write_integer", "lexical_write_float", "lexical")

CONTRACTS = {
    ("jeaiii::from_u8", "slice::get_unchecked"): "DIGIT_TO_BASE10_SQUARED[r], r = 2*(two digits < 100) (value range; table checked by TBL-digits)",
    ("jeaiii::from_u16", "slice::get_unchecked"): "as from_u8",
    ("jeaiii::from_u32", "slice::get_unchecked"): "as from_u8",
    ("jeaiii::from_u64_impl", "slice::get_unchecked"): "as from_u8",
    ("jeaiii::from_u128", "slice::get_unchecked"): "as from_u8",
    ("algorithm::write_digits", "slice::get_unchecked"): "table[r], r < 2*radix^2: guarded by assert!(table.len() >= 2*radix^2) (MPT-assert) and r = 2*(value % radix^2)",
    ("algorithm::write_digits", "slice::get_unchecked_mut"): "buffer[index], index counts down from count = digit_count(value): relies on digit_count being exact (assumed) under assert!(count <= buffer.len())",
    ("algorithm::write_step_digits", "slice::get_unchecked_mut"): "buffer[end..index] with end = start.saturating_sub(step) <= index <= count",
    ("algorithm::write_step_digits", "algorithm::write_digits"): "forwarded inside an unsafe fn",
    ("DragonboxFloat>::dragonbox_power", "slice::get_unchecked"): "index = k - SMALLEST_POW5 with k in the table range: TBL-range (C02) bounds k for every finite exponent; PAIR-dragonbox-arg checks the argument has that shape",
    ("lexical::to_string", "Vec::set_len"): "len is `.len()` of the slice lexical_core::write returned from this buffer (DLG-to_string, C17)",
    ("lexical::to_string", "String::from_utf8_unchecked"): "all writer output is ASCII (ORG-ascii, C17)",
    ("lexical::to_string_with_options", "Vec::set_len"): "as to_string",
    ("lexical::to_string_with_options", "String::from_utf8_unchecked"): "as to_string",
}
HANDLED = ("algorithm::write_digits", "algorithm::write_step_digits", "DragonboxFloat::dragonbox_power")


def _has(conds, pred):
    return any(pred(strip_casts(e), p) for _d, e, p in conds)


def _range_ends(args):
    """The `end` components of RangeTo / Range aggregates among call arguments."""
    out = []
    for a in args:
        a = strip_casts(a)
        if a[0] == "agg" and isinstance(a[1], tuple) and len(a[1]) > 1 and "Range" in str(a[1][1]) and a[2]:
            out.append(a[2][-1])
    return out


def rule_integer_asserts(col, facts):
    """MPT-assert: the assertions of algorithm/algorithm_u128 dominate every unsafe digit writer,
    which receives the buffer re-sliced to `count`."""
    if facts.config.startswith("compact") or ("power-of-two" not in facts.config and "radix" not in facts.config):
        return
    R = "MPT-assert"
    n = 0
    for name in ("algorithm::algorithm", "algorithm::algorithm_u128"):
        f = facts.fn(WI + name)
        # the promoted range must be 2..=36
        rng = None
        for pm in f.promoted:
            for b in pm["blocks"]:
                t = b["t"]
                if t["k"] == "call" and callee_name(t["f"]).endswith("RangeInclusive::new"):
                    rng = [a[1].get("v") for a in t["a"] if a[0] == "k"]
        # the two assertions may live in a helper that is called first (`check_radix_table(radix, table)`): a safe
        # function of this crate whose own body asserts the range and the table length on its parameters
        helpers = []
        for hb, hc, ha, _hd, _ht in f.calls():
            for h in facts.by_short.get(callee_name(hc), []):
                if h.crate != f.crate or h.short == f.short or h.unsafe:
                    continue
                hrng = None
                for pm in h.promoted:
                    for b in pm["blocks"]:
                        t = b["t"]
                        if t["k"] == "call" and callee_name(t["f"]).endswith("RangeInclusive::new"):
                            hrng = [a_[1].get("v") for a_ in t["a"] if a_[0] == "k"]
                has_contains = any(callee_name(c2).endswith("RangeInclusive::contains") for _b, c2, _a, _d, _t in h.calls())
                has_len = any(st[0] == "=" and st[2][0] == "bin" and st[2][1] in ("Ge", "Le") for b in h.blocks for st in b["s"])
                if has_contains and hrng is not None:
                    helpers.append((hb, [G.norm(G.root(strip_casts(op_expr(f, x)))) for x in ha], hrng, has_len))
        if rng is None and helpers:
            rng = helpers[0][2]
        col.check(R, last_seg(name) + ":radix-range", rng == [2, 36], "assert!((2..=36).contains(&radix)) uses range %s" % rng, f.loc())
        for bb, c, a, d, t in f.calls():
            cn = callee_name(c)
            if not cn.endswith(("algorithm::write_digits", "algorithm::write_step_digits")):
                continue
            n += 1
            conds = path_conditions(f, bb)
            key = "%s->%s#%d" % (last_seg(name), last_seg(cn), n)
            loc = f.loc(f.blocks[bb]["ts"])
            args = [strip_casts(op_expr(f, x)) for x in a]
            radix = args[1]
            table = G.root(args[2])
            ok_radix = _has(conds, lambda e, p: e[0] == "call" and e[1].endswith("RangeInclusive::contains") and p is True and any(G.norm(G.root(x)) == G.norm(radix) for x in e[2]))
            ok_table = _has(conds, lambda e, p: e[0] == "bin" and e[1] == "Ge" and p is True and strip_casts(e[2])[0] == "call" and strip_casts(e[2])[1].endswith("::len") and G.root(strip_casts(e[2])[2][0]) == table
                            and "Mul" in str(e[3]))
            for hb, hargs, _hr, has_len in helpers:
                if f.dominates(hb, bb) and hb != bb:
                    if G.norm(G.root(radix)) in hargs:
                        ok_radix = True
                    if has_len and G.norm(table) in hargs:
                        ok_table = True
            count = args[-1]
            ok_count = _has(conds, lambda e, p: e[0] == "bin" and e[1] == "Le" and p is True and G.norm(strip_casts(e[2])) == G.norm(count) and strip_casts(e[3])[0] == "call" and strip_casts(e[3])[1].endswith("::len"))
            is_dc = count[0] == "call" and count[1].endswith("DigitCount::digit_count")
            # buffer argument: `&mut buffer[..count]`
            buf = args[3]
            resliced = any(x[1].endswith("IndexMut::index_mut") for x in expr_calls(buf))
            if not resliced:
                # the assertion and the re-slice merged into one checked operation: `buffer.get_mut(..count)` matched
                # against None => panic, possibly in a helper `digits_mut(buffer, count)` - a safe slicing to `..count`
                # fails (panics / yields None) exactly when count > buffer.len()
                for x in expr_calls(buf):
                    if last_seg(x[1]) == "get_mut" and any(G.norm(strip_casts(y)) == G.norm(count) for c_ in [x] for y in _range_ends(x[2][1:])):
                        resliced = ok_count = True
                    for h in facts.by_short.get(x[1], []):
                        if h.crate == f.crate and len(x[2]) == 2 and G.norm(strip_casts(x[2][1])) == G.norm(count):
                            hb = [last_seg(callee_name(c2)) for _b, c2, _a, _d, _t in h.calls()]
                            if ("get_mut" in hb or "index_mut" in hb) and not any(c2.get("unsafe") for _b, c2, _a, _d, _t in h.calls()):
                                resliced = ok_count = True
            col.check(R, key + ":radix", ok_radix, "unchecked digit writer reached without assert!((2..=36).contains(&radix)) on the radix it is given", loc)
            col.check(R, key + ":table", ok_table, "unchecked digit writer reached without assert!(table.len() >= 2*radix^2) on the table it is given", loc)
            col.check(R, key + ":count", ok_count and is_dc, "unchecked digit writer reached without assert!(count <= buffer.len()) for count = value.digit_count(radix)", loc)
            col.check(R, key + ":reslice", resliced, "the buffer passed to the unchecked writer is not re-sliced to `..count`", loc)
    col.floor(R, "unchecked digit writer call sites", n, 5)
    # inside write_digits: every unchecked access is after both asserts
    wd = facts.fn(WI + "algorithm::write_digits")
    m = 0
    for bb, c, a, d, t in wd.calls():
        cn = callee_name(c)
        # (the unchecked stores themselves, or unsafe helpers of this crate that hold them: `put_pair`, `put_digit`)
        if cn.endswith(("slice::get_unchecked", "slice::get_unchecked_mut")) or (c.get("unsafe") and any(h.crate == wd.crate for h in facts.by_short.get(cn, []))):
            m += 1
            conds = path_conditions(wd, bb)
            ok1 = _has(conds, lambda e, p: e[0] == "call" and e[1].endswith("RangeInclusive::contains") and p is True)
            ok2 = _has(conds, lambda e, p: e[0] == "bin" and e[1] == "Ge" and p is True and "len" in str(e[2]))
            col.check(R, "write_digits:unchecked#%d" % m, ok1 and ok2, "unchecked access in write_digits not dominated by its radix/table assertions", wd.loc(wd.blocks[bb]["ts"]))
    col.floor(R, "unchecked accesses in write_digits", m, 8)


def rule_dragonbox_arg(col, facts):
    """PAIR-dragonbox-arg: dragonbox_power is called with -(floor_log10_pow2(e [- shorter]) - KAPPA) or
    -floor_log10_pow2_minus_log10_4_over_3(e), e = float.exponent(): exactly the k that TBL-range bounds."""
    if facts.config.startswith("compact"):
        return
    R = "PAIR-dragonbox-arg"
    n = 0
    for f in facts.all_fns():
        if f.crate != "lexical_write_float":
            continue
        for bb, c, a, d, t in f.calls():
            if callee_name(c).endswith("DragonboxFloat::dragonbox_power"):
                n += 1
                e = strip_casts(op_expr(f, a[0]))
                ok = False
                if e[0] == "un" and e[1] == "Neg":
                    inner = strip_casts(e[2])
                    if inner[0] == "call" and inner[1].endswith("floor_log10_pow2_minus_log10_4_over_3") and _is_exponent(inner[2][0]):
                        ok = True
                    if inner[0] == "bin" and inner[1] == "Sub":
                        l, r = strip_casts(inner[2]), strip_casts(inner[3])
                        if l[0] == "call" and l[1].endswith("::floor_log10_pow2") and r[0] == "kc" and last_seg(r[1]) == "KAPPA":
                            arg = strip_casts(l[2][0])
                            if _is_exponent(arg) or (arg[0] == "bin" and arg[1] == "Sub" and _is_exponent(arg[2])):
                                ok = True
                col.check(R, "%s" % f.short.replace(WF, ""), ok, "dragonbox_power(%s): not the k formula whose range TBL-range checks against the table" % show(e), f.loc(f.blocks[bb]["ts"]))
    col.floor(R, "dragonbox_power call sites", n, 4)
    for ty, lo in (("f32", "SMALLEST_F32_POW5"), ("f64", "SMALLEST_F64_POW5")):
        f = facts.fn("<%s as lexical_write_float::algorithm::DragonboxFloat>::dragonbox_power" % ty)
        ok = False
        for bb, c, a, d, t in f.calls():
            if callee_name(c).endswith("slice::get_unchecked"):
                idx = strip_casts(op_expr(f, a[1]))
                ok = idx[0] == "bin" and idx[1] == "Sub" and strip_casts(idx[2])[:2] == ("arg", 1) and strip_casts(idx[3])[0] == "kc" and last_seg(strip_casts(idx[3])[1]) == lo
        col.check(R, "%s::dragonbox_power-index" % ty, ok, "table index is not `exponent - %s`" % lo, f.loc())


def _is_exponent(e):
    e = strip_casts(e)
    return e[0] == "call" and e[1].endswith("Float::exponent")


def rule_defaults(col, facts):
    """PAIR-defaults: the notation break-point defaults in the writers equal those of buffer_size_const;
    check_buffer and WriteOptions::buffer_size go through buffer_size_const."""
    R = "PAIR-defaults"
    bs = facts.fn(WF + "options::Options::buffer_size_const")
    # defaults in buffer_size_const: constants assigned on the None edge of match on the two getters
    def defaults_in(f):
        out = {"negative_exponent_break": set(), "positive_exponent_break": set()}
        # map_or(default, ..)
        for bb, c, a, d, t in f.calls():
            if callee_name(c).endswith("Option::map_or"):
                recv = strip_casts(op_expr(f, a[0]))
                for g in out:
                    if any(x[1].endswith("Options::" + g) for x in expr_calls(recv)):
                        v = fold(f, a[1])
                        out[g].add(v)
        # match getter() { Some(v) => v.get(), None => K }
        for i, b in enumerate(f.blocks):
            for st in b["s"]:
                if st[0] == "=" and st[2][0] == "use" and st[2][1][0] == "k" and isinstance(st[2][1][1].get("v"), int) and not isinstance(st[2][1][1].get("v"), bool):
                    for _d, e, pol in path_conditions(f, i)[-1:]:
                        e = strip_casts(e)
                        if e[0] == "discr":
                            for g in out:
                                if any(x[1].endswith("Options::" + g) for x in expr_calls(e)) and G.pol_is_variant(pol, 0):
                                    out[g].add(st[2][1][1]["v"])
        return out
    base = defaults_in(bs)
    if not all(len(v) == 1 for v in base.values()):
        # the defaults may be read in a helper buffer_size_const delegates to (`zero_padding_bound()`)
        from rules.extra import _bsc_delegates
        for hn in _bsc_delegates(facts, bs):
            hb = defaults_in(facts.fn(hn))
            for g in base:
                base[g] |= hb[g]
    col.check(R, "buffer_size_const-defaults", all(len(v) == 1 for v in base.values()), "could not read the two defaults from buffer_size_const: %s" % base, bs.loc())
    n = 0
    for f in facts.all_fns():
        if f.crate != "lexical_write_float" or f.short == bs.short:
            continue
        dv = defaults_in(f)
        if not any(dv.values()):
            continue
        n += 1
        for g in dv:
            # (buffer_size_const only uses the magnitude of a break: it may keep `5` for the writers' `-5`)
            mag = lambda vs: {abs(v) for v in vs if isinstance(v, int)}
            col.check(R, "%s:%s" % (f.short.replace(WF, ""), g), dv[g] <= base[g] or not dv[g] or mag(dv[g]) <= mag(base[g]),
                      "default %s = %s here but buffer_size_const assumes %s: the documented bound no longer matches the notation choice" % (g, sorted(dv[g]), sorted(base[g])), f.loc())
    col.floor(R, "writers with notation defaults", n, 1)
    cb = facts.fn(WF + "write::check_buffer", required=False)
    if cb is None:
        # the helper was inlined: MPT-validate (fmt.buffer_checked) reads the comparison with buffer_size_const
        # in WriteFloat::write_float itself
        col.note("PAIR-defaults: no check_buffer helper - the in-place comparison is decided by MPT-validate")
        return
    calls = [callee_name(c) for _b, c, _a, _d, _t in cb.calls()]
    if calls != [WF + "options::Options::buffer_size_const"] and WF + "options::Options::buffer_size_const" in calls:
        # another spelling (`available.checked_sub(required).is_some()`): read the predicate as a decision table with
        # the bound fixed to K and evaluate it at K - 1, K, K + 1
        from rules.pathmodel import Model, Shape, Panic
        class _K:
            def value(self, args):
                return 100
        try:
            m_ = Model(cb, "usize", {WF + "options::Options::buffer_size_const": _K()})
            got = [bool(m_.value([n_, 0])) for n_ in (0, 99, 100, 101, 5000)]
            col.check(R, "check_buffer-compare", got == [False, False, True, True, True], "check_buffer(len) for a bound of 100 is %s at len = 0, 99, 100, 101, 5000 (expected len >= bound)" % got, cb.loc())
        except (Shape, Panic) as e_:
            col.assumed("not-applied", "PAIR-defaults:check_buffer", "check_buffer is neither `len >= buffer_size_const(..)` nor a loop-free predicate that can be evaluated (%s)" % e_, cb.loc())
        wb = [f for f in facts.all_fns() if f.short.endswith("WriteOptions>::buffer_size") and f.crate == "lexical_write_float"]
        for f in wb:
            calls2 = [callee_name(c) for _b, c, _a, _d, _t in f.calls()]
            col.check(R, "WriteOptions::buffer_size(float)", calls2 == [WF + "options::Options::buffer_size_const"], "WriteOptions::buffer_size for floats calls %s" % calls2, f.loc())
        return
    col.check(R, "check_buffer", calls == [WF + "options::Options::buffer_size_const"], "check_buffer sizes through %s" % calls, cb.loc())
    # len >= size
    ok = False
    for b in cb.blocks:
        for st in b["s"]:
            if st[0] == "=" and st[1] == [0, []]:
                e = strip_casts(rvalue_expr(cb, st[2], 0))
                ok = e[0] == "bin" and e[1] == "Ge" and strip_casts(e[2])[:2] == ("arg", 1) and any(x[1].endswith("buffer_size_const") for x in expr_calls(e[3]))
    col.check(R, "check_buffer-compare", ok, "check_buffer is not `len >= buffer_size_const(..)`", cb.loc())
    wb = [f for f in facts.all_fns() if f.short.endswith("WriteOptions>::buffer_size") and f.crate == "lexical_write_float"]
    for f in wb:
        calls = [callee_name(c) for _b, c, _a, _d, _t in f.calls()]
        col.check(R, "WriteOptions::buffer_size(float)", calls == [WF + "options::Options::buffer_size_const"], "WriteOptions::buffer_size for floats calls %s" % calls, f.loc())
    col.check(R, "WriteOptions::buffer_size(float)-present", bool(wb), "impl not found", "")
    name = "lexical_util::constants::BUFFER_SIZE"
    v = facts.const_value(name)
    f64s = facts.const_value("<f64 as lexical_util::constants::FormattedSize>::FORMATTED_SIZE")
    col.check(R, "BUFFER_SIZE", v == f64s, "BUFFER_SIZE=%d != f64::FORMATTED_SIZE=%d" % (v, f64s), facts.const_loc(name))


def run(col, configs, tier):
    for name, facts in configs.items():
        col.set_config(name)
        def inventory(col, facts):
            n = G.rule_unsafe_inventory(col, facts, WRITER_CRATES, HANDLED, CONTRACTS)
            col.floor("WHO-unsafe", "unsafe call sites inventoried (writers)", n, 4)
        guarded(col, inventory, facts)
        guarded(col, rule_integer_asserts, facts)
        guarded(col, rule_dragonbox_arg, facts)
        guarded(col, rule_defaults, facts)
        guarded(col, I.rule_sizes, facts)
        guarded_soft(col, X.rule_buffer_allowance, facts)
        guarded_soft(col, X.rule_exponent_allowance, facts)
        guarded_soft(col, X.rule_min_digits_allowance, facts)
        guarded_soft(col, X.rule_digit_window_allowance, facts)
        guarded_soft(col, X.rule_integer_sign_allowance, facts)
        guarded_soft(col, X.rule_debug_buffer_belief, facts)
        guarded_soft(col, X.rule_radix_digit_clamp, facts)
        guarded_soft(col, X.rule_u128_count_chunks, facts)
        guarded_soft(col, X.rule_naive_count_stages, facts)
        guarded_soft(col, X.rule_zero_exponent_normalised, facts)
        guarded_soft(col, X.rule_break_magnitude, facts)
        guarded_soft(col, X.rule_bound_sums_saturate, facts)
        guarded_soft(col, X.rule_radix_delta_positive, facts)
        guarded_soft(col, X.rule_integer_buffer_nondecimal, facts)
        guarded(col, F.rule_entry_validation, facts)
