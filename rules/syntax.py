"""Flag plumbing rules (C12, C08, C16): every syntax flag reaches the code that enforces it, under
its own name, with the documented error."""
from rules.core import (path_conditions, op_expr, show, strip_casts, expr_calls, expr_consts, callee_name,
                        last_seg, strip_generics, AnchorMissing, Fn)
from rules.fmt import BOOL_FLAGS, CHAR_FIELDS, FL, returns_of

GROUPS = ["REQUIRED_DIGITS", "INTERNAL_DIGIT_SEPARATOR", "LEADING_DIGIT_SEPARATOR", "TRAILING_DIGIT_SEPARATOR", "CONSECUTIVE_DIGIT_SEPARATOR"]
SYNTAX_FLAGS = BOOL_FLAGS[:18]


def nf_mod(facts):
    return "feature_format" if "format" in facts.config else "not_feature_format"


def rule_getters(col, facts):
    """PAIR-getter: NumberFormat::<F>::NAME is computed from flags::NAME only (format build) or is
    the STANDARD value (no format build); the method name() returns Self::NAME."""
    R = "PAIR-getter"
    mod = nf_mod(facts)
    nf = "lexical_util::%s::NumberFormat" % mod
    fmt = "format" in facts.config
    std = facts.const_value("lexical_util::format::STANDARD")
    n = 0
    for name in BOOL_FLAGS + GROUPS:
        cpath = "%s::<FORMAT>::%s" % (nf, name)
        c = facts.consts.get(cpath)
        if c is None:
            col.bad(R, "const:" + name, "associated const %s missing" % cpath, "")
            continue
        cf = facts.const_fn(cpath)
        flagv = facts.const_value(FL + name)
        # value expression of _0
        exprs = []
        for b in cf.blocks:
            for st in b["s"]:
                if st[0] == "=" and st[1] == [0, []]:
                    from rules.core import rvalue_expr
                    exprs.append(rvalue_expr(cf, st[2], 0))
        n += 1
        if fmt:
            ok = len(exprs) == 1 and exprs[0][0] == "bin" and exprs[0][1] == "Ne" and [last_seg(k[1]) for k in expr_consts(exprs[0])] == [name] \
                and any(x == ("kparam", "FORMAT") for x in walk(exprs[0]))
            col.check(R, "const:" + name, ok, "NumberFormat::%s is computed as `%s` (expected `FORMAT & flags::%s != 0`)" % (name, show(exprs[0]) if exprs else "?", name), cf.loc())
        else:
            want = (std & flagv) != 0
            ok = len(exprs) == 1 and exprs[0] == ("k", want)
            col.check("CFG-standard", "const:" + name, ok,
                      "without `format`, NumberFormat::%s is hard-coded to %s but STANDARD has it %s" % (name, show(exprs[0]) if exprs else "?", want), cf.loc())
        g = facts.by_short.get("%s::%s" % (nf, name.lower()))
        if not g:
            col.bad(R, "getter:" + name.lower(), "method missing", "")
            continue
        f = g[0]
        rets = []
        for b in f.blocks:
            for st in b["s"]:
                if st[0] == "=" and st[1] == [0, []] and st[2][0] == "use":
                    rets.append(op_expr(f, st[2][1]))
        ok = len(rets) == 1 and rets[0][0] == "kc" and rets[0][1] == "%s::%s" % (nf, name)
        col.check(R, "getter:" + name.lower(), ok, "%s() returns `%s` (expected Self::%s)" % (name.lower(), show(rets[0]) if rets else "?", name), f.loc())
    col.floor(R if fmt else "CFG-standard", "NumberFormat flag consts", n, 36)
    # character / radix consts delegate to the same-named extractor
    for name in CHAR_FIELDS:
        cpath = "%s::<FORMAT>::%s" % (nf, name)
        if cpath not in facts.consts:
            col.bad(R, "const:" + name, "missing", "")
            continue
        cf = facts.const_fn(cpath)
        calls = [callee_name(c) for _b, c, _a, _d, _t in cf.calls()]
        lit = None
        for b in cf.blocks:
            for st in b["s"]:
                if st[0] == "=" and st[1] == [0, []] and st[2][0] == "use" and st[2][1][0] == "k":
                    lit = st[2][1][1].get("v")
        if calls:
            col.check(R, "const:" + name, calls == [FL + name.lower()], "NumberFormat::%s is computed by %s (expected flags::%s(FORMAT))" % (name, calls, name.lower()), cf.loc())
        else:
            shift = facts.const_value(FL + name + "_SHIFT")
            want = (std >> shift) & 0xFF
            col.check("CFG-standard", "const:" + name, lit == want, "hard-coded %s, STANDARD has %d" % (lit, want), cf.loc())


def walk(e):
    if isinstance(e, tuple):
        yield e
        for x in e:
            if isinstance(x, tuple):
                for y in walk(x):
                    yield y


# ---------------------------------------------------------------------------------------------
def flag_of_atom(e):
    """If the boolean expression is a read of one syntax flag (getter call or associated const),
    return its upper-case name."""
    e = strip_casts(e)
    if e[0] == "call" and "NumberFormat::" in e[1]:
        n = last_seg(e[1]).upper()
        return n
    if e[0] == "kc" and "NumberFormat::" in e[1]:
        return last_seg(e[1])
    return None


def conditions_with_flags(f, bb):
    out = []
    for _d, e, pol in path_conditions(f, bb):
        for sub in conj_parts(e):
            fl = flag_of_atom(sub)
            if fl:
                out.append((fl, pol))
    return out


def conj_parts(e):
    """`a & b` of booleans (from `&&` lowered to BitAnd on bools is rare; usually nested switches)"""
    e = strip_casts(e)
    if e[0] == "bin" and e[1] == "BitAnd":
        return conj_parts(e[2]) + conj_parts(e[3])
    return [e]


ERR = "lexical_util::error::Error"

# (function suffix, error variant, flag that must be on the path with polarity True), per crate
FLOAT_ERRORS = [
    ("parse::parse_number", "EmptyInteger", "REQUIRED_INTEGER_DIGITS", True),
    ("parse::parse_number", "EmptyFraction", "REQUIRED_FRACTION_DIGITS", True),
    ("parse::parse_number", "InvalidLeadingZeros", "NO_FLOAT_LEADING_ZEROS", True),
    ("parse::parse_number", "InvalidExponent", "NO_EXPONENT_NOTATION", True),
    ("parse::parse_number", "ExponentWithoutFraction", "NO_EXPONENT_WITHOUT_FRACTION", True),
    ("parse::parse_number", "MissingExponent", "REQUIRED_EXPONENT_NOTATION", True),
]
ALWAYS_ERRORS = [
    ("parse::parse_number", "EmptyMantissa", "REQUIRED_MANTISSA_DIGITS", True),
    ("parse::parse_number", "EmptyExponent", "REQUIRED_EXPONENT_DIGITS", True),
]
SIGN_ERRORS = [
    ("lexical_parse_float", "parse::parse_mantissa_sign", "InvalidPositiveSign", "NO_POSITIVE_MANTISSA_SIGN"),
    ("lexical_parse_float", "parse::parse_mantissa_sign", "MissingSign", "REQUIRED_MANTISSA_SIGN"),
    ("lexical_parse_float", "parse::parse_exponent_sign", "InvalidPositiveExponentSign", "NO_POSITIVE_EXPONENT_SIGN"),
    ("lexical_parse_float", "parse::parse_exponent_sign", "MissingExponentSign", "REQUIRED_EXPONENT_SIGN"),
    ("lexical_parse_integer", "algorithm::parse_sign", "InvalidPositiveSign", "NO_POSITIVE_MANTISSA_SIGN"),
    ("lexical_parse_integer", "algorithm::parse_sign", "MissingSign", "REQUIRED_MANTISSA_SIGN"),
]


def error_sites(f):
    """[(bb, variant, span)] for every construction of lexical_util::error::Error::<Variant>(..)"""
    out = []
    for i, b in enumerate(f.blocks):
        if not f.live(i):
            continue
        for st in b["s"]:
            if st[0] == "=" and st[2][0] == "agg" and st[2][1][0] == "adt" and st[2][1][1] == ERR:
                out.append((i, st[2][1][3], st[3]))
    return out


def rule_error_pairing(col, facts):
    """PAIR-error: an error documented for a syntax flag is constructed only on paths where that
    flag's getter was tested true, and it is constructed somewhere (the check was not dropped)."""
    R = "PAIR-error"
    fmt = "format" in facts.config
    table = list(ALWAYS_ERRORS) + (FLOAT_ERRORS if fmt else [])
    pn = facts.fn("lexical_parse_float::parse::parse_number")
    sites = error_sites(pn)
    for suffix, variant, flag, pol in table:
        mine = [(bb, sp) for bb, v, sp in sites if v == variant]
        col.check(R, "parse_number:%s-present" % variant, bool(mine), "Error::%s is never produced: the %s check is gone" % (variant, flag.lower()), pn.loc())
        for k, (bb, sp) in enumerate(mine):
            conds = conditions_with_flags(pn, bb)
            col.check(R, "parse_number:%s#%d" % (variant, k), (flag, pol) in conds,
                      "Error::%s is produced on a path where %s() was not tested true (flags on path: %s)" % (variant, flag.lower(), conds), pn.loc(sp))
    # the InvalidDigit alternative of the mantissa check is under the same flag
    for cr, suffix, variant, flag in SIGN_ERRORS:
        f = facts.fn(cr + "::" + suffix)
        mine = [(bb, sp) for bb, v, sp in error_sites(f) if v == variant]
        if not fmt:
            # without `format` the getters are constant false; the arms still exist in MIR
            pass
        col.check(R, "%s:%s-present" % (last_seg(suffix), variant), bool(mine), "Error::%s is never produced" % variant, f.loc())
        for k, (bb, sp) in enumerate(mine):
            conds = conditions_with_flags(f, bb)
            col.check(R, "%s:%s:%s#%d" % (cr, last_seg(suffix), variant, k), (flag, True) in conds,
                      "Error::%s is produced on a path where %s() was not tested true (flags on path: %s)" % (variant, flag.lower(), conds), f.loc(sp))
    # integer: '-' accepted only for signed types (PAIR-sign)
    f = facts.fn("lexical_parse_integer::algorithm::parse_sign")
    found = False
    for i, b in enumerate(f.blocks):
        for st in b["s"]:
            if st[0] == "=" and st[2][0] == "agg" and st[2][1][0] == "adt" and st[2][1][3] == "Ok" and st[2][2] and st[2][2][0][0] == "k" and st[2][2][0][1].get("v") is True:
                conds = path_conditions(f, i)
                has = any(strip_casts(e)[0] == "kc" and last_seg(strip_casts(e)[1]) == "IS_SIGNED" and pol is True for _d, e, pol in conds)
                minus = any(pol == ("eq", 45) for _d, e, pol in conds)
                found = True
                col.check("PAIR-sign", "parse_sign:Ok(true)", has and minus,
                          "Ok(true) (negative) is returned on a path without `T::IS_SIGNED` and byte == '-': %s" % [(show(e), p) for _d, e, p in conds], f.loc(st[3]))
    if not found:
        # (the negative result is not returned as the literal `Ok(true)`: e.g. `Ok(is_minus)` with
        #  `is_minus = IS_SIGNED && byte == b'-'` - this reader does not follow that; not decided)
        col.assumed("not-applied", "PAIR-sign:parse_sign", "no literal Ok(true) return in parse_sign: the sign result is computed in another shape, PAIR-sign not decided", f.loc())


def rule_flags_enforced(col, facts):
    """KEY-enforced: each of the 18 syntax flags is read (getter call or associated const) in the
    parser crate(s) it concerns."""
    if "format" not in facts.config:
        return
    R = "KEY-enforced"
    used = {"lexical_parse_float": set(), "lexical_parse_integer": set(), "lexical_write_float": set(), "lexical_write_integer": set()}
    for f in facts.all_fns():
        if f.crate not in used:
            continue
        for _b, c, _a, _d, _t in f.calls():
            cn = callee_name(c)
            if "NumberFormat::" in cn:
                used[f.crate].add(last_seg(cn).upper())
        for b in f.blocks:
            for st in b["s"]:
                if st[0] == "=":
                    scan_consts(st[2], used[f.crate])
            scan_consts(b["t"], used[f.crate])
    float_flags = [x for x in SYNTAX_FLAGS]
    int_flags = ["REQUIRED_INTEGER_DIGITS", "REQUIRED_MANTISSA_DIGITS", "NO_POSITIVE_MANTISSA_SIGN", "REQUIRED_MANTISSA_SIGN",
                 "NO_INTEGER_LEADING_ZEROS", "CASE_SENSITIVE_BASE_PREFIX", "CASE_SENSITIVE_BASE_SUFFIX"]
    for fl in float_flags:
        if fl == "NO_INTEGER_LEADING_ZEROS":
            continue
        col.check(R, "parse-float:" + fl, fl in used["lexical_parse_float"], "flag %s is never read by lexical-parse-float" % fl, "lexical-parse-float/src/parse.rs")
    for fl in int_flags:
        col.check(R, "parse-integer:" + fl, fl in used["lexical_parse_integer"], "flag %s is never read by lexical-parse-integer" % fl, "lexical-parse-integer/src/algorithm.rs")
    for fl in ["REQUIRED_MANTISSA_SIGN", "REQUIRED_EXPONENT_SIGN", "NO_EXPONENT_NOTATION", "REQUIRED_EXPONENT_NOTATION"]:
        col.check(R, "write-float:" + fl, fl in used["lexical_write_float"], "flag %s is never read by lexical-write-float" % fl, "lexical-write-float/src")
    col.check(R, "write-integer:REQUIRED_MANTISSA_SIGN", "REQUIRED_MANTISSA_SIGN" in used["lexical_write_integer"], "flag never read by lexical-write-integer", "lexical-write-integer/src/api.rs")


def scan_consts(x, out):
    if isinstance(x, list):
        if len(x) == 2 and x[0] == "k" and isinstance(x[1], dict):
            u = x[1].get("uneval", "")
            if "NumberFormat::" in u:
                out.add(last_seg(strip_generics(u)))
        else:
            for y in x:
                scan_consts(y, out)
    elif isinstance(x, dict):
        for y in x.values():
            scan_consts(y, out)
