"""C05 — non-decimal radix string->float: tables, key agreement, beliefs (DESIGN §4)."""
from rules import tbl_parse_float as T
from rules import pipeline as P
from rules import extra as X
from rules.core import guarded, guarded_soft

INFO = {
    "explanation": "Per radix 2..36 (under `radix`; the 2^k subset under `power-of-two`) every power table, Bellerophon table and limit is compared with its mathematical definition; every base that can reach Bigint::pow is shown to be factored into (odd, shift) and served by an explicit table row; beliefs stated only as debug_assert! over the format are checked against what the entry validation admits.",
    "not_decided": "rounding behaviour of binary / slow_binary / byte_comp / bellerophon arithmetic",
    "assumptions": ["rustc's const evaluator and MIR builder"],
}


def run(col, configs, tier):
    for name, facts in configs.items():
        if "power-of-two" not in name and "radix" not in name:
            continue
        col.set_config(name)
        nondec = [r for r in range(2, 37) if r != 10]
        guarded(col, T.rule_small_powers, facts, nondec)
        guarded(col, T.rule_limits, facts, nondec)
        guarded(col, T.rule_pow_callers, facts)
        guarded(col, T.rule_split_radix, facts, nondec)
        if "radix" in name:
            guarded(col, T.rule_bellerophon, facts, nondec)
            guarded(col, P.rule_error_units, facts)
        guarded(col, P.rule_same_base, facts)
        guarded(col, P.rule_slow_fallback, facts)
        guarded(col, P.rule_zero_shortcircuit, facts)
        guarded(col, P.rule_step_bounded_accumulation, facts)
        guarded_soft(col, X.rule_sticky_flag, facts)
        guarded_soft(col, X.rule_sticky_scans, facts)
        guarded_soft(col, X.rule_hi_truncation, facts)
        guarded_soft(col, X.rule_binary_factor, facts)
        guarded_soft(col, X.rule_mixed_base_scaling, facts)
        guarded_soft(col, X.rule_reparse_skips_zeros, facts)
        guarded_soft(col, X.rule_compare_equal_exhausted, facts)
        guarded_soft(col, X.rule_compare_decodes, facts)
        guarded_soft(col, X.rule_exponent_narrowing, facts)
        guarded_soft(col, X.rule_denormal_shift, facts)
        guarded_soft(col, X.rule_overflow_check_unconditional, facts)
        guarded_soft(col, X.rule_power_index_guards, facts)
        from rules import dispatch
        guarded(col, dispatch.rule_dispatch_table, facts)
        guarded(col, dispatch.rule_check_radix_table, facts)
        guarded_soft(col, X.rule_bigfloat_bits, facts)
        guarded_soft(col, X.rule_bellerophon_underflow_order, facts)
        guarded_soft(col, X.rule_quorem_correction, facts)
        guarded_soft(col, X.rule_error_accounting, facts)
