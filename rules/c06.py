"""C06 - power-of-two radix float output: the digit-alignment clauses (DESIGN §4).

Exactness of the output itself is a statement about runtime values; what *is* visible in the code is how the
53 / 24-bit significand is aligned to digit boundaries.  Decided here:
  TBL-align   the alignment helpers, as decision tables over their whole domain of use
              (exp in [-1200, 1200], bits per digit 1..5): fast_log2(r) = log2 r, calculate_shl(e, b) = e mod b
              (Euclidean), binary::scale_sci_exp(s, b) = floor(s / b), hex::scale_sci_exp(s, bd, bb) =
              floor(s / bd) * bd / bb, fast_ceildiv(v, b) = ceil(v / b), inverse_remainder
  PAIR-align  every writer uses them with the operands they are defined for: the shift is
              calculate_shl(exp, log2(mantissa_radix)) applied to the mantissa that is then written with the
              mantissa radix; the exponent written is scale_sci_exp(sci_exp, log2(mantissa_radix)[, log2(exponent_base)]);
              leading digits = sci_exp / bits + 1, leading zeros = ceil(-sci_exp / bits);
              sci_exp = float.exponent() + mantissa_bits - 1 (0 for a zero mantissa)
  MPT-exact   with default options nothing is dropped: truncate_and_round only changes the mantissa under
              `max_bits < mantissa_bits`, and max_bits saturates from usize::MAX when max_significant_digits is None
Not decided: that the digits written by the integer writer for the shifted mantissa, cut at the computed position,
denote the float (C03 decides the integer writer's tables)."""
from rules.core import (guarded, guarded_soft, callee_name, last_seg, op_expr, rvalue_expr, show, strip_casts, expr_calls, path_conditions)
from rules.pathmodel import Model, Shape, Panic

INFO = {
    "explanation": "The digit-alignment part of the power-of-two writers, from MIR: the helper functions fast_log2, calculate_shl, inverse_remainder, fast_ceildiv, binary::scale_sci_exp and hex::scale_sci_exp are turned into decision tables from their feasible paths and compared with their definitions (Euclidean modulus, floor / ceiling division) for every binary exponent in [-1200, 1200] and every bits-per-digit 1..5 (the hex variant for the five admitted (radix, base) pairs); every writer is shown to call them with the operands they are defined for (shift from the float's exponent and log2 of the mantissa radix, applied to the mantissa that is written in the mantissa radix; exponent scaled with log2 of the mantissa radix and, for hex floats, of the exponent base); the scientific exponent is exponent() + mantissa_bits - 1; with max_significant_digits unset the mantissa is not modified.",
    "not_decided": "that the written digits denote the float's value (exactness / round trip itself); subnormal handling inside Float::exponent / mantissa",
    "assumptions": ["rustc's MIR builder", "the decision-table reading of loop-free helpers (rules/pathmodel.py)"],
}

WF = "lexical_write_float::"
ERANGE = range(-1200, 1201)


def floordiv(a, b):
    return a // b


def rule_tables(col, facts):
    R = "TBL-align"
    def tab(name, fn_short, ty, callees, domain, spec, why):
        f = facts.fn(fn_short)
        try:
            def resolver(n, _seen=[]):
                # a helper the function delegates to (same crate): modelled the same way, fail closed otherwise
                if not n.startswith(WF) or n in _seen or not facts.has_fn(n):
                    return None
                _seen.append(n)
                return Model(facts.fn(n), ty, callees, resolver=resolver)
            m = Model(f, ty, callees, resolver=resolver)
            bad = None
            n = 0
            for args in domain:
                n += 1
                got = m.value(list(args))
                want = spec(*args)
                if got != want and bad is None:
                    bad = (args, got, want)
            col.check(R, name, bad is None, "%s%s = %s, expected %s (%s)" % ((name,) + (bad if bad else ((), 0, 0)) + (why,)), f.loc())
            col.floor(R, name + " entries", n, 5)
            return m
        except Shape as e:
            col.bad(R, name + "-shape", "no longer a loop-free arithmetic decision table (%s): cannot be tabulated (fail closed)" % e, f.loc())
        except Panic as e:
            col.bad(R, name + "-panic", "can panic inside its domain of use: %s" % e, f.loc())
        return None
    log2 = tab("fast_log2", WF + "binary::fast_log2", "i32", {}, [(r,) for r in (2, 4, 8, 16, 32)], lambda r: r.bit_length() - 1, "bits per digit of the radix")
    inv = tab("inverse_remainder", WF + "binary::inverse_remainder", "i32", {}, [(r, b) for b in range(1, 6) for r in range(0, b)], lambda r, b: (b - r) % b, "the modulus of -x from the remainder of x")
    ceil_ = tab("fast_ceildiv", WF + "binary::fast_ceildiv", "i32", {}, [(v, b) for b in range(1, 6) for v in range(0, 1201)], lambda v, b: -((-v) // b), "ceiling division")
    callees = {}
    if inv is not None:
        callees[WF + "binary::inverse_remainder"] = inv
    if ceil_ is not None:
        callees[WF + "binary::fast_ceildiv"] = ceil_
    tab("calculate_shl", WF + "binary::calculate_shl", "i32", callees, [(e, b) for b in range(1, 6) for e in ERANGE], lambda e, b: e % b,
        "the shift must put the lowest mantissa bit on a digit boundary: exp mod bits_per_digit, also for negative exponents")
    tab("binary::scale_sci_exp", WF + "binary::scale_sci_exp", "i32", callees, [(s, b) for b in range(1, 6) for s in ERANGE], lambda s, b: s // b,
        "the written exponent is floor(sci_exp / bits_per_digit)")
    tab("hex::scale_sci_exp", WF + "hex::scale_sci_exp", "i32", callees, [(s, bd, bb) for (bd, bb) in ((2, 1), (3, 1), (4, 1), (5, 1), (4, 2)) for s in ERANGE],
        lambda s, bd, bb: (s // bd) * bd // bb, "floor to a whole mantissa digit, then rescale to exponent-base units")


def _is_log2_of(e, getter):
    e = strip_casts(e)
    return e[0] == "call" and last_seg(e[1]) == "fast_log2" and any(last_seg(c[1]) == getter for c in expr_calls(e[2][0]))


def rule_operands(col, facts):
    R = "PAIR-align"
    writers = [("binary", "write_float_scientific"), ("binary", "write_float_negative_exponent"), ("binary", "write_float_positive_exponent"), ("hex", "write_float_scientific")]
    n = 0
    for mod, name in writers:
        f = facts.fn(WF + mod + "::" + name)
        argn = {v: k for k, v in f.names.items() if k <= f.argc}
        key = "%s::%s" % (mod, name)
        shl_ok = wm_ok = None
        for bb, c, a, d, t in f.calls():
            cn = last_seg(callee_name(c))
            if cn == "calculate_shl":
                e0, e1 = strip_casts(op_expr(f, a[0])), op_expr(f, a[1])
                n += 1
                col.check(R, key + ":shift-operands", e0[0] == "arg" and e0[2] == "exp" and _is_log2_of(e1, "mantissa_radix"),
                          "calculate_shl(%s, %s): the shift must come from the float's binary exponent and log2(mantissa_radix)" % (show(e0), show(e1)), f.loc(f.blocks[bb]["ts"]))
            if cn == "write_mantissa":
                e0 = strip_casts(op_expr(f, a[0]))
                ok = e0[0] == "call" and last_seg(e0[1]) == "shl" and strip_casts(e0[2][0])[0] == "arg" and strip_casts(e0[2][0])[2] == "mantissa" and \
                    strip_casts(e0[2][1])[0] == "call" and last_seg(strip_casts(e0[2][1])[1]) == "calculate_shl"
                n += 1
                col.check(R, key + ":digits-of-shifted-mantissa", ok, "the digits written are those of `%s`, not of `mantissa << calculate_shl(exp, bits_per_digit)`" % show(e0), f.loc(f.blocks[bb]["ts"]))
            if cn == "scale_sci_exp":
                es = [op_expr(f, x) for x in a]
                e0 = strip_casts(es[0])
                ok = e0[0] == "arg" and e0[2] == "sci_exp" and _is_log2_of(es[1], "mantissa_radix")
                if mod == "hex":
                    ok = ok and len(es) == 3 and _is_log2_of(es[2], "exponent_base") and callee_name(c).startswith(WF + "hex::")
                else:
                    ok = ok and len(es) == 2 and callee_name(c).startswith(WF + "binary::")
                n += 1
                col.check(R, key + ":exponent-operands", ok, "scale_sci_exp(%s): expected (sci_exp, log2(mantissa_radix)%s) of the %s module" % (", ".join(show(x) for x in es), ", log2(exponent_base)" if mod == "hex" else "", mod), f.loc(f.blocks[bb]["ts"]))
            if cn == "write_exponent":
                e2 = strip_casts(op_expr(f, a[2]))
                n += 1
                col.check(R, key + ":exponent-written", e2[0] == "call" and last_seg(e2[1]) == "scale_sci_exp", "the exponent written is `%s`, not scale_sci_exp(..)" % show(e2), f.loc(f.blocks[bb]["ts"]))
            if cn == "fast_ceildiv" and name == "write_float_negative_exponent":
                e0, e1 = strip_casts(op_expr(f, a[0])), op_expr(f, a[1])
                ok = e0[0] == "call" and last_seg(e0[1]) == "wrapping_neg" and strip_casts(e0[2][0])[0] == "arg" and strip_casts(e0[2][0])[2] == "sci_exp" and _is_log2_of(e1, "mantissa_radix")
                n += 1
                col.check(R, key + ":leading-zeros", ok, "the number of zero digits after the point is fast_ceildiv(%s, %s), expected ceil(-sci_exp / bits_per_digit)" % (show(e0), show(e1)), f.loc(f.blocks[bb]["ts"]))
        if name == "write_float_positive_exponent":
            found = False
            for l, nm in f.names.items():
                if nm == "leading_digits":
                    for bb, j, rv, pr in f.defs().get(l, []):
                        if rv[0] == "call":
                            continue
                        e = strip_casts(rvalue_expr(f, rv, 0))
                        ok = e[0] == "bin" and e[1] == "Add" and strip_casts(e[3]) == ("k", 1) and strip_casts(e[2])[0] == "bin" and strip_casts(e[2])[1] == "Div" and \
                            strip_casts(strip_casts(e[2])[2])[0] == "arg" and strip_casts(strip_casts(e[2])[2])[2] == "sci_exp" and _is_log2_of(strip_casts(e[2])[3], "mantissa_radix")
                        found = True
                        n += 1
                        col.check(R, key + ":leading-digits", ok, "digits before the point = `%s`, expected sci_exp / bits_per_digit + 1" % show(e), f.loc())
            col.check(R, key + ":leading-digits-anchor", found, "`leading_digits` not found", f.loc())
    # scientific exponent of the entries
    for mod in ("binary", "hex"):
        f = facts.fn(WF + mod + "::write_float")
        exprs = []
        for l, nm in f.names.items():
            if nm == "sci_exp":
                for bb, j, rv, pr in f.defs().get(l, []):
                    if rv[0] != "call":
                        exprs.append(strip_casts(rvalue_expr(f, rv, 0)))
        def is_formula(e):
            if not (e[0] == "bin" and e[1] == "Sub" and strip_casts(e[3]) == ("k", 1)):
                return False
            s = strip_casts(e[2])
            if not (s[0] == "bin" and s[1] == "Add"):
                return False
            x, y = strip_casts(s[2]), strip_casts(s[3])
            def is_exp(z):
                return z[0] == "call" and last_seg(z[1]) == "exponent"
            def is_bits(z):
                return z[0] == "proj" and z[2] == (1,) and strip_casts(z[1])[0] == "call" and last_seg(strip_casts(z[1])[1]) == "truncate_and_round"
            return (is_exp(x) and is_bits(y)) or (is_exp(y) and is_bits(x))
        n += 1
        col.check(R, mod + "::write_float:sci_exp", any(is_formula(e) for e in exprs) and all(is_formula(e) or e == ("k", 0) for e in exprs),
                  "sci_exp is %s, expected float.exponent() + mantissa_bits - 1 (and 0 for a zero mantissa)" % [show(e) for e in exprs], f.loc())
    col.floor(R, "operand obligations", n, 15)


def rule_default_exact(col, facts):
    R = "MPT-exact"
    f = facts.fn(WF + "binary::truncate_and_round")
    # returned mantissa local
    ret = None
    for i, b in enumerate(f.blocks):
        if f.live(i) and b["t"]["k"] == "return":
            for st in b["s"]:
                if st[0] == "=" and st[1] == [0, []] and st[2][0] == "agg" and len(st[2][2]) == 2:
                    from rules.core import copy_root
                    ret = copy_root(f, st[2][2][0])
    col.check(R, "anchor", ret is not None, "returned tuple not found", f.loc())
    if ret is None:
        return
    n = 0
    for bb, j, rv, pr in f.defs().get(ret, []):
        e = strip_casts(rvalue_expr(f, rv, 0)) if rv[0] != "call" else ("call",)
        if e[0] == "arg" and e[1] == 1:
            continue                          # `let mut shifted_mantissa = mantissa;`
        n += 1
        conds = path_conditions(f, bb)
        ok = any(strip_casts(c)[0] == "bin" and strip_casts(c)[1] == "Lt" and p is True and
                 any(last_seg(x[1]) == "saturating_mul" for x in expr_calls(strip_casts(c)[2])) for _d, c, p in conds)
        col.check(R, "truncate_and_round:modified-only-when-truncating#%d" % n, ok,
                  "the mantissa is modified outside `max_bits < mantissa_bits`: with default options (no max_significant_digits) digits could be dropped", f.loc(f.blocks[bb]["ts"]))
    # max_bits starts from usize::MAX
    init = False
    for l, ds in f.defs().items():
        for bb, j, rv, pr in ds:
            if rv[0] == "use" and rv[1][0] == "k" and rv[1][1].get("v") == (1 << 64) - 1:
                init = True
    col.check(R, "truncate_and_round:unbounded-by-default", init, "max_digits no longer defaults to usize::MAX", f.loc())
    # add_assign on the mantissa is a call through &mut: covered by MPT-truncate (C14); here: the shr/shl
    col.floor(R, "modifications of the returned mantissa", n, 1)


def run(col, configs, tier):
    for name, facts in configs.items():
        col.set_config(name)
        if not ("power-of-two" in name or "radix" in name):
            col.note("configuration %s does not compile the power-of-two writers" % name)
            continue
        guarded(col, rule_tables, facts)
        guarded(col, rule_operands, facts)
        guarded_soft(col, rule_default_exact, facts)
        from rules import tbl_write_integer as I6
        guarded(col, I6.rule_digit_tables, facts)
        from rules import c14, c08
        guarded_soft(col, c14.rule_binary_round, facts)
        guarded(col, c08.rule_mask_shift, facts)
        from rules import dispatch
        guarded(col, dispatch.rule_dispatch_table, facts)
