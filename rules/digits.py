"""TBL-digit: the byte -> digit decoders as decision tables.

char_to_valid_digit_const / char_to_digit_const / char_to_digit are loop-free pure functions of (byte, radix).
Every feasible path through their MIR is enumerated (core.enum_paths); a path is a conjunction of comparisons
of the byte / radix with constants plus a result built from the byte with +, -, wrapping_sub and bit masks, or a
constant.  Anything else (calls, table lookups, loops) is
outside the template and reported as a shape change (fail closed).  The decision table the paths denote is
then compared, for every byte and every radix 2..36, with the definition of a digit:
   '0'..'9' -> 0..9, 'A'..'Z' / 'a'..'z' -> 10..35, valid iff value < radix, anything else is not a digit.
For the unchecked decoder a non-digit must map to a value >= radix (that is what its callers test)."""
from rules.core import (enum_paths, resolve_env, strip_casts, last_seg, show, callee_name, AnchorMissing)

LU = "lexical_util::digit::"


class Shape(Exception):
    pass


class Panic(Exception):
    pass


def spec(c):
    if 48 <= c <= 57:
        return c - 48
    if 65 <= c <= 90:
        return c - 55
    if 97 <= c <= 122:
        return c - 87
    return None


def ev(e, c, r, callee=None):
    """Evaluate an expression of the template over concrete (byte, radix).  u8 arithmetic before the
    widening cast: checked ops raise Panic when they would overflow."""
    e0 = e
    if not isinstance(e, tuple):
        raise Shape("unexpected node %r" % (e,))
    k = e[0]
    if k == "arg":
        return c if e[1] == 1 else r
    if k == "k":
        if isinstance(e[1], bool):
            return int(e[1])
        if isinstance(e[1], int):
            return e[1]
        raise Shape("constant %r" % (e[1],))
    if k == "kc" and isinstance(e[2], int) and not isinstance(e[2], bool):
        return e[2]                              # a named constant (`const CASE_BIT: u8 = b'a' ^ b'A'`)
    if k == "un" and e[1] == "Not":
        v = ev(e[2], c, r, callee)
        return (~v) & 0xFF if not isinstance(strip_casts(e[2])[1] if strip_casts(e[2])[0] == "k" else 0, bool) else int(not v)
    if k == "cast":
        return ev(e[1], c, r, callee)
    if k == "ref":
        return ev(e[1], c, r, callee)
    if k == "proj" and e[2] and all(q == "*" for q in e[2]):
        return ev(e[1], c, r, callee)             # `*&x` (a match guard binds by reference)
    if k == "bin":
        op = e[1]
        a, b = ev(e[2], c, r, callee), ev(e[3], c, r, callee)
        if op == "Sub":
            if a - b < 0:
                raise Panic("`%s` underflows for byte %#x" % (show(e0), c))
            return a - b
        if op == "Add":
            if a + b > 255 and _is_u8(e):
                raise Panic("`%s` overflows for byte %#x" % (show(e0), c))
            return a + b
        if op in ("Lt", "Le", "Gt", "Ge", "Eq", "Ne"):
            return int({"Lt": a < b, "Le": a <= b, "Gt": a > b, "Ge": a >= b, "Eq": a == b, "Ne": a != b}[op])
        if op in ("BitOr", "BitAnd", "BitXor"):
            return {"BitOr": a | b, "BitAnd": a & b, "BitXor": a ^ b}[op]
        if op in ("Shl", "Shr") and 0 <= b < 8:
            return ((a << b) & 0xFF) if op == "Shl" else (a >> b)
        raise Shape("operator %s on the byte (`%s`) is outside the compare / arithmetic / bit-mask template" % (op, show(e0)))
    if k == "call":
        n = last_seg(e[1])
        if n == "wrapping_sub" and len(e[2]) == 2:
            return (ev(e[2][0], c, r, callee) - ev(e[2][1], c, r, callee)) % 256
        if callee is not None and e[1] == callee[0] and len(e[2]) == 2:
            return callee[1](ev(e[2][0], c, r, callee), ev(e[2][1], c, r, callee))
        raise Shape("call to %s" % n)
    if k == "proj" and e[2] == (1,) and e[1][0] == "bin":
        # overflow flag of a checked operation
        op = e[1][1]
        a, b = ev(e[1][2], c, r, callee), ev(e[1][3], c, r, callee)
        if op == "Sub":
            return int(a - b < 0)
        if op == "Add":
            return int(a + b > 255)
        raise Shape("overflow flag of %s" % op)
    raise Shape("node `%s`" % show(e0))


def _is_u8(e):
    return True


def model(f):
    """[(atoms, result)] with result = ("val", expr) | ("some", expr) | ("none",)."""
    rets = {i for i, b in enumerate(f.blocks) if f.live(i) and b["t"]["k"] == "return"}
    out = []
    for t, atoms, env in enum_paths(f, 0, rets, want_env=True, resolve_atoms=True):
        r = env.get(0)
        if r is None:
            raise AnchorMissing("%s: a return path without a result" % f.short)
        e = resolve_env(r[1], env) if r[0] == "expr" else ("k", r[1])
        e1 = strip_casts(e)
        if e1[0] == "agg" and isinstance(e1[1], tuple) and e1[1][0] == "adt" and "option::Option" in e1[1][1]:
            if e1[1][3] == "Some":
                out.append((atoms, ("some", e1[2][0])))
            else:
                out.append((atoms, ("none",)))
        else:
            out.append((atoms, ("val", e)))
    return out


def table(paths, callee=None):
    """Decision table {(c, r): result} of a path model; raises Shape / Panic."""
    tab = {}
    for r in range(2, 37):
        for c in range(256):
            hit = None
            for atoms, res in paths:
                ok = True
                for e, p in atoms:
                    v = ev(e, c, r, callee)
                    want = int(p) if isinstance(p, bool) else None
                    if want is None:
                        raise Shape("non-boolean switch on `%s`" % show(e))
                    if v != want:
                        if strip_casts(e)[0] == "proj":
                            raise Panic("arithmetic overflow `%s` for byte %#x radix %d" % (show(e), c, r))
                        ok = False
                        break
                if ok:
                    if hit is not None:
                        raise Shape("two paths taken for byte %#x radix %d" % (c, r))
                    hit = res
            if hit is None:
                raise Shape("no path taken for byte %#x radix %d" % (c, r))
            if hit[0] == "none":
                tab[(c, r)] = None
            else:
                tab[(c, r)] = (hit[0], ev(hit[1], c, r, callee))
    return tab


def rule_digit_decoders(col, facts):
    R = "TBL-digit"
    n = 0
    fv = facts.fn(LU + "char_to_valid_digit_const")
    unchecked = None
    try:
        tv = table(model(fv))
        bad = []
        for (c, r), res in tv.items():
            d = res[1]
            v = spec(c)
            if v is not None and v < r:
                if d != v:
                    bad.append((c, r, d, v))
            elif d < r:
                bad.append((c, r, d, None))
        n += len(tv)
        col.check(R, "char_to_valid_digit_const", not bad,
                  "byte %#x in radix %d decodes to %s, expected %s (%d of %d entries differ): a non-digit byte is accepted as a digit or a digit gets the wrong value" % ((bad[0][0], bad[0][1], bad[0][2], "a value >= radix (not a digit)" if bad[0][3] is None else bad[0][3], len(bad), len(tv)) if bad else (0, 0, 0, 0, 0, 0)), fv.loc())
        unchecked = (fv.short, lambda c, r: tv[(c, r)][1])
    except Shape as e:
        col.bad(R, "char_to_valid_digit_const-shape", "no longer a compare / add / subtract decision table over the byte (%s): cannot be tabulated (fail closed)" % e, fv.loc())
    except Panic as e:
        col.bad(R, "char_to_valid_digit_const-panic", "can panic: %s" % e, fv.loc())
    for name in ("char_to_digit_const", "char_to_digit"):
        f = facts.fn(LU + name, required=False)
        if f is None:
            continue
        try:
            t = table(model(f), unchecked)
            bad = []
            for (c, r), res in t.items():
                v = spec(c)
                want = v if (v is not None and v < r) else None
                got = None if res is None else res[1]
                if got != want:
                    bad.append((c, r, got, want))
            n += len(t)
            col.check(R, name, not bad,
                      "byte %#x in radix %d decodes to %s, expected %s (%d of %d entries differ)" % ((bad[0][0], bad[0][1], bad[0][2], bad[0][3], len(bad), len(t)) if bad else (0, 0, 0, 0, 0, 0)), f.loc())
        except Shape as e:
            col.bad(R, name + "-shape", "no longer a compare / add / subtract decision table over the byte (%s): cannot be tabulated (fail closed)" % e, f.loc())
        except Panic as e:
            col.bad(R, name + "-panic", "can panic: %s" % e, f.loc())
    # the predicates are `.is_some()` of the decoders
    for name, inner in (("char_is_digit_const", "char_to_digit_const"), ("char_is_digit", "char_to_digit")):
        f = facts.fn(LU + name, required=False)
        if f is None:
            continue
        calls = [last_seg(callee_name(c)) for _b, c, _a, _d, _t in f.calls()]
        col.check(R, name, calls == [inner, "is_some"], "is no longer `%s(c, radix).is_some()` (calls %s)" % (inner, calls), f.loc())
    col.floor(R, "(byte, radix) entries tabulated", n, 256 * 35 * 2)
