"""C04 — string->integer exact with exact overflow detection: constants and guards (DESIGN §4)."""
from rules import grd as G
from rules import digits as DG
from rules import syntax as S
from rules.core import (guarded, guarded_soft, callee_name, last_seg, path_conditions, op_expr, rvalue_expr, show, strip_casts, expr_calls,
                        expr_consts, fold, pol_is_variant, AnchorMissing)
from rules.syntax import error_sites

INFO = {
    "explanation": "Integer::overflow_digits is read as the decision table its paths denote (size_of, BITS, IS_SIGNED bound per type) and radix^digits - 1 <= T::MAX is proved for all 12 types x radix 2..36 (the wrapping prefix cannot wrap); is_4digits/is_8digits are tabulated per lane (every byte value in every lane, radix 2..10) against 0x30 <= b < 0x30 + radix; every multi-digit fast path is gated on contiguity and radix <= 10; Overflow is produced only from a failed checked_mul/checked_add on the non-negative branch and Underflow only from checked_mul/checked_sub on the negative branch; '-' yields a negative only for signed types; every iterator step is guard-dominated (shared with C10).",
    "not_decided": "error-kind / position precedence and value exactness over all strings",
    "assumptions": ["rustc's MIR builder", "x86_64: usize/isize are 64-bit"],
}

PI = "lexical_parse_integer::algorithm::"
TYPES = [("u8", 1, 0), ("u16", 2, 0), ("u32", 4, 0), ("u64", 8, 0), ("u128", 16, 0), ("usize", 8, 0),
         ("i8", 1, 1), ("i16", 2, 1), ("i32", 4, 1), ("i64", 8, 1), ("i128", 16, 1), ("isize", 8, 1)]


_SWAR_DONE = {}


class _ConstFn:
    """A callee that returns a constant (size_of::<Self>() for one concrete Self)."""
    def __init__(self, v):
        self.v = v

    def value(self, args):
        return self.v


def rule_overflow_digits(col, facts):
    """TBL-overflow: Integer::overflow_digits(radix), read as the decision table its paths denote for each of the
    12 integer types (size_of::<Self>(), Self::BITS and Self::IS_SIGNED bound to the type): radix^digits - 1 must
    fit the type, so that the wrapping (unchecked) prefix cannot wrap - whatever way the function is spelt."""
    from rules.pathmodel import Model, Shape, Panic
    R = "TBL-overflow"
    f = facts.fn("lexical_util::num::Integer::overflow_digits")
    for ty, size, signed in TYPES:
        tmax = (1 << (8 * size - signed)) - 1
        try:
            m = Model(f, "usize", {"core::mem::size_of": _ConstFn(size)}, consts={"BITS": 8 * size, "IS_SIGNED": signed})
            for r in range(2, 37):
                d = m.value([r])
                col.check(R, "%s:radix%d" % (ty, r), d >= 1 and r ** d - 1 <= tmax,
                          "overflow_digits(%d) = %d for %s: a %d-digit numeral can be %d^%d-1 > %s::MAX, so the wrapping (unchecked) prefix can wrap" % (r, d, ty, d, r, d, ty), f.loc())
        except Shape as e:
            col.assumed("not-applied", "TBL-overflow:overflow_digits", "overflow_digits is not a loop-free arithmetic decision table any more (%s): not decided" % e, f.loc())
            return
        except Panic as e:
            col.bad(R, "overflow_digits-panic", "can panic inside radix 2..36: %s" % e, f.loc())
            return


def rule_swar(col, facts):
    """TBL-swar: is_4digits / is_8digits answer, for radix <= 10, "every byte lane is a digit of the radix".  The
    functions are loop-free arithmetic on one word: they are evaluated (as the decision table their single path
    denotes) on every byte value in every lane, the other lanes held at the smallest and at the largest digit,
    for every radix 2..10 - 9 x lanes x 256 x 2 points - and compared with 0x30 <= b < 0x30 + radix.  parse_4digits /
    parse_8digits must normalise every lane by 0x30 (constant read off the subtraction)."""
    from rules.pathmodel import Model, Shape, Panic
    R = "TBL-swar"
    for name, lanes in (("is_4digits", 4), ("is_8digits", 8)):
        f = facts.fn(PI + name)
        ty = "u32" if lanes == 4 else "u64"
        bad = None
        n = 0
        # (the body is the same in every feature configuration: tabulated once per distinct body)
        import json as _json
        key = (name, hash(_json.dumps(f.blocks, sort_keys=True, default=str)))
        if key in _SWAR_DONE:
            bad, n = _SWAR_DONE[key]
            if bad == "shape":
                col.assumed("not-applied", "TBL-swar:" + name, "%s is not loop-free word arithmetic any more: not decided" % name, f.loc())
                continue
            col.check(R, name + ":lanes", bad is None,
                      "radix %d: byte %#x in lane %d is %s a digit (the other lanes hold digits): the multi-digit fast path accepts a non-digit or rejects a digit" % ((bad[0], bad[2], bad[1], "taken for" if bad[3] else "not taken for") if bad else (0, 0, 0, "")), f.loc())
            col.floor(R, name + " lane points", n, 1000)
            continue
        try:
            for r in range(2, 11):
                m = Model(f, ty, consts={"MANTISSA_RADIX": r})
                for other in (0x30, 0x30 + r - 1):
                    for lane in range(lanes):
                        for bv in (range(256) if other == 0x30 else (0, 0x2f, 0x30, 0x30 + r - 1, 0x30 + r, 0x39, 0x3a, 0x7f, 0x80, 0xb0, 0xff)):
                            v = sum((bv if i == lane else other) << (8 * i) for i in range(lanes))
                            got = m.value([v])
                            want = int(0x30 <= bv < 0x30 + r)
                            n += 1
                            if got != want and bad is None:
                                bad = (r, lane, bv, got)
            col.check(R, name + ":lanes", bad is None,
                      "radix %d: byte %#x in lane %d is %s a digit (the other lanes hold digits): the multi-digit fast path accepts a non-digit or rejects a digit" % ((bad[0], bad[2], bad[1], "taken for" if bad[3] else "not taken for") if bad else (0, 0, 0, "")), f.loc())
            col.floor(R, name + " lane points", n, 1000)
            _SWAR_DONE[key] = (bad, n)
        except Shape as e:
            _SWAR_DONE[key] = ("shape", 0)
            col.assumed("not-applied", "TBL-swar:" + name, "%s is not loop-free word arithmetic any more (%s): not decided" % (name, e), f.loc())
        except Panic as e:
            col.bad(R, name + "-panic", "an overflow check can fire for some word: %s" % e, f.loc())
    for name, lanes in (("parse_4digits", 4), ("parse_8digits", 8)):
        f = facts.fn(PI + name)
        rep = sum(0x30 << (8 * i) for i in range(lanes))
        subs = set()
        for b in f.blocks:
            for st in b["s"]:
                if st[0] == "=" and st[2][0] == "bin" and st[2][1].replace("WithOverflow", "") == "Sub":
                    subs.add(fold(f, st[2][3]))
        for bb, c, a, d, t in f.calls():
            if last_seg(callee_name(c)) == "wrapping_sub" and len(a) == 2:
                subs.add(fold(f, a[1]))
        col.check(R, name + ":normalise", rep in subs, "digits are not normalised by subtracting 0x30 from every lane (constants %s)" % [hex(x) for x in subs if x is not None], f.loc())
        # round 7 (seed C04-r7-1): the result is sum(d_i * r^(lanes-1-i)) for every radix 2..10 the format can name, so a
        # weight that is a *literal* (`* 100` for `* radix * radix`) is right for one radix only.  Decided structurally:
        # no multiplication in the function has an operand that folds to a literal >= 2.  If the function tests the radix
        # itself (a specialised arm per radix), a literal weight can be legitimate there: not applied.
        muls = []
        for b in f.blocks:
            for st in b["s"]:
                if st[0] == "=" and st[2][0] == "bin" and st[2][1].replace("WithOverflow", "").replace("Unchecked", "") == "Mul":
                    muls.append((st[2][2], st[2][3]))
        for bb, c, a, d, t_ in f.calls():
            if last_seg(callee_name(c)) in ("wrapping_mul", "overflowing_mul", "checked_mul", "saturating_mul") and len(a) == 2:
                muls.append((a[0], a[1]))
        tests_radix = False
        for b in f.blocks:
            for st in b["s"]:
                if st[0] == "=" and st[2][0] == "bin" and st[2][1] in ("Eq", "Ne"):
                    tests_radix = True
        lits = sorted({v for pair in muls for v in (fold(f, pair[0]), fold(f, pair[1])) if isinstance(v, int) and v >= 2})
        if tests_radix:
            col.assumed("not-applied", "TBL-swar:" + name + ":weights", "%s compares values for equality (a per-radix arm?): literal weights not decided" % name, f.loc())
        else:
            col.check(R, name + ":weights", not lits,
                      "a lane weight is the literal %s, not derived from the format's radix: the combined value is wrong for every other radix <= 10" % lits, f.loc())
            col.floor(R, name + " multiplications", len(muls), 2)


def rule_multidigit_gate(col, facts):
    """GRD-swar: try_parse_4digits/8digits only behind `IS_CONTIGUOUS && (no power-of-two || radix <= 10)`."""
    R = "GRD-swar"
    if facts.config.startswith("compact"):
        pass
    n = 0
    # the predicate itself
    preds = [f for f in facts.all_fns() if f.short.endswith("algorithm::can_try_parse_multidigits")]
    for g in preds:
        ok_c = ok_r = False
        trues = []
        for i, b in enumerate(g.blocks):
            if not g.live(i):
                continue
            for st in b["s"]:
                if st[0] == "=" and st[1] == [0, []]:
                    e = strip_casts(rvalue_expr(g, st[2], 0))
                    conds = path_conditions(g, i)
                    cont = any(strip_casts(x)[0] == "kc" and last_seg(strip_casts(x)[1]) == "IS_CONTIGUOUS" and p is True for _d, x, p in conds)
                    if e == ("k", True):
                        trues.append(cont and ("power-of-two" not in facts.config and "radix" not in facts.config))
                    elif e[0] == "bin" and e[1] == "Le" and strip_casts(e[3]) == ("k", 10) and any(c[1].endswith("mantissa_radix") for c in expr_calls(e)):
                        trues.append(cont)
                    elif e == ("k", False):
                        pass
                    else:
                        trues.append(False)
        col.check(R, "can_try_parse_multidigits", bool(trues) and all(trues), "the gate is no longer `Iter::IS_CONTIGUOUS && (cfg!(not power-of-two) || radix <= 10)`", g.loc())
    for f in facts.all_fns():
        if f.crate not in ("lexical_parse_integer", "lexical_parse_float"):
            continue
        for bb, c, a, d, t in f.calls():
            cn = callee_name(c)
            if not cn.endswith(("algorithm::try_parse_4digits", "algorithm::try_parse_8digits")):
                continue
            n += 1
            conds = path_conditions(f, bb)
            gated = False
            for _d, e, p in conds:
                e = strip_casts(e)
                if e[0] == "call" and e[1].endswith("can_try_parse_multidigits") and p is True:
                    gated = True
                if e[0] == "var" and p is True:
                    # `use_multi = can_multi && !no_multi_digit`
                    pass
            if not gated:
                # parse-float's macro inlines the test: IS_CONTIGUOUS true and radix <= 10 (or no power-of-two)
                cont = any((strip_casts(e)[0] == "kc" and last_seg(strip_casts(e)[1]) == "IS_CONTIGUOUS" and p is True) or
                           (strip_casts(e)[0] == "call" and strip_casts(e)[1].endswith("Iter::is_contiguous") and p is True) for _d, e, p in conds)
                rad = any(strip_casts(e)[0] == "bin" and strip_casts(e)[1] == "Le" and strip_casts(strip_casts(e)[3]) == ("k", 10) and p is True for _d, e, p in conds)
                gated = cont and (rad or ("power-of-two" not in facts.config and "radix" not in facts.config))
            if not gated:
                # through a flag local computed from the predicate
                for _d, e, p in conds:
                    e = strip_casts(e)
                    if e[0] == "var" and p is True:
                        ds = f.defs().get(e[1], [])
                        srcs = [strip_casts(rvalue_expr(f, rv, 0)) for _b, _j, rv, pr in ds if rv[0] != "call" and not pr]
                        calls = set()
                        for s2 in srcs:
                            for x in expr_calls(s2):
                                calls.add(last_seg(x[1]))
                        # all non-false definitions derive from the predicate
                        nonfalse = [s2 for s2 in srcs if s2 != ("k", False)]
                        if nonfalse and all(any(x[1].endswith("can_try_parse_multidigits") for x in expr_calls(s2)) or s2[0] == "un" for s2 in nonfalse):
                            # the definition block itself must be under the predicate's true edge
                            for b2, _j, rv, pr in ds:
                                if rv[0] != "call" and strip_casts(rvalue_expr(f, rv, 0)) != ("k", False):
                                    if any(strip_casts(x)[0] == "call" and strip_casts(x)[1].endswith("can_try_parse_multidigits") and pp is True for _dd, x, pp in path_conditions(f, b2)):
                                        gated = True
            base = f.short if f.kind != "Closure" else f.closure_of
            col.check(R, "%s->%s#%d" % (base, last_seg(cn), n), gated,
                      "multi-digit fast path reached without the contiguity / radix<=10 gate: %s" % [(show(e)[:60], p) for _d, e, p in conds][-4:], f.loc(f.blocks[bb]["ts"]))
    col.floor(R, "multi-digit call sites", n, 0 if facts.config.startswith("compact") and False else 4)


def rule_overflow_errors(col, facts):
    """PAIR-overflow: Overflow <- failed checked_mul/checked_add with is_negative false;
    Underflow <- failed checked_mul/checked_sub with is_negative true."""
    R = "PAIR-overflow"
    closures = {}
    for g in facts.all_fns():
        if g.kind == "Closure":
            closures.setdefault(g.closure_of, []).append(g)
    for name in ("algorithm_complete", "algorithm_partial"):
        f = facts.fn(PI + name)
        sites = [(bb, v, sp) for bb, v, sp in error_sites(f) if v in ("Overflow", "Underflow")]
        col.check(R, name + ":present", {v for _b, v, _s in sites} == {"Overflow", "Underflow"}, "Overflow/Underflow sites found: %s" % sorted({v for _b, v, _s in sites}), f.loc())
        for k, (bb, v, sp) in enumerate(sites):
            conds = path_conditions(f, bb)
            neg = None
            failed = None
            for _d, e, p in conds:
                if any(x[1].endswith("algorithm::parse_sign") for x in expr_calls(e)) and isinstance(p, bool) and strip_casts(e)[0] != "discr":
                    neg = p
                e2 = strip_casts(e)
                if e2[0] == "discr" and pol_is_variant(p, 0):
                    inner = strip_casts(e2[1])
                    if inner[0] == "call" and inner[1].endswith("Option::and_then"):
                        recv = strip_casts(inner[2][0])
                        clo = strip_casts(inner[2][1])
                        ops = set()
                        if recv[0] == "call":
                            ops.add(last_seg(recv[1]))
                        if clo[0] == "agg" and clo[1][0] == "closure":
                            for g in facts.by_short.get(clo[1][1], []) + [x for x in closures.get(f.short, []) if x.short == clo[1][1]]:
                                for _b2, c2, _a2, _d2, _t2 in g.calls():
                                    ops.add(last_seg(callee_name(c2)))
                        failed = ops
                    elif inner[0] == "call" and last_seg(inner[1]) in ("checked_mul", "checked_add", "checked_sub"):
                        failed = (failed or set()) | {last_seg(inner[1])}      # the same test with the two steps written apart
            # ... and only at a *digit*: "what a left-to-right scan meets first" - a byte that is not a digit ends the
            # scan as InvalidDigit (or, partial, as the end of the number) before any arithmetic on it can overflow
            isdigit = any(strip_casts(e)[0] == "discr" and pol_is_variant(p, 1) and any(last_seg(c[1]) in ("char_to_digit_const", "char_to_digit", "char_to_valid_digit_const") for c in expr_calls(e)) for _d, e, p in conds)
            col.check("ORD-overflow", "%s:%s#%d:at-a-digit" % (name, v, k), isdigit,
                      "Error::%s can be produced before the byte just read is known to be a digit: `<many digits>x` reports %s where a left-to-right scan meets an invalid digit (partial: the end of the number) first" % (v, v), f.loc(sp))
            want_ops = {"checked_mul", "checked_add"} if v == "Overflow" else {"checked_mul", "checked_sub"}
            wrong = "checked_sub" if v == "Overflow" else "checked_add"
            col.check(R, "%s:%s#%d" % (name, v, k), failed is not None and bool(want_ops & failed) and wrong not in failed and neg == (v == "Underflow"),
                      "Error::%s is produced when %s fails with is_negative=%s (expected %s with is_negative=%s)" % (v, sorted(failed) if failed else None, neg, sorted(want_ops), v == "Underflow"), f.loc(sp))


def rule_empty_after_sign(col, facts):
    """MPT-empty: `Error::Empty` for "no digit follows the optional sign" can only be produced by an emptiness
    test made *after* the sign was consumed: some Empty site guarded by is_buffer_empty() / current_count()==0
    must be dominated by the parse_sign call (a test before it sees the sign byte and lets "+" through)."""
    R = "MPT-empty"
    for n in ("algorithm_complete", "algorithm_partial"):
        f = facts.fn("lexical_parse_integer::algorithm::" + n)
        ps = [bb for bb, c, a, d, t in f.calls() if last_seg(callee_name(c)) == "parse_sign"]
        col.check(R, n + ":parse_sign", len(ps) == 1, "parse_sign is called %d times" % len(ps), f.loc())
        if len(ps) != 1:
            continue
        good = []
        for bb, v, sp in error_sites(f):
            if v != "Empty" or not f.dominates(ps[0], bb):
                continue
            for _d, e, p in path_conditions(f, bb):
                e = strip_casts(e)
                names = [last_seg(c[1]) for c in expr_calls(e)]
                if ("is_buffer_empty" in names or "current_count" in names) and p is True:
                    good.append(bb)
        col.check(R, n + ":empty-after-sign", bool(good),
                  "no Error::Empty site guarded by an emptiness test is dominated by parse_sign: an input consisting of a lone sign is not rejected as Empty", f.loc())


def run(col, configs, tier):
    for name, facts in configs.items():
        col.set_config(name)
        guarded(col, rule_overflow_digits, facts)
        guarded(col, rule_swar, facts)
        guarded(col, rule_multidigit_gate, facts)
        guarded(col, rule_overflow_errors, facts)
        guarded(col, S.rule_error_pairing, facts)
        def steps(col, facts):
            n = G.rule_iter_steps(col, facts, ("lexical_parse_integer",))
            col.floor("GRD-step", "integer parser step sites", n, 4)
        guarded(col, steps, facts)
        guarded(col, DG.rule_digit_decoders, facts)
        guarded(col, rule_empty_after_sign, facts)
        from rules import extra as X2
        guarded_soft(col, X2.rule_unchecked_window, facts)
        guarded_soft(col, X2.rule_take_n_window_size, facts)
        guarded_soft(col, X2.rule_sign_in_accumulation, facts)
        guarded_soft(col, X2.rule_suffix_step, facts)
        guarded_soft(col, X2.rule_sign_needs_digit, facts)
        from rules import sep as SEP4
        guarded(col, SEP4.rule_take_n_twins, facts)
