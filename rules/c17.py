"""C17 — `lexical` equals `lexical-core`, output is ASCII (DESIGN §4)."""
from rules import api as A
from rules import opts as O
from rules import extra as X
from rules.core import guarded, guarded_soft

INFO = {
    "explanation": "The four lexical::parse* functions, the six lexical_core free functions and all 84 lexical_core trait-impl methods are shown to be single forwarding calls (same trait method, own parameters in order, result returned) - which is equality for the parse side; to_string* size the buffer by the documented bound, call lexical_core::write* once on it, truncate to the returned length and do nothing else to the bytes; every byte store in the writer crates is traced to an ASCII origin; both float OptionsBuilders reject non-ASCII punctuation and non-letter special strings on every Ok path.",
    "not_decided": "that the buffer size suffices (C09); digit values being < radix at digit_to_char call sites",
    "assumptions": ["rustc's MIR builder", "Grisu round_digit's `digit - 1` stays a digit (value-level)"],
}


def run(col, configs, tier):
    for name, facts in configs.items():
        col.set_config(name)
        guarded(col, A.rule_delegation, facts)
        guarded(col, A.rule_to_string, facts)
        guarded(col, A.rule_ascii_origin, facts)
        guarded_soft(col, X.rule_byte_predicates, facts)
        # to_string_with_options sizes its buffer with buffer_size_const: the facade equals core only if that bound holds
        guarded_soft(col, X.rule_min_digits_allowance, facts)
        guarded_soft(col, X.rule_digit_window_allowance, facts)
        guarded_soft(col, X.rule_integer_sign_allowance, facts)
        guarded_soft(col, X.rule_exponent_allowance, facts)
        guarded_soft(col, X.rule_buffer_allowance, facts)
        from rules import tbl_write_integer as I17
        guarded(col, I17.rule_sizes, facts)
        for crate in ("lexical_write_float", "lexical_parse_float"):
            guarded(col, O.rule_options_builder, facts, crate)
            guarded(col, O.rule_options_is_valid, facts, crate)
