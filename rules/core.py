"""Core of the rule engine (E3): fact loading, CFG utilities, the lookup-table evaluator
and obligation bookkeeping.  Nothing in here runs lexical: every input is a JSON fact file
written by the lexfacts driver from /repo's type-checked source.  See DESIGN.md §2.4."""
import json
import os
import re
import sys

# ----------------------------------------------------------------------------------------
# Facts
# ----------------------------------------------------------------------------------------

CRATES = [
    "lexical_util",
    "lexical_parse_integer",
    "lexical_parse_float",
    "lexical_write_integer",
    "lexical_write_float",
    "lexical_core",
    "lexical",
]

_GEN = re.compile(r"::<[^<>]*(?:<[^<>]*(?:<[^<>]*>[^<>]*)*>[^<>]*)*>")


def strip_generics(path):
    """`a::B::<T>::c` -> `a::B::c` (turbofish segments only; `<T as Trait>::m` is kept)."""
    prev = None
    while prev != path:
        prev = path
        path = _GEN.sub("", path)
    return path


class Fn:
    __slots__ = (
        "raw", "path", "dp", "crate", "kind", "unsafe", "const", "vis", "impl_self", "impl_trait",
        "in_trait", "generics", "mir", "blocks", "locals", "argc", "names", "facts", "spanidx",
        "_succ", "_pred", "_dom", "short", "closure_of", "promoted", "_defs",
    )

    def __init__(self, raw, crate, facts):
        self.raw = raw
        self.path = raw["path"]
        self.short = strip_generics(raw["path"])
        self.dp = raw["dp"]
        self.crate = crate
        self.kind = raw["kind"]
        self.unsafe = raw.get("unsafe", False)
        self.const = raw.get("const", False)
        self.vis = raw.get("vis")
        self.impl_self = raw.get("impl_self")
        self.impl_trait = raw.get("impl_trait")
        self.in_trait = raw.get("in_trait")
        self.closure_of = raw.get("closure_of")
        self.generics = raw.get("generics", [])
        self.mir = raw["mir"]
        self.blocks = self.mir["blocks"]
        self.locals = self.mir["locals"]
        self.argc = self.mir["argc"]
        self.names = {l: n for l, n in self.mir.get("names", [])}
        self.facts = facts
        self.spanidx = raw["span"]
        self._succ = None
        self._pred = None
        self._dom = None
        self._defs = None
        self.promoted = raw.get("promoted", [])

    def defs(self):
        """local -> list of (bb, stmt index or -1 for call dest, rvalue | ["call", f, args])"""
        if self._defs is None:
            d = {}
            for i, b in enumerate(self.blocks):
                for j, st in enumerate(b["s"]):
                    if st[0] == "=":
                        d.setdefault(st[1][0], []).append((i, j, st[2], st[1][1]))
                t = b["t"]
                if t["k"] == "call" and t.get("dest"):
                    d.setdefault(t["dest"][0], []).append((i, -1, ["call", t["f"], t["a"]], t["dest"][1]))
            self._defs = d
        return self._defs

    # -- spans ---------------------------------------------------------------------------
    def span(self, idx):
        return self.facts.spans[self.crate][idx]

    def loc(self, idx=None):
        s = self.span(self.spanidx if idx is None else idx)
        if "cf" in s:
            return "%s:%d" % (rel(s["cf"]), s["cl"])
        return "%s:%d" % (rel(s["f"]), s["l"])

    def macros(self, idx):
        return self.span(idx).get("m", [])

    def file(self):
        return rel(self.span(self.spanidx)["f"])

    # -- CFG -----------------------------------------------------------------------------
    def succ(self):
        """Successors, with statically infeasible edges removed: a switch on a literal constant
        (`cfg!(..)` lowers to `const true/false`) only goes to the matching target."""
        if self._succ is None:
            out = []
            for b in self.blocks:
                t = b["t"]
                tg = term_targets(t)
                if t["k"] == "switch":
                    v = _literal(self, t["d"])
                    if v is not None and any(m.startswith("debug_assert") for m in self.macros(b["ts"])):
                        # `if cfg!(debug_assertions) { assert!(..) }`: facts are extracted from a dev
                        # build, but a guard must also hold in release: analyse with the assertion off
                        v = 0
                    if v is not None:
                        hit = [x[1] for x in t["v"] if x[0] == v]
                        tg = hit[:1] if hit else [t["else"]]
                out.append(tg)
            self._succ = out
        return self._succ

    def pred(self):
        if self._pred is None:
            p = [[] for _ in self.blocks]
            for i, ss in enumerate(self.succ()):
                for s in ss:
                    p[s].append(i)
            self._pred = p
        return self._pred

    def dom(self):
        """Immediate dominators (Cooper-Harvey-Kennedy) over non-cleanup blocks reachable from 0."""
        if self._dom is None:
            self._dom = dominators(self.succ(), 0)
        return self._dom

    def dominates(self, a, b):
        idom = self.dom()
        if b not in idom:
            return False
        while True:
            if a == b:
                return True
            nb = idom.get(b)
            if nb is None or nb == b:
                return False
            b = nb

    def calls(self):
        """Yield (block index, callee dict, args, dest place, target) for each call terminator."""
        for i, b in enumerate(self.blocks):
            t = b["t"]
            if t["k"] in ("call", "tailcall") and self.live(i):
                yield i, t["f"], t["a"], t.get("dest"), t.get("to")

    def live(self, bb):
        """Reachable from the entry over feasible edges (cleanup blocks excluded by construction
        unless an unwind edge is modelled, which it is not)."""
        return bb in self.dom()

    def __repr__(self):
        return "<Fn %s>" % self.path


def _literal(fn, op):
    """Value of an operand that is a literal constant, directly or through one single-definition
    local assigned from a literal (never named / generic constants)."""
    def lit(o):
        if o[0] == "k" and "uneval" not in o[1] and "param" not in o[1]:
            v = o[1].get("v")
            if isinstance(v, bool):
                return int(v)
            if isinstance(v, int):
                return v
        return None
    v = lit(op)
    if v is not None:
        return v
    if op[0] in ("cp", "mv") and not op[1][1]:
        l = op[1][0]
        if l <= fn.argc:
            return None
        n = 0
        val = None
        for b in fn.blocks:
            for st in b["s"]:
                if st[0] == "=" and st[1][0] == l:
                    n += 1
                    if not st[1][1] and st[2][0] == "use":
                        val = lit(st[2][1])
            t = b["t"]
            if t["k"] == "call" and t.get("dest") and t["dest"][0] == l:
                n += 2
        if n == 1:
            return val
    return None


def rel(path):
    for pre in ("/repo/",):
        if path.startswith(pre):
            return path[len(pre):]
    m = re.match(r"/var/tmp/lexmut-[^/]+/(.*)", path)
    if m:
        return m.group(1)
    # cargo passes paths relative to the package dir for workspace members
    return path


def term_targets(t):
    k = t["k"]
    if k == "goto":
        return [t["to"]]
    if k == "switch":
        return [x[1] for x in t["v"]] + [t["else"]]
    if k in ("call", "drop", "assert"):
        return [t["to"]] if "to" in t else []
    return []


def dominators(succ, entry):
    # reverse postorder
    order = []
    seen = set()
    stack = [(entry, iter(succ[entry]))]
    seen.add(entry)
    while stack:
        n, it = stack[-1]
        adv = False
        for s in it:
            if s not in seen:
                seen.add(s)
                stack.append((s, iter(succ[s])))
                adv = True
                break
        if not adv:
            order.append(n)
            stack.pop()
    rpo = list(reversed(order))
    num = {n: i for i, n in enumerate(rpo)}
    pred = {n: [] for n in rpo}
    for n in rpo:
        for s in succ[n]:
            if s in pred:
                pred[s].append(n)
    idom = {entry: entry}
    changed = True
    while changed:
        changed = False
        for n in rpo[1:]:
            new = None
            for p in pred[n]:
                if p in idom:
                    if new is None:
                        new = p
                    else:
                        a, b = p, new
                        while a != b:
                            while num[a] > num[b]:
                                a = idom[a]
                            while num[b] > num[a]:
                                b = idom[b]
                        new = a
            if new is not None and idom.get(n) != new:
                idom[n] = new
                changed = True
    return idom


class Facts:
    """All crates of one feature configuration."""

    def __init__(self, config, directory):
        self.config = config
        self.dir = directory
        self.fns = {}       # dp -> Fn
        self.by_short = {}  # generic-stripped path -> [Fn]
        self.consts = {}    # path -> raw const item
        self.const_items = []
        self.spans = {}
        self.crates = []
        self.adts = {}      # path -> [variants: {"name", "fields"}]
        for c in CRATES:
            p = os.path.join(directory, c + ".json")
            if not os.path.exists(p):
                continue
            with open(p) as fh:
                d = json.load(fh)
            self.crates.append(c)
            self.spans[c] = d["spans"]
            for a in d.get("adts", []):
                self.adts[a["path"]] = a["variants"]
            for raw in d["fns"]:
                f = Fn(raw, c, self)
                self.fns[f.dp] = f
                self.by_short.setdefault(f.short, []).append(f)
            for raw in d["consts"]:
                raw["_crate"] = c
                self.const_items.append(raw)
                self.consts.setdefault(raw["path"], raw)

    def fn(self, short, required=True):
        """Look a function up by its generic-stripped path; exactly one must exist."""
        fs = self.by_short.get(short, [])
        if len(fs) == 1:
            return fs[0]
        if not fs:
            if required:
                raise AnchorMissing("function %s not found in config %s" % (short, self.config))
            return None
        raise AnchorMissing("function %s ambiguous (%d) in config %s" % (short, len(fs), self.config))

    def has_fn(self, short):
        return short in self.by_short

    def const(self, path, required=True):
        c = self.consts.get(path)
        if c is None and required:
            raise AnchorMissing("const %s not found in config %s" % (path, self.config))
        return c

    def const_value(self, path, required=True):
        c = self.const(path, required)
        if c is None:
            return None
        if "value" not in c or c["value"] is None:
            if required:
                raise AnchorMissing("const %s has no evaluated value in config %s" % (path, self.config))
            return None
        return c["value"]

    def const_fn(self, path):
        """The initialiser body of a const item viewed as a function (for expression rules)."""
        c = self.const(path)
        return Fn(c, c["_crate"], self)

    def const_loc(self, path):
        c = self.consts[path]
        s = self.spans[c["_crate"]][c["span"]]
        return "%s:%d" % (rel(s.get("cf", s["f"])), s.get("cl", s["l"]))

    def all_fns(self):
        return self.fns.values()


class AnchorMissing(Exception):
    pass


# ----------------------------------------------------------------------------------------
# Operand helpers
# ----------------------------------------------------------------------------------------

def op_const(op):
    """Value of a constant operand (int/bool) or None."""
    if op[0] == "k":
        return op[1].get("v")
    return None


def op_place(op):
    if op[0] in ("cp", "mv"):
        return op[1]
    return None


def op_local(op):
    """Local of a projection-free place operand."""
    p = op_place(op)
    if p is not None and not p[1]:
        return p[0]
    return None


def callee_name(f):
    return strip_generics(f.get("fn", "<indirect>"))


def callee_resolved(f):
    return strip_generics(f.get("resolved", f.get("fn", "<indirect>")))


def last_seg(path):
    return path.rsplit("::", 1)[-1]


_FOLD = {
    "Add": lambda a, b: a + b, "Sub": lambda a, b: a - b, "Mul": lambda a, b: a * b,
    "Shl": lambda a, b: a << b, "Shr": lambda a, b: a >> b, "BitOr": lambda a, b: a | b,
    "BitAnd": lambda a, b: a & b, "BitXor": lambda a, b: a ^ b,
}


def fold(fn, op, depth=0):
    """Fold an operand that is a compile-time constant expression (literals combined by
    arithmetic at mir-opt-level=0, e.g. `152_170 + 65536`).  Returns an int or None; never
    looks at parameters or anything with more than one definition."""
    if depth > 12:
        return None
    if op[0] == "k":
        v = op[1].get("v")
        if isinstance(v, bool):
            return int(v)
        return v if isinstance(v, int) else None
    pl = op_place(op)
    if pl is None:
        return None
    l, proj = pl
    if l <= fn.argc:
        return None
    ds = fn.defs().get(l, [])
    if len(ds) != 1:
        return None
    _bb, _j, rv, dproj = ds[0]
    if dproj:
        return None
    if proj and not (proj == [0] and rv[0] == "bin" and rv[1].endswith("WithOverflow")):
        return None
    if rv[0] == "use":
        return fold(fn, rv[1], depth + 1)
    if rv[0] == "cast" and rv[1] == "IntToInt":
        return fold(fn, rv[2], depth + 1)
    if rv[0] == "bin":
        opn = rv[1].replace("WithOverflow", "").replace("Unchecked", "")
        if opn in _FOLD:
            a = fold(fn, rv[2], depth + 1)
            b = fold(fn, rv[3], depth + 1)
            if a is None or b is None:
                return None
            return _FOLD[opn](a, b)
    if rv[0] == "un" and rv[1] == "Neg":
        a = fold(fn, rv[2], depth + 1)
        return None if a is None else -a
    return None


def copy_root(fn, op, depth=0):
    """Follow single-definition copy chains (`_3 = copy _1`) back to the original local."""
    l = op_local(op) if isinstance(op, list) else op
    while l is not None and depth < 16:
        if l <= fn.argc:
            return l
        ds = fn.defs().get(l, [])
        if len(ds) != 1 or ds[0][3]:
            return l
        rv = ds[0][2]
        if rv[0] == "use" and op_local(rv[1]) is not None:
            l = op_local(rv[1])
            depth += 1
            continue
        return l
    return l


def guarded(col, rule_fn, *args):
    """Run one rule; a missing anchor is a finding of that rule (fail closed), not a crash."""
    try:
        rule_fn(col, *args)
    except AnchorMissing as e:
        col.bad("anchor-missing", "%s" % rule_fn.__name__, "anchor missing while running %s: %s" % (rule_fn.__name__, e))


class ShapeUnknown(Exception):
    """Raised by a *narrow* rule (one written for a particular shape of a particular function) when the code no
    longer has that shape.  Unlike AnchorMissing this is not a finding: the rule says nothing about code it
    cannot read, and the run records that it was not applied."""
    pass


def _is_shape_finding(o):
    """Findings that say "the code does not have the shape this rule reads" rather than "the code is wrong"."""
    return (not o.ok) and (o.rule.endswith("-floor") or o.rule == "anchor-missing" or "anchor" in o.key or o.key.endswith("-shape")
                           or o.key.endswith(":local") or o.key.endswith(":shape"))


def guarded_soft(col, rule_fn, *args):
    """Run a *narrow*, shape-bound rule (one written for a particular spelling of a particular function).  If the
    rule reports that the code no longer has the shape it reads (missing anchor, instance count below its floor,
    `...-shape`), nothing it says about that configuration is used: the run records `not applied` instead of a
    violation.  The broad rules of the same property still run and still fail closed."""
    sub = Collector()
    sub.config = col.config
    why = None
    try:
        rule_fn(sub, *args)
    except (AnchorMissing, ShapeUnknown) as e:
        why = str(e)
    shape = [o for o in sub.obs if _is_shape_finding(o)]
    if why is None and shape:
        why = "; ".join("%s:%s" % (o.rule, o.key) for o in shape[:3])
    if why is not None:
        col.note("%s not applied in %s: %s" % (rule_fn.__name__, col.config, why))
        col.assumed("not-applied", "%s" % rule_fn.__name__, "shape-bound rule not applied (the code is spelt differently from what it reads): %s" % why)
        return
    col.obs.extend(sub.obs)
    col.notes.extend(sub.notes)


def find_fn_suffix(facts, crate, suffix, required=True):
    """The unique function of `crate` whose generic-stripped path ends with `suffix`."""
    c = [f for f in facts.all_fns() if f.crate == crate and f.short.endswith(suffix) and f.kind != "Closure"]
    if len(c) == 1:
        return c[0]
    if not c and not required:
        return None
    raise AnchorMissing("%d functions match *%s in %s (config %s)" % (len(c), suffix, crate, facts.config))


# ----------------------------------------------------------------------------------------
# Lookup-table evaluator
# ----------------------------------------------------------------------------------------

class NotATable(Exception):
    pass


class TableIndexOutOfRange(Exception):
    pass


class TblResult:
    __slots__ = ("value", "default_taken", "chain")

    def __init__(self, value, default_taken, chain):
        self.value = value
        self.default_taken = default_taken   # list of fn shorts whose wildcard arm was taken
        self.chain = chain                   # functions traversed


_CMP = {
    "Eq": lambda a, b: a == b, "Ne": lambda a, b: a != b, "Lt": lambda a, b: a < b,
    "Le": lambda a, b: a <= b, "Gt": lambda a, b: a > b, "Ge": lambda a, b: a >= b,
}


# callees that only assert in debug builds and return (): transparent for a lookup
TBL_IGNORE = {"lexical_util::assert::debug_assert_radix"}


class _Body:
    """A promoted constant's body viewed as a function (for the table evaluator)."""

    def __init__(self, owner, idx):
        self.short = "%s::{promoted#%d}" % (owner.short, idx)
        self.blocks = owner.promoted[idx]["blocks"]
        self.promoted = []
        self.owner = owner


def tbl_eval(facts, fn, args, depth=0, allow=(), overrides=None):
    """Evaluate a *pure lookup function* on concrete keys.

    Accepted MIR: SwitchInt, Use, comparisons, Not, integer casts, aggregates of constants,
    references to statics / promoted constants, and calls to functions of the same kind.
    Arithmetic, loops, memory writes through pointers, or calls into anything else raise
    NotATable: such a function is an algorithm, and this engine does not run algorithms.
    `allow` names extra callees that are treated as opaque markers (returned as ("call", name, args)).
    """
    if depth > 8:
        raise NotATable("call chain too deep at %s" % fn.short)
    env = {}
    for i, a in enumerate(args):
        env[i + 1] = a
    default_taken = []
    chain = [fn.short]
    visited = set()
    bb = 0

    def rd_place(pl):
        l, proj = pl
        if l not in env:
            raise NotATable("read of unset local _%d in %s" % (l, fn.short))
        v = env[l]
        for e in proj:
            if isinstance(e, int):
                if isinstance(v, (list, tuple)):
                    v = v[e]
                elif isinstance(v, dict) and "variant" in v:
                    v = v["fields"][e]
                else:
                    raise NotATable("field of non-aggregate in %s" % fn.short)
            elif isinstance(e, list) and e[0] == "as":
                pass
            elif isinstance(e, list) and e[0] == "idx":
                i = env.get(e[1])
                if not isinstance(i, int) or not isinstance(v, (list, tuple)):
                    raise NotATable("index in %s" % fn.short)
                if i >= len(v):
                    raise TableIndexOutOfRange("%s: index %d out of %d" % (fn.short, i, len(v)))
                v = v[i]
            elif e == "*":
                if isinstance(v, dict) and "ref" in v:
                    v = v["ref"]
                else:
                    raise NotATable("deref in %s" % fn.short)
            else:
                raise NotATable("projection %r in %s" % (e, fn.short))
        return v

    def rd(op):
        if op[0] == "k":
            k = op[1]
            if "v" in k:
                return k["v"]
            if "fn" in k:
                return {"fn": k["fn"]}
            if "promoted" in k and k["promoted"] < len(fn.promoted):
                r = tbl_eval(facts, _Body(fn, k["promoted"]), [], depth + 1, allow, overrides)
                return r.value
            raise NotATable("unevaluated constant %s in %s" % (k.get("uneval", k.get("param")), fn.short))
        if op[0] in ("cp", "mv"):
            return rd_place(op[1])
        raise NotATable("operand %r" % (op,))

    while True:
        if bb in visited:
            raise NotATable("loop in %s" % fn.short)
        visited.add(bb)
        blk = fn.blocks[bb]
        for st in blk["s"]:
            if st[0] != "=":
                raise NotATable("statement %s in %s" % (st[0], fn.short))
            _, pl, rv, _sp = st
            k = rv[0]
            if k == "use":
                v = rd(rv[1])
            elif k == "bin":
                opn = rv[1]
                if opn in _CMP:
                    v = _CMP[opn](rd(rv[2]), rd(rv[3]))
                elif opn in ("BitAnd", "BitOr") and isinstance(rd(rv[2]), bool):
                    a, b = rd(rv[2]), rd(rv[3])
                    v = (a and b) if opn == "BitAnd" else (a or b)
                else:
                    raise NotATable("arithmetic %s in %s" % (opn, fn.short))
            elif k == "un":
                if rv[1] == "Not" and isinstance(rd(rv[2]), bool):
                    v = not rd(rv[2])
                else:
                    raise NotATable("unary %s in %s" % (rv[1], fn.short))
            elif k == "cast":
                if rv[1] in ("IntToInt",) or rv[1].startswith("PointerCoercion"):
                    v = rd(rv[2])
                else:
                    raise NotATable("cast %s in %s" % (rv[1], fn.short))
            elif k == "agg":
                kind = rv[1]
                vals = [rd(o) for o in rv[2]]
                if kind[0] in ("tuple", "array"):
                    v = vals
                elif kind[0] == "adt":
                    v = {"adt": kind[1], "variant": kind[3], "fields": vals}
                else:
                    raise NotATable("aggregate %s in %s" % (kind[0], fn.short))
            elif k == "ref":
                if rv[1] == "mut":
                    raise NotATable("mutable borrow in %s" % fn.short)
                v = {"ref": rd_place(rv[2])}
            elif k == "discr":
                x = rd_place(rv[1])
                if isinstance(x, dict) and "variant" in x:
                    v = {"None": 0, "Some": 1, "Ok": 0, "Err": 1}.get(x["variant"])
                    if v is None:
                        raise NotATable("discriminant of %s" % x["variant"])
                else:
                    raise NotATable("discriminant in %s" % fn.short)
            else:
                raise NotATable("rvalue %s in %s" % (k, fn.short))
            if pl[1]:
                raise NotATable("projected store in %s" % fn.short)
            env[pl[0]] = v
        t = blk["t"]
        tk = t["k"]
        if tk == "goto":
            bb = t["to"]
        elif tk == "return":
            return TblResult(env.get(0), default_taken, chain)
        elif tk == "switch":
            d = rd(t["d"])
            if isinstance(d, bool):
                d = int(d)
            if not isinstance(d, int):
                raise NotATable("switch on non-integer in %s" % fn.short)
            # signed discriminants are stored as their unsigned bit patterns
            width = {"i8": 8, "i16": 16, "i32": 32, "i64": 64, "i128": 128, "isize": 64}.get(t["dty"])
            if width and d < 0:
                d += 1 << width
            nxt = None
            for v, tgt in t["v"]:
                if v == d:
                    nxt = tgt
            if nxt is None:
                nxt = t["else"]
                # a wildcard is only interesting when the switch discriminates on several keys
                if len(t["v"]) >= 2 or t["dty"] not in ("bool",):
                    if not _is_unreachable(fn, nxt) and len(t["v"]) >= 2:
                        default_taken.append(fn.short)
            bb = nxt
        elif tk in ("call", "tailcall"):
            name = callee_name(t["f"])
            if overrides and name in overrides:
                v = overrides[name](t)
                cargs = None
            elif name in TBL_IGNORE:
                v = []
                cargs = None
            else:
                cargs = [rd(a) for a in t["a"]]
            if cargs is None:
                pass
            elif name in allow:
                v = ("call", name, cargs)
            else:
                callee = facts.by_short.get(name)
                if not callee or len(callee) != 1:
                    raise NotATable("call to %s in %s" % (name, fn.short))
                r = tbl_eval(facts, callee[0], cargs, depth + 1, allow, overrides)
                default_taken.extend(r.default_taken)
                chain.extend(r.chain)
                v = r.value
            if tk == "tailcall":
                return TblResult(v, default_taken, chain)
            dest = t["dest"]
            if dest[1]:
                raise NotATable("projected call destination in %s" % fn.short)
            env[dest[0]] = v
            if "to" not in t:
                raise NotATable("diverging call in %s" % fn.short)
            bb = t["to"]
        elif tk == "assert":
            # a bounds check of a table index is part of a lookup; overflow assertions belong to
            # arithmetic and are refused
            if t.get("msg") != "BoundsCheck":
                raise NotATable("assert(%s) in %s" % (t.get("msg"), fn.short))
            c = rd(t["c"])
            if bool(c) != bool(t["exp"]):
                raise TableIndexOutOfRange("%s: bounds check fails" % fn.short)
            bb = t["to"]
        elif tk == "unreachable":
            raise NotATable("unreachable reached in %s" % fn.short)
        elif tk == "drop":
            bb = t["to"]
        else:
            raise NotATable("terminator %s in %s" % (tk, fn.short))


def _is_unreachable(fn, bb):
    return fn.blocks[bb]["t"]["k"] == "unreachable" and not fn.blocks[bb]["s"]


def switch_keys(fn):
    """Explicit keys of the first multi-way switch on parameter 1 (the key set of a table)."""
    for b in fn.blocks:
        t = b["t"]
        if t["k"] == "switch" and len(t["v"]) >= 2:
            return [v for v, _ in t["v"]]
    return []


# ----------------------------------------------------------------------------------------
# Obligations
# ----------------------------------------------------------------------------------------

class Ob:
    __slots__ = ("rule", "key", "ok", "msg", "loc", "config", "assumed")

    def __init__(self, rule, key, ok, msg="", loc="", config="", assumed=False):
        self.rule = rule
        self.key = key
        self.ok = ok
        self.msg = msg
        self.loc = loc
        self.config = config
        self.assumed = assumed

    def ident(self):
        return "%s:%s" % (self.rule, self.key)

    def as_json(self):
        d = {"rule": self.rule, "key": self.key, "ok": self.ok, "config": self.config}
        if self.msg:
            d["detail"] = self.msg
        if self.loc:
            d["at"] = self.loc
        if self.assumed:
            d["assumed"] = True
        return d


class Collector:
    """Collects obligations of one property across configurations."""

    def __init__(self):
        self.obs = []
        self.config = ""
        self.notes = []

    def set_config(self, c):
        self.config = c

    def ok(self, rule, key, msg="", loc=""):
        self.obs.append(Ob(rule, str(key), True, msg, loc, self.config))

    def bad(self, rule, key, msg, loc=""):
        self.obs.append(Ob(rule, str(key), False, msg, loc, self.config))

    def check(self, rule, key, cond, msg="", loc=""):
        self.obs.append(Ob(rule, str(key), bool(cond), msg if not cond else "", loc, self.config))
        return bool(cond)

    def assumed(self, rule, key, msg, loc=""):
        self.obs.append(Ob(rule, str(key), True, msg, loc, self.config, assumed=True))

    def note(self, s):
        self.notes.append(s)

    def floor(self, rule, what, got, need, loc=""):
        """Fail closed when the rule has gone blind (no instance at all).  Fewer instances than were counted by hand
        on the pinned tree, but some: every instance found was still decided, a refactoring may legitimately merge
        sites - recorded as `not applied` (visible in the summary line and the evidence), not as a violation."""
        if 0 < got < need:
            self.assumed("not-applied", "%s-floor:%s" % (rule, what), "%d instances of %s found where %d were counted on the pinned tree: the instances found were decided, the difference was not" % (got, what, need), loc)
            return
        self.check(rule + "-floor", what, got >= need,
                   "no instance of %s found, expected at least %d (anchor moved or rule blind)" % (what, need), loc)


def fmt_place(fn, pl):
    l, proj = pl
    s = fn.names.get(l, "_%d" % l)
    for e in proj:
        if e == "*":
            s = "(*%s)" % s
        elif isinstance(e, int):
            s += ".%d" % e
        else:
            s += "[%s]" % (e,)
    return s


# ----------------------------------------------------------------------------------------
# Expression reconstruction and path conditions
# ----------------------------------------------------------------------------------------

def place_expr(fn, pl, depth=0):
    l, proj = pl
    base = local_expr(fn, l, depth)
    if not proj:
        return base
    return ("proj", base, tuple(_hashable(p) for p in proj))


def _hashable(x):
    if isinstance(x, list):
        return tuple(_hashable(y) for y in x)
    return x


def local_expr(fn, l, depth=0):
    """Symbolic expression for a local: parameters and multiply-assigned locals stay opaque."""
    if l <= fn.argc and l != 0:
        return ("arg", l, fn.names.get(l, "_%d" % l))
    if depth > 14:
        return ("var", l)
    ds = fn.defs().get(l, [])
    if len(ds) != 1 or ds[0][3]:
        return ("var", l, fn.names.get(l, "_%d" % l))
    _bb, _j, rv, _ = ds[0]
    return rvalue_expr(fn, rv, depth + 1, l)


def rvalue_expr(fn, rv, depth, l=None):
    k = rv[0]
    if k == "use":
        return op_expr(fn, rv[1], depth)
    if k == "cast":
        if rv[1] in ("IntToInt", "Transmute") or rv[1].startswith("PointerCoercion") or rv[1] == "PtrToPtr":
            return ("cast", op_expr(fn, rv[2], depth), rv[3])
        return ("cast", op_expr(fn, rv[2], depth), rv[3])
    if k == "bin":
        op = rv[1].replace("WithOverflow", "").replace("Unchecked", "")
        return ("bin", op, op_expr(fn, rv[2], depth), op_expr(fn, rv[3], depth))
    if k == "un":
        return ("un", rv[1], op_expr(fn, rv[2], depth))
    if k == "ref":
        return ("ref", place_expr(fn, rv[2], depth))
    if k == "rawptr":
        return ("ref", place_expr(fn, rv[2], depth))
    if k == "discr":
        return ("discr", place_expr(fn, rv[1], depth))
    if k == "call":
        return ("call", callee_name(rv[1]), tuple(op_expr(fn, a, depth) for a in rv[2]), l)
    if k == "agg":
        return ("agg", _hashable(rv[1]), tuple(op_expr(fn, a, depth) for a in rv[2]))
    return ("other", k)


def op_expr(fn, op, depth=0):
    if op[0] == "k":
        c = op[1]
        if "uneval" in c and "promoted" not in c:
            return ("kc", strip_generics(c["uneval"]), _hashable(c.get("v")), c.get("uargs", ""))
        if "fn" in c:
            return ("kfn", strip_generics(c["fn"]))
        if "param" in c:
            return ("kparam", c["param"])
        if "promoted" in c:
            return ("kprom", c["promoted"])
        return ("k", _hashable(c.get("v")))
    if op[0] in ("cp", "mv"):
        e = place_expr(fn, op[1], depth)
        # `(a op b).0` of a checked arithmetic pair is just the result
        if e[0] == "proj" and e[2] == (0,) and e[1][0] == "bin":
            return e[1]
        return e
    return ("other", op[0])


def strip_casts(e):
    while isinstance(e, tuple) and e and e[0] == "cast":
        e = e[1]
    return e


def bool_atom(e, val):
    """Normalise (expression == val) for boolean-ish switch discriminants: peel `Not` and
    comparisons with literal 0/false.  Returns (expr, polarity)."""
    while True:
        if e[0] == "un" and e[1] == "Not":
            e = e[2]
            val = not val
            continue
        if e[0] == "bin" and e[1] in ("Eq", "Ne") and e[3][0] == "k" and e[3][1] in (0, False, True, 1) and isinstance(e[3][1], bool):
            same = (e[1] == "Eq") == bool(e[3][1])
            e = e[2]
            val = val if same else not val
            continue
        return e, val


def edge_atoms(fn, bb):
    """For a block ending in a switch: {successor: [(expr, value-description)]} where the
    description is True/False for booleans, ("eq", v) or ("ne", [vs]) otherwise."""
    t = fn.blocks[bb]["t"]
    out = {}
    if t["k"] != "switch":
        return out
    e = op_expr(fn, t["d"])
    isbool = t["dty"] == "bool"
    vals = t["v"]
    by_tgt = {}
    for v, tgt in vals:
        by_tgt.setdefault(tgt, []).append(v)
    other = t["else"]
    for tgt, vs in by_tgt.items():
        if tgt == other:
            continue
        if isbool and len(vs) == 1:
            out[tgt] = [bool_atom(e, bool(vs[0]))]
        elif len(vs) == 1:
            out[tgt] = [(e, ("eq", vs[0]))]
        else:
            out[tgt] = [(e, ("in", tuple(sorted(vs))))]
    if other not in by_tgt:
        if isbool and len(vals) == 1:
            out[other] = [bool_atom(e, not bool(vals[0][0]))]
        else:
            out[other] = [(e, ("ne", tuple(v for v, _ in vals)))]
    return out


def path_conditions(fn, bb):
    """Facts that hold on *every* path from entry to `bb`: for each dominator d of bb ending in a
    switch whose successor s dominates bb and has d as its only predecessor, the edge atom d->s."""
    idom = fn.dom()
    conds = []
    if bb not in idom:
        return conds
    chain = [bb]
    x = bb
    while idom.get(x) is not None and idom[x] != x:
        x = idom[x]
        chain.append(x)
    chain.reverse()      # entry ... bb
    pred = fn.pred()
    for i in range(len(chain) - 1):
        d, s = chain[i], chain[i + 1]
        # s must be entered only through d (ignoring back edges from blocks s dominates)
        ps = [p for p in pred[s] if not fn.dominates(s, p)]
        if ps != [d] and set(ps) != {d}:
            continue
        # a test that only exists inside debug_assert!(..) proves nothing about release builds
        if any(m.startswith("debug_assert") for m in fn.macros(fn.blocks[d]["ts"])):
            continue
        atoms = edge_atoms(fn, d).get(s)
        if atoms:
            conds.append((d, atoms[0][0], atoms[0][1]))
        elif fn.blocks[d]["t"]["k"] == "assert":
            t = fn.blocks[d]["t"]
            e, v = bool_atom(op_expr(fn, t["c"]), bool(t["exp"]))
            conds.append((d, e, v))
    return conds


def expr_calls(e, out=None):
    """All ("call", name, args, dest) nodes inside an expression."""
    if out is None:
        out = []
    if isinstance(e, tuple):
        if e and e[0] == "call":
            out.append(e)
        for x in e:
            if isinstance(x, tuple):
                expr_calls(x, out)
    return out


def expr_consts(e, out=None):
    """All named constants ("kc", path, value, args) inside an expression."""
    if out is None:
        out = []
    if isinstance(e, tuple):
        if e and e[0] == "kc":
            out.append(e)
        for x in e:
            if isinstance(x, tuple):
                expr_consts(x, out)
    return out


def show(e, depth=0):
    """Compact rendering of an expression for reports."""
    if not isinstance(e, tuple) or not e:
        return str(e)
    k = e[0]
    if k == "k":
        return str(e[1])
    if k == "kc":
        return last_seg(e[1])
    if k == "arg":
        return e[2]
    if k == "var":
        return e[2] if len(e) > 2 else "_%d" % e[1]
    if depth > 4:
        return "..."
    if k == "call":
        return "%s(%s)" % (last_seg(e[1]), ", ".join(show(a, depth + 1) for a in e[2]))
    if k == "bin":
        return "(%s %s %s)" % (show(e[2], depth + 1), e[1], show(e[3], depth + 1))
    if k == "un":
        return "%s(%s)" % (e[1], show(e[2], depth + 1))
    if k in ("cast", "ref", "discr"):
        return "%s(%s)" % (k, show(e[1], depth + 1))
    if k == "proj":
        return "%s.%s" % (show(e[1], depth + 1), ".".join(str(p) for p in e[2]))
    return k


def reach_alternatives(fn, bb):
    """Condition lists under which `bb` is entered, one per incoming (non back-) edge:
    path_conditions(pred) + the atom of the edge pred->bb.  A block reached through `a || b`
    has one alternative per disjunct."""
    alts = []
    preds = [p for p in fn.pred()[bb] if not fn.dominates(bb, p)]
    if not preds:
        return [[(None, e, v) for _d, e, v in path_conditions(fn, bb)]]
    for p in preds:
        conds = list(path_conditions(fn, p))
        atoms = edge_atoms(fn, p).get(bb)
        if atoms:
            conds.append((p, atoms[0][0], atoms[0][1]))
        elif fn.blocks[p]["t"]["k"] == "goto" or fn.blocks[p]["t"]["k"] in ("call", "drop", "assert"):
            # straight-line predecessor: its own alternatives apply
            sub = reach_alternatives(fn, p) if len(fn.pred()[p]) >= 1 and p != bb else [conds]
            for s in sub:
                alts.append(list(s))
            continue
        alts.append(conds)
    return alts


def pol_is_variant(pol, idx, nvariants=2):
    """Does a discriminant atom select variant `idx` of an enum with `nvariants` variants?"""
    if pol == ("eq", idx):
        return True
    if isinstance(pol, tuple) and pol and pol[0] == "ne":
        rest = set(range(nvariants)) - set(pol[1])
        return rest == {idx}
    return False


# ----------------------------------------------------------------------------------------
# Path-sensitive enumeration over an acyclic region
# ----------------------------------------------------------------------------------------

def _atoms_for(e, t, tgt):
    """Edge atom of switch terminator `t` towards `tgt` when its discriminant is expression `e`."""
    isbool = t["dty"] == "bool"
    vs = [v for v, x in t["v"] if x == tgt]
    if tgt != t["else"]:
        if isbool and len(vs) == 1:
            return bool_atom(e, bool(vs[0]))
        if len(vs) == 1:
            return (e, ("eq", vs[0]))
        return (e, ("in", tuple(sorted(vs))))
    if isbool and len(t["v"]) == 1:
        return bool_atom(e, not bool(t["v"][0][0]))
    return (e, ("ne", tuple(v for v, _ in t["v"])))


def simplify_proj(e):
    """`(a, b).1` -> b, recursively: projections of tuple / struct aggregates select the component."""
    if not isinstance(e, tuple) or not e:
        return e
    e = tuple(simplify_proj(x) if isinstance(x, tuple) else x for x in e)
    if e[0] == "proj" and isinstance(e[1], tuple) and e[1] and e[1][0] == "agg" and e[2] and isinstance(e[2][0], int) and e[2][0] < len(e[1][2]):
        comp = e[1][2][e[2][0]]
        rest = e[2][1:]
        return simplify_proj(("proj", comp, rest)) if rest else comp
    # `*&x` -> x (match guards bind by reference: `(radix, base) if radix != base` compares `*&t.0` with `*&t.1`)
    if e[0] == "proj" and isinstance(e[1], tuple) and e[1] and e[1][0] == "ref" and e[2] and e[2][0] == "*":
        rest = e[2][1:]
        inner = e[1][1]
        return simplify_proj(("proj", inner, rest)) if rest else inner
    return e


def resolve_env(e, env, depth=0):
    """Substitute path-local knowledge for opaque multi-definition locals inside an expression."""
    if not isinstance(e, tuple) or not e or depth > 12:
        return e
    if e[0] == "var" and e[1] in env:
        v = env[e[1]]
        if v[0] == "const":
            return ("k", v[1])
        if v[1] != e:
            return resolve_env(v[1], env, depth + 1)
        return e
    return tuple(resolve_env(x, env, depth + 1) if isinstance(x, tuple) else x for x in e)


def bool_resolved_atoms(fn, atoms0, env):
    """The atoms of one path of enum_paths(.., want_env=True) with *boolean* locals that are assigned in several
    arms, and tuples of them, read along the path (`let use = if a() { false } else { b() }`, `match (use, x < 0)`),
    `!x` peeled and constant tests removed.  Returns (atoms, feasible): a path on which such a test is the constant
    of the other polarity cannot be taken.  Integer locals stay opaque (their origin is read off their definitions)."""
    def res(e, depth=0):
        e = strip_casts(simplify_proj(strip_casts(e)))
        if depth > 8:
            return e
        if e[0] == "var" and e[1] in env and str(fn.locals[e[1]]) == "bool":
            v = env[e[1]]
            if v[0] == "const":
                return ("k", bool(v[1]))
            if v[1] != e:
                return res(v[1], depth + 1)
            return e
        if e[0] == "proj" and strip_casts(e[1])[0] == "var" and strip_casts(e[1])[1] in env and str(fn.locals[strip_casts(e[1])[1]]).startswith("("):
            v = env[strip_casts(e[1])[1]]
            if v[0] == "expr" and v[1] != strip_casts(e[1]):
                return res(("proj", v[1]) + tuple(e[2:]), depth + 1)
            return e
        if e[0] == "un" and e[1] == "Not":
            return ("un", "Not", res(e[2], depth + 1))
        return e
    atoms = []
    feasible = True
    for e, p in atoms0:
        e = res(e)
        while e[0] == "un" and e[1] == "Not" and isinstance(p, bool):
            e, p = res(e[2]), not p
        if e[0] == "k" and isinstance(e[1], bool) and isinstance(p, bool):
            if e[1] != p:
                feasible = False
            continue
        atoms.append((e, p))
    return atoms, feasible


def every_path_has(fn, bb, pred):
    """True if every feasible path from the entry to block `bb` carries an atom (e, polarity) with pred(e, polarity) -
    boolean locals assigned in several arms are read along the path (bool_resolved_atoms).  Vacuously true when no
    path is feasible (the block cannot be reached in this configuration)."""
    # conditions that dominate the block hold on every path
    if any(pred(strip_casts(simplify_proj(strip_casts(e))), p) for _d, e, p in path_conditions(fn, bb)):
        return True
    try:
        paths = enum_paths(fn, 0, {bb}, want_env=True)
    except AnchorMissing:
        # too many paths from the entry of a large function: enumerate from a dominator some levels up (locals
        # assigned before it stay opaque, which can only lose atoms - never invent one)
        doms = [d for d in range(len(fn.blocks)) if fn.live(d) and d != bb and fn.dominates(d, bb)]
        doms.sort(key=lambda d: sum(1 for x in doms if fn.dominates(x, d)))
        paths = None
        for back in (24, 16, 10, 6, 3):
            if len(doms) >= 1:
                start = doms[max(0, len(doms) - back)]
                try:
                    paths = enum_paths(fn, start, {bb}, want_env=True)
                    break
                except AnchorMissing:
                    continue
        if paths is None:
            raise
    for _t, atoms0, env in paths:
        atoms, feasible = bool_resolved_atoms(fn, atoms0, env)
        if feasible and not any(pred(e, p) for e, p in atoms):
            return False
    return True


def some_path_has(fn, bb, pred):
    """True if some feasible path from the entry to block `bb` carries an atom with pred(e, polarity) (boolean locals
    read along the path, as in every_path_has)."""
    if any(pred(strip_casts(simplify_proj(strip_casts(e))), p) for _d, e, p in path_conditions(fn, bb)):
        return True
    try:
        paths = enum_paths(fn, 0, {bb}, want_env=True)
    except AnchorMissing:
        return False
    for _t, atoms0, env in paths:
        atoms, feasible = bool_resolved_atoms(fn, atoms0, env)
        if feasible and any(pred(e, p) for e, p in atoms):
            return True
    return False


def enum_paths(fn, start, targets, limit=20000, want_env=False, resolve_atoms=False):
    """Every acyclic feasible path from block `start` to a block in `targets`, as
    (target, [(expr, polarity)]).  Unlike path_conditions this is path-sensitive for locals that
    are assigned in several branches (`let c = a || b;` lowers to `c = true` in one arm and
    `c = b` in the other): along each path the last assignment decides how a later switch on the
    local is read - a literal prunes the infeasible edge, anything else becomes the atom."""
    succ = fn.succ()
    out = []
    count = [0]
    # only blocks from which a target can still be reached are worth walking
    pred_ = fn.pred()
    alive = set()
    todo = [t for t in targets if 0 <= t < len(fn.blocks)]
    while todo:
        x = todo.pop()
        if x in alive:
            continue
        alive.add(x)
        todo.extend(pred_[x])

    def walk(bb, env, atoms, seen):
        if bb not in alive:
            return
        count[0] += 1
        if count[0] > limit:
            raise AnchorMissing("path enumeration in %s exceeds %d steps" % (fn.short, limit))
        if bb in targets:
            if want_env:
                env2 = dict(env)
                for st in fn.blocks[bb]["s"]:
                    if st[0] == "=" and not st[1][1]:
                        env2[st[1][0]] = ("expr", rvalue_expr(fn, st[2], 0, st[1][0])) if not (st[2][0] == "use" and st[2][1][0] == "k" and isinstance(st[2][1][1].get("v"), bool)) else ("const", st[2][1][1]["v"])
                env2["__blocks__"] = seen | {bb}
                out.append((bb, list(atoms), env2))
            else:
                out.append((bb, list(atoms)))
            return
        if bb in seen:
            return
        seen = seen | {bb}
        b = fn.blocks[bb]
        env = dict(env)
        for st in b["s"]:
            if st[0] != "=" or st[1][1]:
                continue
            l, rv = st[1][0], st[2]
            if rv[0] == "use" and rv[1][0] == "k" and isinstance(rv[1][1].get("v"), bool):
                env[l] = ("const", rv[1][1]["v"])
            elif rv[0] == "use" and rv[1][0] in ("cp", "mv") and not rv[1][1][1] and rv[1][1][0] in env:
                env[l] = env[rv[1][1][0]]
            elif rv[0] == "un" and rv[1] == "Not" and rv[2][0] in ("cp", "mv") and not rv[2][1][1] and rv[2][1][0] in env:
                v = env[rv[2][1][0]]
                env[l] = ("const", not v[1]) if v[0] == "const" else ("expr", ("un", "Not", v[1]))
            else:
                env[l] = ("expr", rvalue_expr(fn, rv, 0, l))
        t = b["t"]
        if t["k"] == "switch":
            d = t["d"]
            val = None
            if len(set(succ[bb])) == 1:          # already decided by Fn.succ (cfg!/debug_assert switch)
                walk(succ[bb][0], env, atoms, seen)
                return
            if d[0] in ("cp", "mv") and not d[1][1] and d[1][0] in env:
                val = env[d[1][0]]
            if val is not None and val[0] == "const" and t["dty"] == "bool":
                hit = [x for v, x in t["v"] if v == int(val[1])]
                nxt = hit[0] if hit else t["else"]
                if nxt in succ[bb]:
                    walk(nxt, env, atoms, seen)
                return
            e = val[1] if val is not None else op_expr(fn, d)
            if resolve_atoms:
                e = resolve_env(e, env)
            for tgt in dict.fromkeys(succ[bb]):
                at = _atoms_for(e, t, tgt)
                # the same expression (same call instance / same local value) cannot test both ways on one path
                if isinstance(at[1], bool) and any(e0 == at[0] and isinstance(p0, bool) and p0 != at[1] for e0, p0 in atoms):
                    continue
                walk(tgt, env, atoms + [at], seen)
            return
        if t["k"] in ("call", "tailcall") and t.get("dest") and not t["dest"][1]:
            l = t["dest"][0]
            env[l] = ("expr", ("call", callee_name(t["f"]), tuple(op_expr(fn, a) for a in t["a"]), l))
        if t["k"] == "assert":
            e, v = bool_atom(op_expr(fn, t["c"]), bool(t["exp"]))
            atoms = atoms + [(e, v)]
        for tgt in dict.fromkeys(succ[bb]):
            walk(tgt, env, atoms, seen)

    walk(start, {}, [], frozenset())
    return out
