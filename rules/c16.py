"""C16 — Cargo features are additive: cross-configuration agreement (DESIGN §4)."""
import json

from rules import tbl_parse_float as T
from rules.core import (guarded, guarded_soft, callee_name, last_seg, path_conditions, op_expr, show, strip_casts, expr_calls,
                        tbl_eval, NotATable, TableIndexOutOfRange, find_fn_suffix, AnchorMissing, strip_generics)

INFO = {
    "explanation": "Every item that has several #[cfg] definitions (split_radix, exponent/mantissa/power limits, steps, small/large power getters, max_digits, FORMATTED_SIZE_DECIMAL, the 128-bit divider for 10, is_valid_radix, STANDARD, default options, decimal digit table, Eisel-Lemire / Dragonbox / decimal Bellerophon tables) is evaluated on the keys the default build defines (10, 5, 2) in every configuration and must agree with the default build; in every configuration the radix-10 arm of moderate_path, slow_path, WriteFloat::write_float and WriteInteger::write_integer* resolves to the same decimal back-end as in the default (resp. compact) build. (All decimal table rules of C01-C03 also run in every configuration.)",
    "not_decided": "equality of results; in particular no-skip vs skip iterator equivalence on separator-free input",
    "assumptions": ["rustc's const evaluator and MIR builder"],
}

PF = "lexical_parse_float::"


def canon(v):
    return json.dumps(v, sort_keys=True, default=str)


def table_samples(facts):
    """name -> value for every decimal-relevant lookup, or ("absent", why)"""
    out = {}

    def ev(key, fn, args):
        try:
            r = tbl_eval(facts, fn, args)
            out[key] = canon(T.unref(r.value) if not isinstance(r.value, (list, tuple)) else [T.unref(x) for x in r.value])
        except (NotATable, TableIndexOutOfRange) as e:
            # a lookup rewritten as arithmetic in one configuration: evaluate the loop-free function instead
            from rules.pathmodel import model_value
            try:
                out[key] = canon(model_value(fn, args, "u32"))
            except Exception:
                out[key] = "not-a-table: %s" % e

    def f(name):
        return facts.fn(name)
    for b in (10, 5, 2):
        ev("split_radix(%d)" % b, f(PF + "bigint::split_radix"), [b])
    for fl in ("f32", "f64"):
        ev("%s_exponent_limit(10)" % fl, f(PF + "limits::%s_exponent_limit" % fl), [10])
        ev("%s_mantissa_limit(10)" % fl, f(PF + "limits::%s_mantissa_limit" % fl), [10])
        for r in (6, 10, 12, 36, 3, 16):
            ev("%s_max_digits(%d)" % (fl, r), f(PF + "limits::%s_max_digits" % fl), [r])
    for b in (10, 5):
        ev("u64_power_limit(%d)" % b, f(PF + "limits::u64_power_limit"), [b])
        ev("u32_power_limit(%d)" % b, f(PF + "limits::u32_power_limit"), [b])
    ev("u64_step(10)", f("lexical_util::step::u64_step"), [10])
    for bits in (8, 16, 32, 64, 128):
        for s in (False, True):
            ev("min_step(10,%d,%s)" % (bits, s), f("lexical_util::step::min_step"), [10, bits, s])
            ev("max_step(10,%d,%s)" % (bits, s), f("lexical_util::step::max_step"), [10, bits, s])
    if not facts.config.startswith("compact"):
        gi = find_fn_suffix(facts, "lexical_parse_float", "::get_small_int_power")
        for i in range(0, 20):
            ev("get_small_int_power(%d,10)" % i, gi, [i, 10])
        for i in range(0, 28):
            ev("get_small_int_power(%d,5)" % i, gi, [i, 5])
        for fl, n in (("f32", 11), ("f64", 23)):
            g = find_fn_suffix(facts, "lexical_parse_float", "::get_small_%s_power" % fl)
            for i in range(n):
                ev("get_small_%s_power(%d,10)" % (fl, i), g, [i, 10])
        ev("get_large_int_power(5)", find_fn_suffix(facts, "lexical_parse_float", "::get_large_int_power"), [5])
        helpers = ["lexical_util::div128::pow2_u128_divrem", "lexical_util::div128::fast_u128_divrem",
                   "lexical_util::div128::moderate_u128_divrem", "lexical_util::div128::slow_u128_divrem"]
        try:
            r = tbl_eval(facts, facts.fn("lexical_util::div128::u128_divrem"), ["N", 10], allow=helpers)
            out["u128_divrem(10)"] = canon(r.value)
        except NotATable as e:
            out["u128_divrem(10)"] = "not-a-table: %s" % e
    # is_valid_radix(10)
    ev("is_valid_radix(10)", f("lexical_util::format_flags::is_valid_radix"), [10])
    # constants
    for name in ("lexical_util::format::STANDARD", PF + "shared::INVALID_FP"):
        out[name] = canon(facts.const_value(name))
    for ty in ("u8", "u16", "u32", "u64", "u128", "usize", "i8", "i16", "i32", "i64", "i128", "isize", "f32", "f64"):
        n = "<%s as lexical_util::constants::FormattedSize>::FORMATTED_SIZE_DECIMAL" % ty
        out[n] = canon(facts.const_value(n))
    for n in (PF + "api::DEFAULT_OPTIONS", "lexical_write_float::api::DEFAULT_OPTIONS"):
        out[n] = canon(facts.const_value(n))
    for path, c in facts.consts.items():
        if path.endswith("::DIGIT_TO_BASE10_SQUARED") or path.endswith("table_lemire::POWER_OF_FIVE_128") or "table_dragonbox::DRAGONBOX" in path \
                or path.endswith("decimal::fast_digit_count::TABLE") or "DecimalCount>::decimal_count::TABLE" in path \
                or path.startswith(PF + "table_decimal::") or path.startswith(PF + "table_bellerophon_decimal::") or "table_grisu::" in path \
                or path.startswith("<f32 as lexical_parse_float::float::LemireFloat>") or path.startswith("<f64 as lexical_parse_float::float::LemireFloat>") \
                or "DragonboxFloat>::" in path:
            if path.endswith("::_") or "value" not in c:
                continue
            key = "const:" + path.replace("table_radix::", "table_*::").replace("table_decimal::", "table_*::").replace("table_binary::", "table_*::")
            out[key] = canon(c.get("value"))
    return out


def rule_tables_agree(col, configs):
    R = "CFG-tables"
    names = list(configs)
    samples = {}
    for n in names:
        try:
            samples[n] = table_samples(configs[n])
        except AnchorMissing as e:
            col.set_config(n)
            col.bad(R, "anchor:" + n, "anchor missing: %s" % e, "")
    if "default" not in samples:
        return
    ref = samples["default"]
    compact_ref = samples.get("compact")
    cnt = 0
    for n in names:
        if n == "default" or n not in samples:
            continue
        col.set_config(n)
        base = compact_ref if (n.startswith("compact") and compact_ref is not None and n != "compact") else ref
        for k, v in samples[n].items():
            # compare with the default build where it defines the item, else with the plain compact build
            if k in ref:
                want = ref[k]
            elif compact_ref is not None and k in compact_ref and n != "compact":
                want = compact_ref[k]
            else:
                continue
            cnt += 1
            col.check(R, k, v == want, "differs from the %s build: %s vs %s" % ("default" if k in ref else "compact", v[:80], want[:80]), "")
    col.set_config("all")
    col.floor(R, "cross-configuration comparisons", cnt, 300)


def radix_truth(e, pol, radix=10):
    """Truth of a path-condition atom under `radix == 10`, or None if it is not a radix test."""
    e = strip_casts(e)

    def is_radix(x):
        x = strip_casts(x)
        return x[0] == "call" and last_seg(x[1]) in ("radix", "mantissa_radix", "radix_from_flags", "exponent_base", "exponent_radix")
    if e[0] == "bin" and e[1] in ("Eq", "Ne", "Le", "Lt", "Ge", "Gt"):
        l, r = strip_casts(e[2]), strip_casts(e[3])
        if is_radix(l) and r[0] == "k" and isinstance(r[1], int):
            val = {"Eq": radix == r[1], "Ne": radix != r[1], "Le": radix <= r[1], "Lt": radix < r[1], "Ge": radix >= r[1], "Gt": radix > r[1]}[e[1]]
            return val == pol if isinstance(pol, bool) else None
        if is_radix(l) and is_radix(r):
            val = {"Eq": True, "Ne": False}.get(e[1])
            return None if val is None else (val == pol if isinstance(pol, bool) else None)
    if is_radix(e) and isinstance(pol, tuple):
        if pol[0] == "eq":
            return radix == pol[1]
        if pol[0] == "in":
            return radix in pol[1]
        if pol[0] == "ne":
            return radix not in pol[1]
    return None


def block_feasible(f, bb, depth=0):
    for _d, e, pol in path_conditions(f, bb):
        tr = radix_truth(e, pol)
        if tr is None and depth < 3:
            tr = flag_truth(f, e, pol, depth)
        if tr is False:
            return False
    return True


def flag_truth(f, e, pol, depth):
    """`matches!(radix, ..)` lowers to a bool local assigned in the arms: the atom (flag == pol) is
    infeasible for radix 10 if no assignment of that value to the flag is feasible."""
    e = strip_casts(e)
    if e[0] != "var" or not isinstance(pol, bool):
        return None
    defs = f.defs().get(e[1], [])
    vals = []
    for b2, _j, rv, pr in defs:
        if pr or rv[0] != "use" or rv[1][0] != "k" or not isinstance(rv[1][1].get("v"), bool):
            return None
        vals.append((b2, rv[1][1]["v"]))
    if not vals:
        return None
    return any(v == pol and block_feasible(f, b2, depth + 1) for b2, v in vals)


def decimal_backends(f, interesting):
    """Callees (matching `interesting`) reachable in f when the format's radix is 10."""
    out = set()
    for bb, c, a, d, t in f.calls():
        cn = callee_name(c)
        if not cn.endswith(interesting):
            continue
        feasible = block_feasible(f, bb)
        if feasible:
            # second reading, per path instead of per dominator (a `match (radix, base)` with guards joins edges):
            # some path to the call must be consistent with radix = base = 10.  Both readings over-approximate what
            # is reachable, so a back-end excluded by either is excluded.
            from rules import dispatch as _dp
            from rules.core import enum_paths as _ep
            try:
                feasible = any(all(_dp.holds(e, p, 10, 10) for e, p in atoms) for _t, atoms in _ep(f, 0, {bb}))
            except AnchorMissing:
                pass
        if feasible:
            out.add("::".join(cn.split("::")[-2:]))
    return out


def rule_dispatch(col, configs):
    R = "CFG-dispatch"
    specs = [
        (PF + "parse::moderate_path", ("lemire::lemire", "bellerophon::bellerophon", "binary::binary")),
        (PF + "parse::slow_path", ("slow::slow_radix", "binary::slow_binary")),
        ("lexical_write_float::write::WriteFloat::write_float", ("algorithm::write_float", "compact::write_float", "binary::write_float", "hex::write_float", "radix::write_float")),
        ("lexical_write_integer::write::WriteInteger::write_integer", ("Decimal::decimal", "Radix::radix", "Compact::compact")),
        ("lexical_write_integer::write::WriteInteger::write_integer_signed", ("Decimal::decimal_signed", "Radix::radix", "Compact::compact", "WriteInteger::write_integer")),
    ]
    ref = {}
    for n, facts in configs.items():
        col.set_config(n)
        for fn_name, interesting in specs:
            try:
                f = facts.fn(fn_name)
            except AnchorMissing as e:
                col.bad(R, fn_name, "missing: %s" % e, "")
                continue
            got = decimal_backends(f, interesting)
            if not got:
                # dispatch extracted into a helper of the same crate: read the unique callee that holds the back-ends
                all_backends = tuple(x for _fn, its in specs for x in its)
                hs = {h.short: h for _b, c, _a, _d, _t in f.calls() for h in facts.by_short.get(callee_name(c), [])
                      if h.crate == f.crate and h.short != f.short and not h.impl_trait and not callee_name(c).endswith(all_backends)   # a private free helper, never another back-end
                      and any(callee_name(c2).endswith(interesting) for _b2, c2, _a2, _d2, _t2 in h.calls())}
                if len(hs) == 1:
                    got = decimal_backends(list(hs.values())[0], interesting)
            family = "compact" if n.startswith("compact") else "default"
            key = (family, fn_name)
            if key not in ref:
                ref[key] = (n, got)
                col.check(R, "%s[%s]" % (fn_name.split("::", 1)[1], family), len(got) == 1, "decimal dispatch in %s reaches %s (expected exactly one back-end)" % (n, sorted(got)), f.loc())
            else:
                col.check(R, "%s[%s]" % (fn_name.split("::", 1)[1], family), got == ref[key][1],
                          "for radix 10 this configuration dispatches to %s but %s dispatches to %s" % (sorted(got), ref[key][0], sorted(ref[key][1])), f.loc())


def run(col, configs, tier):
    guarded(col, rule_tables_agree, configs)
    guarded(col, rule_dispatch, configs)
    from rules import extra as X
    for n, facts in configs.items():
        col.set_config(n)
        guarded_soft(col, X.rule_error_accounting, facts)
        # back-ends that only exist under a feature: their own structural rules (compact Grisu)
        guarded_soft(col, X.rule_grisu_boundaries, facts)
        guarded_soft(col, X.rule_grisu_weed, facts)
        guarded_soft(col, X.rule_int_pow_exact, facts)
        from rules import dispatch
        guarded(col, dispatch.rule_dispatch_table, facts)
        from rules import syntax
        guarded(col, syntax.rule_getters, facts)
        # the `format` build adds a required-digits test to the integer parsers' Ok exits: it must be on the
        # digit count itself, or `format` changes what STANDARD input is accepted
        guarded_soft(col, X.rule_ok_requires_digits, facts)
        guarded_soft(col, X.rule_absent_punctuation_guarded, facts)
