"""Digit-separator rules (C13): peek dispatch, per-component consistency, the counting protocol."""
from rules.core import (path_conditions, op_expr, rvalue_expr, show, strip_casts, expr_calls, expr_consts, callee_name, last_seg,
                        pol_is_variant, AnchorMissing)
from rules.core import enum_paths
from rules import grd as G

FL = "lexical_util::format_flags::"
COMPONENTS = {
    "IntegerDigitsIterator": ("INTEGER", "integer_count", "mantissa_radix"),
    "FractionDigitsIterator": ("FRACTION", "fraction_count", "mantissa_radix"),
    "ExponentDigitsIterator": ("EXPONENT", "exponent_count", "exponent_radix"),
}
LETTERS = [("i", "INTERNAL"), ("l", "LEADING"), ("t", "TRAILING"), ("c", "CONSECUTIVE")]


def find_impl_fn(facts, iterator, trait, method):
    for f in facts.all_fns():
        if f.crate == "lexical_util" and f.kind != "Closure" and (f.impl_self or "").startswith("lexical_util::skip::" + iterator) and (f.impl_trait or "").endswith(trait) and last_seg(f.short) == method:
            return f
    raise AnchorMissing("<%s as %s>::%s not found" % (iterator, trait, method))


def rule_peek_dispatch(col, facts):
    """PAIR-peek: the value of every arm of `match flags & MASK` decodes (with that component's own
    flag bits) to the letters of the peek_<x> macro the arm expands, `peek_1` iff no C, and `is_<x>`
    is the predicate passed on; all 15 combinations plus the no-skip arm are present."""
    if "format" not in facts.config:
        return
    R = "PAIR-peek"
    for it, (comp, _cnt, _rad) in COMPONENTS.items():
        f = find_impl_fn(facts, it, "iterator::DigitsIter", "peek")
        bits = {l: facts.const_value(FL + "%s_%s_DIGIT_SEPARATOR" % (comp, name)) for l, name in LETTERS}
        mask_name = "%s_DIGIT_SEPARATOR_FLAG_MASK" % comp
        # the dispatching switch
        sw = None
        for i, b in enumerate(f.blocks):
            t = b["t"]
            if t["k"] == "switch" and len(t["v"]) >= 10 and f.live(i):
                sw = (i, t)
        if sw is None:
            col.bad(R, it + ":dispatch", "no 15-way match on the separator flags found in peek()", f.loc())
            continue
        i, t = sw
        e = strip_casts(op_expr(f, t["d"]))
        names = [last_seg(k[1]) for k in expr_consts(e)]
        col.check(R, it + ":mask", e[0] == "bin" and e[1] == "BitAnd" and names == [mask_name] and any(c[1].endswith("digit_separator_flags") for c in expr_calls(e)),
                  "peek() dispatches on `%s` (expected digit_separator_flags() & flags::%s)" % (show(e), mask_name), f.loc(f.blocks[i]["ts"]))
        seen = set()
        for v, tgt in t["v"]:
            letters = "".join(l for l, _n in LETTERS if v & bits[l])
            rebuilt = 0
            for l in letters:
                rebuilt |= bits[l]
            if rebuilt != v:
                col.bad(R, "%s:arm(%#x)" % (it, v), "arm value is not a union of this component's I/L/T/C bits", f.loc(f.blocks[i]["ts"]))
                continue
            seen.add(letters)
            macros = arm_macros(f, tgt)
            want = "peek_" + letters if letters else "peek_noskip"
            key = "%s:%s" % (it, want)
            peeks = {m for m in macros if m.startswith("peek_") and m not in ("peek_1", "peek_n")}
            col.check(R, key, peeks == {want}, "arm for flags {%s} expands %s (expected %s!)" % (letters.upper() or "none", sorted(peeks), want), f.loc(f.blocks[tgt]["ts"]))
            if letters:
                base = "peek_n" if "c" in letters else "peek_1"
                col.check(R, key + ":base", base in macros and ("peek_1" if base == "peek_n" else "peek_n") not in macros,
                          "arm {%s} must use %s!" % (letters.upper(), base), f.loc(f.blocks[tgt]["ts"]))
                iss = {m for m in macros if m.startswith("is_") and m not in ("is_digit_separator", "is_sign", "is_skip")}
                col.check(R, key + ":pred", iss == {"is_" + letters}, "arm {%s} passes %s (expected is_%s)" % (letters.upper(), sorted(iss), letters), f.loc(f.blocks[tgt]["ts"]))
        allc = set()
        for n in range(16):
            allc.add("".join(l for k, (l, _n) in enumerate(LETTERS) if n & (1 << k)))
        allc.discard("c")   # C alone is rejected by format validation (InvalidConsecutive*)
        col.check(R, it + ":all-arms", seen == allc, "missing arms: %s, extra: %s" % (sorted(allc - seen), sorted(seen - allc)), f.loc())
    # special iterator: special_digit_separator() -> peek_iltc, else peek_noskip
    f = find_impl_fn(facts, "SpecialDigitsIterator", "iterator::DigitsIter", "peek")
    ok_t = ok_f = False
    for i, b in enumerate(f.blocks):
        if not f.live(i):
            continue
        ms = set(f.macros(b["ts"]))
        for st in b["s"]:
            ms |= set(f.macros(st[3]))
        conds = path_conditions(f, i)
        sp = [p for _d, e, p in conds if strip_casts(e)[0] == "call" and strip_casts(e)[1].endswith("special_digit_separator")]
        if "peek_iltc" in ms and sp == [True]:
            ok_t = True
        if "peek_noskip" in ms and sp == [False]:
            ok_f = True
    col.check(R, "SpecialDigitsIterator", ok_t and ok_f, "special iterator must peek_iltc! under special_digit_separator() and peek_noskip! otherwise", f.loc())


def arm_macros(f, tgt):
    """Macro names appearing in the span back-traces of the region dominated by block `tgt`."""
    out = set()
    for i, b in enumerate(f.blocks):
        if f.live(i) and f.dominates(tgt, i):
            for st in b["s"]:
                out |= set(f.macros(st[3]))
            out |= set(f.macros(b["ts"]))
    return out


def rule_components(col, facts):
    """PAIR-component: each component iterator counts into its own Bytes field, masks with its own
    flag mask, and classifies digits with the radix the parser uses for that component."""
    if "format" not in facts.config:
        return
    R = "PAIR-component"
    adt = facts.adts.get("lexical_util::skip::Bytes")
    if not adt:
        raise AnchorMissing("lexical_util::skip::Bytes")
    fields = adt[0]["fields"]
    for it, (comp, cnt, rad) in COMPONENTS.items():
        inc = find_impl_fn(facts, it, "iterator::DigitsIter", "increment_count")
        w = []
        for b in inc.blocks:
            for st in b["s"]:
                if st[0] == "=" and st[1][1]:
                    idx = [p for p in st[1][1] if isinstance(p, int)]
                    if idx:
                        w.append(fields[idx[-1]] if idx[-1] < len(fields) else idx[-1])
        col.check(R, it + ":increment_count", w == [cnt], "increment_count writes %s (expected Bytes.%s)" % (w, cnt), inc.loc())
        cur = find_impl_fn(facts, it, "iterator::Iter", "current_count")
        reads = set()
        for b in cur.blocks:
            for st in b["s"]:
                if st[0] == "=" and st[2][0] == "use" and st[2][1][0] in ("cp", "mv"):
                    idx = [p for p in st[2][1][1][1] if isinstance(p, int)]
                    if idx and idx[-1] < len(fields) and fields[idx[-1]].endswith("_count"):
                        reads.add(fields[idx[-1]])
        col.check(R, it + ":current_count", reads == {cnt}, "current_count reads %s (expected Bytes.%s)" % (sorted(reads), cnt), cur.loc())
        isd = find_impl_fn(facts, it, "iterator::DigitsIter", "is_digit")
        calls = [last_seg(callee_name(c)) for _b, c, _a, _d, _t in isd.calls() if "NumberFormat" in callee_name(c)]
        col.check(R, it + ":is_digit", calls == [rad], "is_digit classifies with format.%s() (the parser reads this component's digits in %s)" % (calls, rad), isd.loc())
        # IS_CONTIGUOUS = FORMAT & flags::<COMP>_DIGIT_SEPARATOR_FLAG_MASK == 0
        cands = [p for p in facts.consts if p.endswith("::IS_CONTIGUOUS") and it in p]
        for p in cands:
            cf = facts.const_fn(p)
            names = set()
            for b in cf.blocks:
                for st in b["s"]:
                    if st[0] == "=":
                        names |= {last_seg(k[1]) for k in expr_consts(rvalue_expr(cf, st[2], 0))}
            # (the separator character itself may also be consulted: no character, nothing to skip)
            col.check(R, it + ":IS_CONTIGUOUS", names - {"DIGIT_SEPARATOR"} == {"%s_DIGIT_SEPARATOR_FLAG_MASK" % comp}, "IS_CONTIGUOUS masks with %s" % sorted(names), cf.loc())
        col.check(R, it + ":IS_CONTIGUOUS-present", bool(cands), "IS_CONTIGUOUS const not found", "")
    # the parser: parse_digits(byte.<comp>_iter(), format.<radix>())
    pn = facts.fn("lexical_parse_float::parse::parse_number")
    pairs = set()
    for bb, c, a, d, t in pn.calls():
        if callee_name(c) == "lexical_parse_float::parse::parse_digits":
            it_e = strip_casts(op_expr(pn, a[0]))
            rad_e = strip_casts(op_expr(pn, a[1]))
            itn = [last_seg(x[1]) for x in expr_calls(it_e) if x[1].endswith(G.VIEW_CTORS)]
            radn = [last_seg(x[1]) for x in expr_calls(rad_e) if "NumberFormat" in x[1]]
            pairs.add((itn[0] if itn else "?", radn[0] if radn else "?"))
    want = {("integer_iter", "mantissa_radix"), ("fraction_iter", "mantissa_radix"), ("exponent_iter", "exponent_radix")}
    col.check(R, "parse_number:iterator-radix", pairs == want, "parse_number pairs component iterators with radices as %s" % sorted(pairs), pn.loc())


def rule_count_protocol(col, facts):
    """PROTO-count: a step over bytes that were just classified as digits is followed by
    increment_count on the same iterator (DigitsIter's documented contract), unless the fast path is
    gated on *buffer-level* contiguity (then Bytes::current_count is the cursor)."""
    R = "PROTO-count"
    n = 0
    for f in facts.all_fns():
        if f.crate not in ("lexical_parse_integer", "lexical_parse_float"):
            continue
        for bb, c, a, d, t in f.calls():
            cn = callee_name(c)
            if not cn.endswith(("Iter::step_unchecked", "Iter::step_by_unchecked")):
                continue
            conds = path_conditions(f, bb)
            digit = False
            for _d, e, pol in conds:
                e = strip_casts(e)
                if e[0] == "discr" and any(x[1].endswith(("digit::char_to_digit_const", "digit::char_to_digit")) for x in expr_calls(e)) and pol_is_variant(pol, 1):
                    digit = True
                if e[0] == "call" and e[1].endswith(("algorithm::is_4digits", "algorithm::is_8digits")) and pol is True:
                    digit = True
            if not digit and not (f.short.endswith("parse_u64_digits")):
                continue
            if f.short.endswith("parse_u64_digits"):
                digit = True
            n += 1
            recv = G.root(op_expr(f, a[0]))
            # an increment_count(recv) must follow in the region the step dominates
            found = False
            for b2, c2, a2, _d2, _t2 in f.calls():
                if b2 != bb and f.dominates(bb, b2) and callee_name(c2).endswith("DigitsIter::increment_count") and G.root(op_expr(f, a2[0])) == recv:
                    found = True
            if not found:
                # the increments may be made by a closure run in the region the step dominates
                # (`(0..4).for_each(|_| iter.increment_count())`)
                runs = any(b2 != bb and f.dominates(bb, b2) and last_seg(callee_name(c2)) in ("for_each", "fold", "try_for_each") for b2, c2, _a2, _d2, _t2 in f.calls())
                clos = any(g.kind == "Closure" and g.closure_of == f.short and any(callee_name(c3).endswith("DigitsIter::increment_count") for _b3, c3, _a3, _d3, _t3 in g.calls()) for g in facts.all_fns())
                found = runs and clos
            buffer_level = any(strip_casts(e)[0] == "kc" and "Bytes" in strip_casts(e)[1] and last_seg(strip_casts(e)[1]) == "IS_CONTIGUOUS" and p is True for _d, e, p in conds) or \
                any(strip_casts(e)[0] == "call" and strip_casts(e)[1].endswith("Bytes::is_contiguous") and p is True for _d, e, p in conds)
            base = f.short if f.kind != "Closure" else f.closure_of
            col.check(R, base, found or buffer_level,
                      "%s advances over digits without increment_count and is gated only on the component iterator's contiguity: Bytes::current_count switches on buffer-level contiguity, so digit counts are wrong when another component has separators" % last_seg(cn),
                      f.loc(f.blocks[bb]["ts"]))
    col.floor(R, "digit-consuming steps", n, 3)
    # the digit loops whose callers read current_count() afterwards: every way of consuming a byte counts
    for name in ("lexical_parse_float::parse::parse_digits", "lexical_parse_float::parse::parse_u64_digits"):
        f = facts.fn(name)
        m = 0
        for bb, c, a, d, t in f.calls():
            cn = last_seg(callee_name(c))
            if cn not in ("step_unchecked", "step_by_unchecked", "try_read", "read_if", "read_if_value", "read_if_value_cased", "read_if_value_uncased", "next"):
                continue
            if not a:
                continue
            recv = G.root(op_expr(f, a[0]))
            m += 1
            found = any(b2 != bb and f.dominates(bb, b2) and callee_name(c2).endswith("DigitsIter::increment_count") and G.root(op_expr(f, a2[0])) == recv
                        for b2, c2, a2, _d2, _t2 in f.calls())
            guarded_multi = any(strip_casts(e)[0] == "call" and (strip_casts(e)[1].endswith("Bytes::is_contiguous")) and p is True for _d, e, p in path_conditions(f, bb))
            col.check(R, "%s:%s" % (last_seg(name), cn), found or guarded_multi,
                      "%s() consumes a digit in %s without a following increment_count(): the callers compute the implicit exponent from current_count(), which is then short by the digits read here whenever the format has a digit separator" % (cn, last_seg(name)), f.loc(f.blocks[bb]["ts"]))
        col.check(R, last_seg(name) + ":consumes", m >= 1, "no digit-consuming call found in %s" % last_seg(name), f.loc())


def rule_count_gating(col, facts):
    """PROTO-count (gating): wherever counting is conditional on contiguity, the condition must be the
    *buffer's* contiguity (what Bytes::current_count switches on), never the component iterator's."""
    if "format" not in facts.config:
        return
    R = "PROTO-count"
    n = 0
    for f in facts.all_fns():
        if f.crate != "lexical_util" or "skip::" not in f.short:
            continue
        for bb, c, a, d, t in f.calls():
            if not callee_name(c).endswith("DigitsIter::increment_count"):
                continue
            for _d, e, pol in path_conditions(f, bb):
                e = strip_casts(e)
                if e[0] == "kc" and last_seg(e[1]) == "IS_CONTIGUOUS":
                    n += 1
                    args = e[3] if len(e) > 3 else ""
                    buffer_level = "skip::Bytes<" in args and "DigitsIterator" not in args.split(",")[0]
                    col.check(R, "gating:%s" % (f.short if f.kind != "Closure" else f.closure_of), buffer_level and pol is False,
                              "digits are counted only when `%s` (%s) is false: Bytes::current_count needs them whenever the *buffer* is non-contiguous" % (show(e), args), f.loc(f.blocks[bb]["ts"]))
    col.floor(R, "contiguity-gated counting sites", n, 3)


def rule_slice_iterators(col, facts):
    """PAIR-slice: the digit slices kept in Number {integer, fraction} are re-iterated in the slow
    paths with the iterator of the same component."""
    R = "PAIR-slice"
    adt = facts.adts.get("lexical_parse_float::number::Number")
    if not adt:
        raise AnchorMissing("Number struct")
    fields = adt[0]["fields"]
    want = {fields.index("integer"): "integer_iter", fields.index("fraction"): "fraction_iter"}
    n = 0
    for f in facts.all_fns():
        if f.crate != "lexical_parse_float":
            continue
        for bb, c, a, d, t in f.calls():
            cn = callee_name(c)
            if not cn.endswith(G.VIEW_CTORS):
                continue
            e = op_expr(f, a[0])
            src = number_field_of(f, e)
            if src is None:
                continue
            n += 1
            col.check(R, "%s:%s" % (f.short.replace("lexical_parse_float::", ""), fields[src]), last_seg(cn) == want[src],
                      "the `%s` digits of Number are iterated with %s() (expected %s()): the other component's separator flags would apply" % (fields[src], last_seg(cn), want[src]), f.loc(f.blocks[bb]["ts"]))
    col.floor(R, "re-iterated digit slices", n, 3)


def number_field_of(f, e, depth=0):
    """Does the receiver of a *_iter() call come from `<Number>.integer` / `.fraction`?"""
    if depth > 10 or not isinstance(e, tuple):
        return None
    if e and e[0] == "proj":
        base = strip_casts(e[1])
        if base[0] in ("arg", "var"):
            l = base[1]
            ty = f.locals[l]
            if "number::Number" in ty:
                idx = [p for p in e[2] if isinstance(p, int)]
                adt_fields = f.facts.adts["lexical_parse_float::number::Number"][0]["fields"]
                if idx and adt_fields[idx[0]] in ("integer", "fraction"):
                    return idx[0]
    for x in e:
        if isinstance(x, tuple):
            r = number_field_of(f, x, depth + 1)
            if r is not None:
                return r
    return None


class _Unknown(Exception):
    pass


def _ev_neutral(e):
    """Truth value of a byte-class predicate for a byte that is neither a digit nor a separator."""
    e = strip_casts(e)
    if e[0] == "k" and isinstance(e[1], bool):
        return e[1]
    if e[0] == "call" and last_seg(e[1]) in ("is_digit", "is_digit_separator"):
        return False
    if e[0] == "un" and e[1] == "Not":
        return not _ev_neutral(e[2])
    if e[0] == "bin" and e[1] in ("BitAnd", "BitOr"):
        a, b = _ev_neutral(e[2]), _ev_neutral(e[3])
        return (a and b) if e[1] == "BitAnd" else (a or b)
    raise _Unknown(show(e))


def neutral_value(g):
    """Value of closure g (|&x| ..is_digit(x)..is_digit_separator(x)..) for a neutral byte, read off its
    paths: the path whose tests are all consistent with is_digit = is_digit_separator = false."""
    from rules.core import enum_paths, resolve_env
    rets = {i for i, b in enumerate(g.blocks) if g.live(i) and b["t"]["k"] == "return"}
    vals = set()
    for t, atoms, env in enum_paths(g, 0, rets, want_env=True, resolve_atoms=True):
        if all(_ev_neutral(e) == p for e, p in atoms):
            r = env.get(0)
            if r is None:
                raise _Unknown("no result")
            vals.add(r[1] if r[0] == "const" else _ev_neutral(resolve_env(r[1], env)))
    if len(vals) != 1:
        raise _Unknown("ambiguous %s" % sorted(vals))
    return vals.pop()


def rule_end_of_buffer_neutral(col, facts):
    """SIB-eob: every look-around in the separator predicates has the form
    `slc.get(i).map_or(D, |&x| P(x))` with P built from is_digit / is_digit_separator.  Running off either end
    of the buffer must classify like a byte that is neither digit nor separator (sign, point, exponent
    character, junk - what the other end of a component looks like when it is *not* the end of the buffer):
    D == P(neutral).  Otherwise the same separator is accepted or rejected depending on whether the component
    happens to touch the end of the input.  (172 of the 178 sites agreed when the rule was written; the two
    deviating macro arms were genuine defects, DESIGN F14/F15.)"""
    if "format" not in facts.config:
        return
    R = "SIB-eob"
    n = 0
    for f in facts.all_fns():
        if f.crate != "lexical_util" or "::skip::" not in f.short:
            continue
        for bb, c, a, d, t in f.calls():
            if last_seg(callee_name(c)) != "map_or" or len(a) != 3 or a[1][0] != "k" or not isinstance(a[1][1].get("v"), bool):
                continue
            clo = strip_casts(op_expr(f, a[2]))
            if clo[0] != "agg" or not (isinstance(clo[1], tuple) and clo[1][0] == "closure"):
                continue
            g = facts.by_short.get(clo[1][1])
            if not g:
                continue
            try:
                v = neutral_value(g[0])
            except _Unknown as e:
                continue                  # not a byte-class predicate
            n += 1
            macs = [m for m in f.macros(f.blocks[bb]["ts"]) if m.startswith("is_") or m.startswith("peek_")]
            comp = f.short.split("::skip::")[1].split("<")[0] if "::skip::" in f.short else f.short
            key = "%s:%s" % (comp, "/".join(dict.fromkeys(macs)) or "direct")
            col.check(R, key, a[1][1]["v"] == v,
                      "`slc.get(i).map_or(%s, pred)` but pred is %s for a byte that is neither digit nor separator: at the end (start) of the input this look-around answers differently from the same component followed (preceded) by any other character, so separators are accepted where the flags do not enable them" % (str(a[1][1]["v"]).lower(), str(v).lower()),
                      f.loc(f.blocks[bb]["ts"]))
    col.floor(R, "look-around sites with a byte-class predicate", n, 150)


def rule_lookaround_kind(col, facts):
    """SIB-run: the separator predicates come in pairs - `is_x` (single separators only) and `is_xc`
    (consecutive separators enabled).  The `c` variants must classify the bytes around the *whole run*
    (look-around index carried by the run-skipping loop of indexing!(@nextc/@prevc)), the others the bytes
    directly adjacent (index = self.byte.index +- 1).  A `c` variant that looks one byte ahead calls the
    second separator of `1__2` "not a digit" (accepted as trailing); a plain variant that skips runs accepts
    consecutive separators that were never enabled."""
    if "format" not in facts.config:
        return
    R = "SIB-run"
    n = 0
    for f in facts.all_fns():
        if f.crate != "lexical_util" or "::skip::" not in f.short or not f.short.endswith("::peek"):
            continue
        comp = f.short.split("::skip::")[1].split("<")[0]
        for bb, c, a, d, t in f.calls():
            cn = callee_name(c)
            if last_seg(cn) != "get" or "slice" not in cn:
                continue
            macs = [m for m in f.macros(f.blocks[bb]["ts"]) if m.startswith("is_")]
            if not macs:
                continue
            pred = macs[0]
            e = strip_casts(op_expr(f, a[1]))
            if not (e[0] == "call" and last_seg(e[1]) in ("wrapping_add", "wrapping_sub") and len(e[2]) == 2):
                continue
            base = strip_casts(e[2][0])
            kind = "run" if base[0] == "var" else ("single" if base[0] == "proj" else "?")
            want = "run" if pred.endswith("c") else "single"
            if kind == "?" or (base[0] == "call"):
                # the look-around index is computed in another way (`end.wrapping_sub(run)` with `run` counted by an
                # iterator chain): neither of the two shapes this rule tells apart
                col.assumed("not-applied", "SIB-run:%s:%s:%s" % (comp, pred, last_seg(e[1])), "the look-around index `%s` is neither `index +- 1` nor the run-skipping loop variable: not decided" % show(e)[:80], f.loc(f.blocks[bb]["ts"]))
                n += 1
                continue
            n += 1
            col.check(R, "%s:%s:%s" % (comp, pred, last_seg(e[1])), kind == want,
                      "%s! classifies the byte at `%s`, a %s look-around, but a predicate %s consecutive separators must use a %s one" % (pred, show(e), {"run": "run-skipping", "single": "one-byte", "?": "unrecognised"}[kind], "with" if want == "run" else "without", {"run": "run-skipping (indexing!(@nextc/@prevc))", "single": "one-byte (indexing!(@next/@prev))"}[want]),
                      f.loc(f.blocks[bb]["ts"]))
    col.floor(R, "look-around index computations in peek", n, 60)


def rule_skip_zeros_unit(col, facts):
    """UNIT-count: DigitsIter::skip_zeros returns a number of *digits* (its callers subtract it from digit
    counts and compare it with 1 for the base prefix): current_count() after minus current_count() before.
    cursor() differences also count the separator bytes skipped along the way."""
    R = "UNIT-count"
    f = facts.fn("lexical_util::iterator::DigitsIter::skip_zeros")
    rets = [rv for bb, j, rv, pr in f.defs().get(0, []) if rv[0] != "call"]
    col.check(R, "skip_zeros:anchor", len(rets) == 1, "skip_zeros has %d result assignments" % len(rets), f.loc())
    if len(rets) != 1:
        return
    e = strip_casts(rvalue_expr(f, rets[0], 0))
    names = sorted(last_seg(c[1]) for c in expr_calls(e))
    col.check(R, "skip_zeros:digits", e[0] == "bin" and e[1] == "Sub" and names == ["current_count", "current_count"],
              "skip_zeros returns `%s`: not a difference of current_count() - with digit separators the result counts bytes, and the many-digits detection / base-prefix test that consume it go wrong" % show(e), f.loc())
    # the loop counts every zero it consumes
    calls = [last_seg(callee_name(c)) for _b, c, _a, _d, _t in f.calls()]
    col.check(R, "skip_zeros:increments", "increment_count" in calls, "skip_zeros consumes zeros without increment_count()", f.loc())


def rule_take_n_twins(col, facts):
    """SIB-twin (take_n): the skip and no-skip iterators both hand the integer parser a window
    `Bytes::from_parts(&slc[..end], self.cursor())` - a prefix of the *whole* buffer with the absolute cursor -
    so that every index and count the parser reports stays relative to the input.  All implementations must
    build the window the same way; a window re-based at the cursor (`&slc[cursor..end]`, index 0) makes the
    partial parser report a length that is short by the bytes before the window (the sign)."""
    from rules.c15 import _norm
    R = "SIB-twin"
    shapes = {}
    for f in facts.all_fns():
        if f.crate != "lexical_util" or not f.short.endswith("::take_n"):
            continue
        for bb, c, a, d, t in f.calls():
            if last_seg(callee_name(c)) != "from_parts":
                continue
            a0, a1 = strip_casts(op_expr(f, a[0])), strip_casts(op_expr(f, a[1]))
            rng = [x for x in expr_calls(a0) if last_seg(x[1]) in ("index", "index_mut")]
            kind = "?"
            for r in rng:
                ag = strip_casts(r[2][1])
                if ag[0] == "agg" and isinstance(ag[1], tuple):
                    kind = last_seg(ag[1][1]) if len(ag[1]) > 1 else "?"
            idx = "cursor()" if (a1[0] == "call" and last_seg(a1[1]) == "cursor") else show(a1)
            key = f.short.split("::take_n")[0].split("::")[-1].split("<")[0]
            shapes[key] = (kind, idx, f.loc(f.blocks[bb]["ts"]))
    col.check(R, "take_n:implementations", len(shapes) >= 1, "no take_n implementation with a from_parts window found", "lexical-util/src/noskip.rs")
    for key, (kind, idx, loc) in sorted(shapes.items()):
        col.check(R, "take_n:%s" % key, kind == "RangeTo" and idx == "cursor()",
                  "the window is `from_parts(&slc[%s], %s)`; its siblings (and every index the parsers report) need a prefix of the whole buffer with the absolute cursor: `from_parts(&slc[..end], self.cursor())`" % ("..end" if kind == "RangeTo" else kind, idx), loc)


def rule_window_keeps_count(col, facts):
    """PROTO-count (window): `take_n` hands the integer parser a fresh `Bytes` whose digit counters start at
    zero; the digits parsed through that window never reach the caller's `current_count()`.  That is harmless
    only when the count *is* the cursor, i.e. when the buffer (not just the component iterator) is contiguous -
    so every path to the window constructor must carry `<Bytes as Iter>::IS_CONTIGUOUS == true`.  Otherwise a
    format with separators in another component reports `Empty` for "12a" (u8) or "12h" with a base suffix,
    which its separator-free counterpart parses."""
    if "format" not in facts.config:
        return
    R = "PROTO-count"
    n = 0
    for f in facts.all_fns():
        if f.crate != "lexical_util" or "skip::" not in f.short or not f.short.endswith("::take_n"):
            continue
        tg = {bb for bb, c, a, d, t in f.calls() if last_seg(callee_name(c)) == "from_parts"}
        for t, atoms in enum_paths(f, 0, tg):
            n += 1
            ok = False
            for e, pol in atoms:
                e = strip_casts(e)
                if e[0] == "kc" and last_seg(e[1]) == "IS_CONTIGUOUS" and pol is True:
                    args = e[3] if len(e) > 3 else ""
                    if "skip::Bytes<" in args and "DigitsIterator" not in args.split(",")[0]:
                        ok = True
            key = f.short.split("::take_n")[0].split("::")[-1]
            col.check(R, "window:%s" % key, ok,
                      "a zero-count window (`Bytes::from_parts`) is handed out without knowing that the buffer is contiguous (only the component iterator's IS_CONTIGUOUS is tested): digits parsed through it are missing from the caller's current_count(), so e.g. `12a` as u8 is reported Empty by a format with separators in another component", f.loc(f.blocks[t]["ts"]))
    col.floor(R, "take_n window paths", n, 3)


def rule_contiguity_consistent(col, facts):
    """PROTO-contiguous: `Bytes::IS_CONTIGUOUS` (no separator *character*) selects how digits are counted
    (`current_count` = cursor, `next()` does not count); a component iterator's IS_CONTIGUOUS (no separator
    *flag* for that component) selects whether that count is read from the cursor or from the component's
    counter.  The two agree only if a contiguous buffer implies contiguous iterators: with a separator flag but
    no separator character the iterator reads a counter nobody increments, and every integer is `Empty`.
    The initialisers are read as decision tables over (flag bits of the component set?, character set?)."""
    if "format" not in facts.config:
        return
    from rules.core import Fn, resolve_env, simplify_proj
    R = "PROTO-contiguous"
    consts = {}
    for c in facts.const_items:
        if last_seg(c["path"]) == "IS_CONTIGUOUS" and "skip::" in c.get("impl_self", "") and "mir" in c:
            consts[c["impl_self"].split("<")[0].split("::")[-1]] = c

    def ev(e, flags, sep):
        e = strip_casts(simplify_proj(e))
        if e[0] == "k":
            return int(e[1]) if isinstance(e[1], (int, bool)) else None
        if e[0] == "kc":
            if last_seg(e[1]) == "DIGIT_SEPARATOR":
                return sep
            return None
        if e[0] == "call" and last_seg(e[1]) == "digit_separator":
            return sep
        if e[0] == "bin" and e[1] == "BitAnd":
            names = show(e)
            if "DIGIT_SEPARATOR" in names:      # FORMAT & <component mask>
                return flags
            return None
        if e[0] == "bin" and e[1] in ("Eq", "Ne"):
            a, b = ev(e[2], flags, sep), ev(e[3], flags, sep)
            if a is None or b is None:
                return None
            return int((a == b) == (e[1] == "Eq"))
        if e[0] == "un" and e[1] == "Not":
            a = ev(e[2], flags, sep)
            return None if a is None else int(not a)
        return None

    def table(c):
        f = Fn(c, c["_crate"], facts)
        rets = {i for i, b in enumerate(f.blocks) if f.live(i) and b["t"]["k"] == "return"}
        paths = list(enum_paths(f, 0, rets, want_env=True, resolve_atoms=True))
        out = {}
        for flags in (0, 1):
            for sep in (0, 95):
                val = None
                for t, atoms, env in paths:
                    ok = True
                    for a, p in atoms:
                        v = ev(a, flags, sep)
                        if v is None:
                            raise AnchorMissing("IS_CONTIGUOUS initialiser outside the template: %s" % show(a)[:80])
                        if isinstance(p, bool) and bool(v) != p:
                            ok = False
                    if ok:
                        r = env.get(0)
                        val = (int(r[1]) if r[0] == "const" else ev(resolve_env(r[1], env), flags, sep))
                if val is None:
                    raise AnchorMissing("IS_CONTIGUOUS initialiser could not be evaluated")
                out[(flags, sep)] = val
        return out
    col.check(R, "Bytes:IS_CONTIGUOUS", "Bytes" in consts, "Bytes::IS_CONTIGUOUS not found", "lexical-util/src/skip.rs")
    if "Bytes" not in consts:
        return
    tb = table(consts["Bytes"])
    n = 0
    for name in ("IntegerDigitsIterator", "FractionDigitsIterator", "ExponentDigitsIterator"):
        if name not in consts:
            col.bad(R, "%s:IS_CONTIGUOUS" % name, "initialiser not found", "lexical-util/src/skip.rs")
            continue
        ti = table(consts[name])
        n += 1
        bad = [k for k in tb if tb[k] == 1 and ti[k] == 0]
        col.check(R, "%s:contiguous-when-buffer-is" % name, not bad,
                  "for (component separator flag set, separator character) = %s the buffer is contiguous (digits are not counted) but the iterator is not (it reads the digit counter): every input is reported Empty by the integer parser" % [("set" if a else "clear", "none" if b == 0 else "'_'") for a, b in bad], facts.const_loc(consts[name]["path"]))
    col.floor(R, "component iterators compared with the buffer", n, 3)


def rule_run_skip_bound(col, facts):
    """SIB-run (bound): the consecutive-separator look-around skips a whole run with `while index < buffer.len() &&
    is_separator(buffer[index])`.  All of these loops (22 expansions) compare the index itself with the length;
    `index + 1 < len` stops one byte early, so a run that ends the buffer keeps its last separator as an
    "invalid digit" while the same run followed by another byte is skipped - the partial parser then reports a
    prefix the complete parser rejects."""
    if "format" not in facts.config:
        return
    R = "SIB-run"
    n = 0
    bad = 0
    where = "lexical-util/src/skip.rs"
    for f in facts.all_fns():
        if f.crate != "lexical_util" or "skip::" not in f.short:
            continue
        for i, b in enumerate(f.blocks):
            if not f.live(i) or b["t"]["k"] != "switch":
                continue
            e = strip_casts(op_expr(f, b["t"]["d"]))
            if e[0] == "bin" and e[1] in ("Lt", "Le", "Gt", "Ge") and any(last_seg(c[1]) == "get_buffer" for c in expr_calls(e)) and any(last_seg(c[1]) == "len" for c in expr_calls(e)):
                n += 1
                lhs = strip_casts(e[2])
                if not (e[1] == "Lt" and lhs[0] in ("var", "arg")):
                    bad += 1
                    where = f.loc(b["ts"])
    col.check(R, "peek_n:loop-bound", bad == 0,
              "%d of %d run-skipping loops do not compare the bare index with the buffer length (`index + 1 < len` stops one separator short of the end of the buffer)" % (bad, n), where)
    if n == 0:
        # no explicit comparison with the length at all: the run-skipping loops are written with `slc.get(i)`
        # (bounded by construction) - nothing for this rule to decide
        col.assumed("not-applied", "SIB-run:loop-bound", "the run-skipping loops do not compare an index with the buffer length (bounded `get`): loop-bound rule has nothing to decide")
        return
    col.floor(R, "run-skipping loop bounds", n, 20)


def _ev_class(e, cls):
    """Truth value of a byte-class predicate for a byte of class `cls` (digit / sep / neutral)."""
    e = strip_casts(e)
    if e[0] == "k" and isinstance(e[1], bool):
        return e[1]
    if e[0] == "call" and last_seg(e[1]) == "is_digit":
        return cls == "digit"
    if e[0] == "call" and last_seg(e[1]) == "is_digit_separator":
        return cls == "sep"
    if e[0] == "un" and e[1] == "Not":
        return not _ev_class(e[2], cls)
    if e[0] == "bin" and e[1] in ("BitAnd", "BitOr"):
        a, b = _ev_class(e[2], cls), _ev_class(e[3], cls)
        return (a and b) if e[1] == "BitAnd" else (a or b)
    raise _Unknown(show(e))


def class_value(g, cls):
    """Value of the closure g (|&x| ..is_digit(x)..is_digit_separator(x)..) for a byte of class `cls`."""
    from rules.core import resolve_env
    rets = {i for i, b in enumerate(g.blocks) if g.live(i) and b["t"]["k"] == "return"}
    vals = set()
    for t, atoms, env in enum_paths(g, 0, rets, want_env=True, resolve_atoms=True):
        if all(_ev_class(e, cls) == p for e, p in atoms):
            r = env.get(0)
            if r is None:
                raise _Unknown("no result")
            vals.add(r[1] if r[0] == "const" else _ev_class(resolve_env(r[1], env), cls))
    if len(vals) != 1:
        raise _Unknown("ambiguous %s" % sorted(vals))
    return vals.pop()


def rule_single_never_splits_run(col, facts):
    """SIB-run (single): in the arms of peek() for flag sets *without* C (peek_1!), the cursor is moved over a
    separator only on paths whose look-around tests exclude "the next byte is a separator".  Otherwise the first separator
    of a run that the flags do not enable is consumed and the cursor is left between two separators
    (fraction flags I|L: partial "1.__5" consumed 3 bytes, with L or I|L|T 2).  The siblings is_l / is_lt /
    is_ilt test it; the rule evaluates every path to the skip over the 4 x 4 classes (digit, separator, other
    byte, end of buffer) of the two neighbours."""
    if "format" not in facts.config:
        return
    from rules.core import ShapeUnknown
    R = "SIB-run"
    CL = ("digit", "sep", "neutral", "eob")
    n = 0
    for it in COMPONENTS:
        f = find_impl_fn(facts, it, "iterator::DigitsIter", "peek")
        sw = None
        for i, b in enumerate(f.blocks):
            t = b["t"]
            if t["k"] == "switch" and len(t["v"]) >= 10 and f.live(i):
                sw = (i, t)
        if sw is None:
            raise ShapeUnknown("no 15-way match on the separator flags in %s::peek" % it)
        bits = {l: facts.const_value(FL + "%s_%s_DIGIT_SEPARATOR" % (COMPONENTS[it][0], name)) for l, name in LETTERS}
        cache = {}
        for v, tgt in sw[1]["v"]:
            letters = "".join(l for l, _n in LETTERS if v & bits[l])
            if not letters or "c" in letters:
                continue
            skips = {bb for bb, c, a, d, tt in f.calls() if last_seg(callee_name(c)) in ("set_cursor", "step_unchecked", "step_by_unchecked") and f.dominates(tgt, bb)}
            if not skips:
                raise ShapeUnknown("%s::peek arm {%s}: no cursor move found" % (it, letters.upper()))
            for tb, atoms, env in enum_paths(f, tgt, skips, want_env=True, resolve_atoms=True):
                cons = []      # (side, default, closure fn, polarity)
                first = None
                for e, p in atoms:
                    e = strip_casts(e)
                    if isinstance(p, bool) and e[0] == "bin" and e[1] in ("Eq", "Ne") and any(last_seg(c[1]) == "current_count" for c in expr_calls(e)):
                        first = p if e[1] == "Eq" else (not p)
                        continue
                    if e[0] == "call" and last_seg(e[1]) == "map_or" and len(e[2]) == 3:
                        g0 = strip_casts(e[2][0])
                        side = None
                        for c in expr_calls(g0):
                            if last_seg(c[1]) == "wrapping_add":
                                side = "next"
                            elif last_seg(c[1]) == "wrapping_sub":
                                side = "prev"
                        dflt = strip_casts(e[2][1])
                        clo = strip_casts(e[2][2])
                        if side and dflt[0] == "k" and isinstance(dflt[1], bool) and clo[0] == "agg" and isinstance(clo[1], tuple) and clo[1][0] == "closure" and clo[1][1] in facts.by_short:
                            cons.append((side, dflt[1], clo[1][1], p))
                            continue
                        raise ShapeUnknown("%s::peek arm {%s}: look-around `%s` not recognised" % (it, letters.upper(), show(e)[:80]))
                    s = show(e)
                    if "get(" in s and "cursor(" not in s and "branch(get" not in s:
                        raise ShapeUnknown("%s::peek arm {%s}: look-around `%s` not recognised" % (it, letters.upper(), s[:80]))
                def val(g, cls, dflt):
                    if cls == "eob":
                        return dflt
                    if (g, cls) not in cache:
                        try:
                            cache[(g, cls)] = class_value(facts.by_short[g][0], cls)
                        except _Unknown as ex:
                            raise ShapeUnknown("look-around closure %s: %s" % (g, ex))
                    return cache[(g, cls)]
                bad = []
                for pc in CL:
                    for nc in CL:
                        if all(val(g, pc if side == "prev" else nc, dflt) == p for side, dflt, g, p in cons):
                            # (a separator *before* an unskipped first separator cannot be reached: it would have
                            # had this one as its `next`; only some siblings test it, so it is not demanded)
                            if nc == "sep":
                                bad.append((pc, nc))
                n += 1
                col.check(R, "%s:is_%s:%s:single" % (it, letters, "first" if first else ("internal" if first is False else "any")), not bad,
                          "peek() for flags {%s} moves the cursor over a separator with neighbours (previous, next) = %s: the first separator of a run is consumed although consecutive separators are not enabled (partial `1.__5` stops between the two separators)" % (letters.upper(), bad[:3]),
                          f.loc(f.blocks[tb]["ts"]))
    col.floor(R, "skip paths of single-separator arms", n, 30)
