"""C10 — parsers are total and read only inside the slice: the out-of-bounds clause (DESIGN §4)."""
import collections

from rules import grd as G
from rules import fmt as F
from rules import extra as X
from rules import sep as SEP
from rules.core import guarded, guarded_soft, callee_name, last_seg, strip_generics

INFO = {
    "explanation": "Every call to an unsafe function in lexical-util's iterators, lexical-parse-integer and lexical-parse-float is classified: discharged by a guard that dominates it on the same object with no cursor/length mutation in between (step_unchecked, step_by_unchecked(N), peek_many_unchecked::<V>, set_cursor with its three index idioms, the StackVec/ReverseView primitives), forwarded from inside an unsafe fn, or a named contract/assumed site; anything else is a violation. Writers of Bytes.index and StackVec.length are inventoried; every explicit panic site reachable from a parse entry point is compared with a reasoned table; the format is validated before every back-end call.",
    "not_decided": "absence of arithmetic-overflow / bounds-check panics, termination, and the numerically justified get_unchecked(..b_digits) sites (reported as assumed)",
    "assumptions": ["rustc's MIR builder and callee resolution", "the unsafe-trait contract of Iter (cursor <= len) for `as_slice`"],
}

PARSE_CRATES = ("lexical_util", "lexical_parse_integer", "lexical_parse_float")
HANDLED = ("Iter::step_unchecked", "Iter::step_by_unchecked", "Iter::peek_many_unchecked", "Iter::set_cursor",
           "bigint::StackVec::push_unchecked", "bigint::StackVec::pop_unchecked", "bigint::StackVec::extend_unchecked",
           "bigint::StackVec::resize_unchecked", "bigint::ReverseView::get_unchecked", "bigint::nonzero")

CONTRACTS = dict(G.ASSUMED_SITES)
CONTRACTS.update({
    ("::take_n", "Bytes::from_parts"): "from_parts(&slc[..end], cursor) with end = min(len, n + cursor) >= cursor (checked slicing precedes it); cursor <= len is the Iter contract",
    ("StackVec<SIZE> as core::ops::deref::Deref>::deref", "slice::raw::from_raw_parts"): "from_raw_parts(data, self.len()): length <= capacity and initialised prefix are StackVec's invariant (WHO-length, GRD-stackvec)",
    ("StackVec<SIZE> as core::ops::deref::DerefMut>::deref_mut", "slice::raw::from_raw_parts_mut"): "as Deref",
    ("bigint::shl_limbs", "ptr::mut_ptr::add"): "checked by GRD-stackvec",
    ("bigint::shl_limbs", "ptr::copy"): "checked by GRD-stackvec",
    ("bigint::shl_limbs", "ptr::write_bytes"): "checked by GRD-stackvec",
    ("bigint::shl_limbs", "StackVec::set_len"): "checked by GRD-stackvec",
    ("bigint::large_mul", "slice::get_unchecked"): "checked by GRD-stackvec",
})

# the bundled musl libm port (only compiled without `std`): not lexical's parsing logic
for _fn, _cs, _why in (
        ("libm::powd", "slice::get_unchecked", "bundled musl libm port: two-entry tables indexed by k in {0, 1} (value range)"),
        ("libm::powf", "slice::get_unchecked", "bundled musl libm port: two-entry tables indexed by k in {0, 1} (value range)"),
        ("libm::sqrtd", "sse2::_mm_set_sd", "SSE2 intrinsic, always available on x86_64"),
        ("libm::sqrtd", "sse2::_mm_sqrt_pd", "SSE2 intrinsic, always available on x86_64"),
        ("libm::sqrtd", "sse2::_mm_cvtsd_f64", "SSE2 intrinsic, always available on x86_64"),
        ("libm::sqrtf", "sse::_mm_set_ss", "SSE intrinsic, always available on x86_64"),
        ("libm::sqrtf", "sse::_mm_sqrt_ss", "SSE intrinsic, always available on x86_64"),
        ("libm::sqrtf", "sse::_mm_cvtss_f32", "SSE intrinsic, always available on x86_64"),
        ("libm::floord", "ptr::read_volatile", "force_eval!: volatile read of a local"),
        ("libm::floorf", "ptr::read_volatile", "force_eval!: volatile read of a local")):
    CONTRACTS[(_fn, _cs)] = _why

# explicit panic sites reachable from a parse entry point: (function suffix, kind) -> (max count, reason)
PANICS = {
    ("MulAssign<&[u64]>>::mul_assign", "unwrap"): (1, "large_mul overflow of a Bigfloat: operands bounded by BIGFLOAT_BITS"),
    ("DigitsIter<'a>>::peek", "unreachable"): (1, "15 flag combinations are matched exhaustively (PAIR-peek, C13)"),
    ("bigint::StackVec::from_u16", "assert"): (1, "1 <= capacity: SIZE is a positive const"),
    ("bigint::StackVec::from_u32", "assert"): (1, "1 <= capacity: SIZE is a positive const"),
    ("bigint::StackVec::from_u64", "assert"): (1, "2 <= capacity: SIZE is a positive const"),
    ("bigint::large_quorem", "assert"): (2, "divisor non-empty / same length: caller invariants in byte_comp"),
    ("parse::parse_number", "unwrap"): (1, "fraction_digits.unwrap(): >19 digits and step != 0 imply a fraction was seen"),
    ("shared::starts_with_uncased", "unwrap"): (1, "yi.unwrap() under the preceding is_some test"),
    ("slow::byte_comp", "unwrap"): (5, "big-integer capacity: bounded by BIGINT_BITS (TBL-limits)"),
    ("slow::compare_bytes", "unwrap"): (4, "big-integer capacity: bounded by BIGINT_BITS (TBL-limits)"),
    ("slow::negative_digit_comp", "unwrap"): (4, "big-integer capacity: bounded by BIGINT_BITS (TBL-limits)"),
    ("slow::positive_digit_comp", "unwrap"): (1, "big-integer capacity: bounded by BIGINT_BITS (TBL-limits)"),
    ("slow::parse_mantissa", "unwrap"): (22, "big-integer capacity: at most max_digits+1 digits are accumulated (TBL-limits)"),
    ("slow::slow_radix", "unwrap"): (1, "max_digits(radix).unwrap(): slow_radix is only reached for radices with Some(..) (TBL-limits)"),
    ("::get_small_f32_power", "unreachable"): (1, "radix validated by is_valid_radix (KEY-constraints)"),
    ("::get_small_f64_power", "unreachable"): (1, "radix validated by is_valid_radix (KEY-constraints)"),
    ("::get_small_int_power", "unreachable"): (1, "radix validated by is_valid_radix (KEY-constraints)"),
    ("iterator::Iter::peek_many_unchecked", "unimplemented"): (1, "default body of an unsafe trait method that every impl overrides"),
    ("Iter<'a>>::step_by_unchecked", "assert"): (1, "assert!(Self::IS_CONTIGUOUS): constant true for the no-skip Bytes"),
    ("Iter<'a>>::peek_many_unchecked", "assert"): (1, "assert!(Self::IS_CONTIGUOUS)"),
}


def reachable_from_entries(facts):
    entries = [f for f in facts.all_fns() if f.crate in ("lexical_parse_integer", "lexical_parse_float")
               and (f.impl_trait or "").endswith(("::FromLexical", "::FromLexicalWithOptions"))]
    by_tm = collections.defaultdict(list)
    closures = collections.defaultdict(list)
    for f in facts.all_fns():
        if f.impl_trait:
            by_tm[(f.impl_trait, last_seg(f.short))].append(f)
        if f.kind == "Closure":
            closures[f.closure_of].append(f)
    seen = {}
    todo = list(entries)
    while todo:
        f = todo.pop()
        if f.dp in seen:
            continue
        seen[f.dp] = f
        for bb, c, a, d, t in f.calls():
            n = callee_name(c)
            tg = []
            if "resolved" in c:
                tg = facts.by_short.get(strip_generics(c["resolved"]), [])
            if not tg:
                tg = facts.by_short.get(n, [])
            if c.get("trait") and "resolved" not in c:
                tg = list(tg) + by_tm.get((c["trait"], last_seg(n)), [])
            for g in tg:
                if g.dp not in seen:
                    todo.append(g)
        for g in closures.get(f.short, []):
            if g.dp not in seen:
                todo.append(g)
    return entries, seen


def rule_panic_inventory(col, facts):
    R = "WHO-panic"
    entries, seen = reachable_from_entries(facts)
    col.floor(R, "parse entry points", len(entries), 14 * 2)
    col.floor(R, "functions reachable from parse entry points", len(seen), 300)
    cnt = collections.Counter()
    where = {}
    for f in seen.values():
        for bb, c, a, d, t in f.calls():
            n = callee_name(c)
            if n.startswith("core::panicking") or n.endswith(("Option::unwrap", "Option::expect", "Result::unwrap", "Result::expect", "unwrap_failed", "expect_failed")):
                m = f.macros(f.blocks[bb]["ts"])
                if any(x.startswith("debug_assert") for x in m):
                    kind = "debug_assert"
                elif any(x.startswith("assert") for x in m):
                    kind = "assert"
                elif "unreachable" in m:
                    kind = "unreachable"
                elif "unimplemented" in m:
                    kind = "unimplemented"
                elif "panic" in m:
                    kind = "panic"
                else:
                    kind = last_seg(n).replace("_failed", "")
                base = f.short if f.kind != "Closure" else f.closure_of
                cnt[(base, kind)] += 1
                where[(base, kind)] = f.loc(f.blocks[bb]["ts"])
    n_dbg = 0
    for (base, kind), k in sorted(cnt.items()):
        if kind == "debug_assert":
            n_dbg += k
            continue
        hit = None
        for (fs, kd), (mx, why) in PANICS.items():
            if base.endswith(fs) and kd == kind:
                hit = (mx, why)
        if hit is None:
            col.bad(R, "%s:%s" % (base, kind), "%d explicit `%s` site(s) reachable from a parse entry point that the reasoned table does not list" % (k, kind), where[(base, kind)])
        else:
            col.check(R, "%s:%s" % (base, kind), k <= hit[0], "%d `%s` sites, the table justifies %d (%s)" % (k, kind, hit[0], hit[1]), where[(base, kind)])
    col.note("%s: %d debug_assert! sites reachable from parse entry points (release builds compile them out; not decided for debug builds)" % (facts.config, n_dbg))


def rule_lookaround_arithmetic(col, facts):
    """GRD-wrap: the digit-separator look-around computes the neighbours of the cursor (`index - 1`, the start of a
    run of separators) when the cursor may be 0: in a build with overflow checks a plain subtraction there panics
    on an input that *starts* with the separator (`_1`), while release builds wrap and `slc.get(usize::MAX)` is
    None.  Every subtraction in lexical_util::skip reachable from a parse entry point must therefore be wrapping
    (no overflow assertion in the MIR) or be dominated by a comparison of its own left operand."""
    if "format" not in facts.config:
        return
    from rules.core import path_conditions, strip_casts, op_expr, show
    R = "GRD-wrap"
    entries, seen = reachable_from_entries(facts)
    n = 0
    for f in seen.values():
        if f.crate != "lexical_util" or "::skip::" not in f.short:
            continue
        n += 1
        k = 0
        for i, b in enumerate(f.blocks):
            t = b["t"]
            if not f.live(i) or t["k"] != "assert" or not str(t.get("msg", "")).startswith("Overflow"):
                continue
            e = strip_casts(op_expr(f, t["c"]))
            while e[0] == "proj" and len(e) > 1 and isinstance(e[1], tuple):
                e = strip_casts(e[1])
            if not (e[0] == "bin" and e[1] == "Sub"):
                continue
            lhs = show(strip_casts(e[2]))
            guarded_ = any(lhs in show(c) and strip_casts(c)[0] == "bin" and strip_casts(c)[1] in ("Gt", "Ge", "Lt", "Le", "Ne", "Eq") for _d, c, _p in path_conditions(f, i))
            k += 1
            base = f.short if f.kind != "Closure" else f.closure_of
            col.check(R, "%s:sub#%d" % (base, k), guarded_,
                      "`%s` is an overflow-checked subtraction in the separator look-around with no dominating comparison of `%s`: when the cursor is 0 (input starts with the separator) debug builds panic instead of returning Ok/Err" % (show(e)[:80], lhs[:40]),
                      f.loc(b["ts"]))
    col.floor(R, "skip-iterator functions reachable from parse entry points", n, 20)


def rule_index_writers(col, facts):
    """WHO-index: Bytes.index is assigned only by constructors, set_cursor and step_by_unchecked*."""
    R = "WHO-index"
    n = 0
    for mod in ("lexical_util::skip::Bytes", "lexical_util::noskip::Bytes"):
        adt = facts.adts.get(mod)
        if not adt or "index" not in adt[0]["fields"]:
            continue
        li = adt[0]["fields"].index("index")
        for f in facts.all_fns():
            if f.crate != "lexical_util":
                continue
            for b in f.blocks:
                for st in b["s"]:
                    if st[0] == "=" and st[1][1] and isinstance(st[1][1][-1], int) and st[1][1][-1] == li and "Bytes<" in f.locals[st[1][0]] and mod.rsplit("::", 2)[1] in f.locals[st[1][0]]:
                        n += 1
                        ok = last_seg(f.short) in ("set_cursor", "step_by_unchecked_impl", "step_by_unchecked", "new", "from_parts")
                        if last_seg(f.short) == "next":
                            # `let v = self.peek()?` / `slc.get(index)?` then `index += 1`
                            from rules.core import path_conditions, strip_casts
                            bbi = f.blocks.index(b)
                            ok = False
                            for _d, e, pol in path_conditions(f, bbi):
                                e = strip_casts(e)
                                if e[0] == "discr":
                                    inner, tried = G.unwrap_try(strip_casts(e[1]))
                                    if inner[0] == "call" and inner[1].endswith(("DigitsIter::peek", "::get")) and G.pol_is_variant(pol, 0 if tried else 1):
                                        ok = True
                        col.check(R, f.short, ok, "Bytes.index is written in %s: only constructors, set_cursor and step_by_unchecked* may move the cursor" % f.short, f.loc(st[3]))
    col.floor(R, "writers of Bytes.index", n, 2)


def run(col, configs, tier):
    for name, facts in configs.items():
        col.set_config(name)
        def steps(col, facts):
            n = G.rule_iter_steps(col, facts, PARSE_CRATES)
            col.floor("GRD-step", "step_unchecked/step_by_unchecked sites", n, 20)
        def cursors(col, facts):
            n = G.rule_set_cursor(col, facts)
            col.floor("GRD-cursor", "set_cursor sites", n, 2 if "format" not in facts.config else 45)
        def inventory(col, facts):
            n = G.rule_unsafe_inventory(col, facts, PARSE_CRATES, HANDLED, CONTRACTS)
            col.floor("WHO-unsafe", "unsafe call sites inventoried", n, 60)
        guarded(col, steps, facts)
        guarded(col, G.rule_step_content, facts, PARSE_CRATES)
        guarded(col, G.rule_peek_many, facts)
        guarded(col, cursors, facts)
        guarded(col, G.rule_stackvec, facts)
        guarded(col, inventory, facts)
        guarded(col, rule_index_writers, facts)
        guarded(col, rule_panic_inventory, facts)
        guarded_soft(col, rule_lookaround_arithmetic, facts)
        guarded_soft(col, X.rule_bigfloat_bits, facts)
        guarded_soft(col, X.rule_binary_factor, facts)
        guarded_soft(col, X.rule_slice_length_pairing, facts)
        guarded_soft(col, X.rule_power_index_guards, facts)
        guarded_soft(col, X.rule_unchecked_window, facts)
        guarded_soft(col, X.rule_take_n_window_size, facts)
        guarded_soft(col, X.rule_lossy_marker, facts)
        guarded_soft(col, X.rule_lossy_independent_shortcuts, facts)
        # the `_ => unreachable!()` arm of every peek dispatch is unreachable only if all 16 flag combinations are arms
        guarded(col, SEP.rule_peek_dispatch, facts)
        guarded_soft(col, X.rule_exponent_bound, facts)
        guarded(col, F.rule_entry_validation, facts)
