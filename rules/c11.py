"""C11 — partial and complete parsers agree: sibling agreement (DESIGN §4)."""
from rules import sib as S
from rules.core import guarded, guarded_soft
from rules import extra as X

INFO = {
    "explanation": "parse_complete/parse_partial and fast_path_complete/fast_path_partial are shown to have equal normalised instruction multisets under the declared substitution (complete callees -> partial callees; the partial variant additionally pairs each result with a count); parse_complete_number and parse_special are the partial result plus a `count == length` test; IS_PARTIAL only selects between two errors; the two integer algorithms expand the same algorithm! macro and differ only inside the handler macros.",
    "not_decided": "the relation over all inputs (e.g. that the partial parser's consumed prefix re-parses)",
    "assumptions": ["rustc's MIR builder and macro back-traces"],
}


def run(col, configs, tier):
    for name, facts in configs.items():
        col.set_config(name)
        guarded(col, S.rule_float_siblings, facts)
        guarded(col, S.rule_integer_siblings, facts)
        guarded_soft(col, X.rule_complete_special_returns, facts)
        guarded_soft(col, X.rule_ok_requires_digits, facts)
        from rules import sep
        guarded(col, sep.rule_components, facts)
        guarded(col, sep.rule_peek_dispatch, facts)
        guarded(col, sep.rule_end_of_buffer_neutral, facts)
        guarded(col, sep.rule_lookaround_kind, facts)
        guarded(col, sep.rule_run_skip_bound, facts)
        guarded(col, sep.rule_take_n_twins, facts)
        guarded(col, sep.rule_window_keeps_count, facts)
        guarded_soft(col, X.rule_suffix_step, facts)
        guarded_soft(col, X.rule_sign_needs_digit, facts)
        guarded_soft(col, X.rule_partial_count_is_position, facts)
