"""Pipeline-shape rules for the float parser (C01, C05): slow-path fallback, Eisel-Lemire truncation
handling, unit consistency of the Bellerophon error counter, and the same-base belief of the fast path."""
from rules.core import (path_conditions, reach_alternatives, op_expr, rvalue_expr, show, strip_casts, expr_calls, expr_consts,
                        callee_name, last_seg, pol_is_variant, AnchorMissing)

PF = "lexical_parse_float::"


def reach_avoiding(f, start, avoid):
    seen = set()
    todo = [start]
    while todo:
        x = todo.pop()
        if x in seen or x in avoid:
            continue
        seen.add(x)
        todo.extend(f.succ()[x])
    return seen


def rule_slow_fallback(col, facts):
    """MPT-slow: the moderate path's 'could not decide' marker (negative biased exponent) always
    leads through `fp.exp -= INVALID_FP; slow_path(num, fp)` before the float is materialised."""
    R = "MPT-slow"
    for name in ("parse::parse_complete", "parse::parse_partial"):
        f = facts.fn(PF + name)
        mod = [(bb, d) for bb, c, a, d, t in f.calls() if callee_name(c) == PF + "parse::moderate_path"]
        slow = [bb for bb, c, a, d, t in f.calls() if callee_name(c) == PF + "parse::slow_path"]
        conv = [bb for bb, c, a, d, t in f.calls() if callee_name(c) == PF + "float::extended_to_float"]
        key = last_seg(name)
        if len(mod) != 1 or len(slow) != 1 or len(conv) < 1:
            col.bad(R, key + ":shape", "expected one moderate_path, one slow_path and an extended_to_float call (found %d/%d/%d)" % (len(mod), len(slow), len(conv)), f.loc())
            continue
        # the test: switch on (fp.exp < 0) where fp is the moderate_path result
        test = None
        for i, b in enumerate(f.blocks):
            t = b["t"]
            if t["k"] == "switch" and f.live(i):
                e = strip_casts(op_expr(f, t["d"]))
                if e[0] == "bin" and e[1] == "Lt" and strip_casts(e[3]) == ("k", 0) and f.dominates(mod[0][0], i):
                    lhs = strip_casts(e[2])
                    if lhs[0] == "proj" and strip_casts(lhs[1])[0] in ("var", "call"):
                        test = (i, t)
        if test is None:
            col.bad(R, key + ":test", "no `fp.exp < 0` test on the moderate path's result", f.loc())
            continue
        i, t = test
        true_tgt = t["else"] if t["v"] and t["v"][0][0] == 0 else None
        false_tgt = t["v"][0][1] if t["v"] and t["v"][0][0] == 0 else None
        col.check(R, key + ":test-dominates-conversion", all(f.dominates(i, c) for c in conv), "extended_to_float can be reached without passing the `fp.exp < 0` test", f.loc(f.blocks[i]["ts"]))
        if true_tgt is not None:
            leak = [c for c in conv if c in reach_avoiding(f, true_tgt, {slow[0]})]
            col.check(R, key + ":invalid-marker-goes-slow", not leak, "from the `fp.exp < 0` edge the float can be materialised without calling slow_path", f.loc(f.blocks[i]["ts"]))
            # un-biasing happens between the test and slow_path
            unbias = False
            for b2 in reach_avoiding(f, true_tgt, {slow[0]}) | {slow[0]}:
                for st in f.blocks[b2]["s"]:
                    if st[0] == "=" and st[2][0] == "bin" and st[2][1].startswith("Sub") and any(last_seg(k[1]) == "INVALID_FP" for k in expr_consts(rvalue_expr(f, st[2], 0))):
                        unbias = True
            col.check(R, key + ":unbias", unbias, "the INVALID_FP bias is not subtracted before slow_path", f.loc(f.blocks[slow[0]]["ts"]))
        # slow_path gets the same num and the (un-biased) fp
        col.check(R, key + ":slow-under-test", any(strip_casts(e)[0] == "bin" and strip_casts(e)[1] == "Lt" and p is True for _d, e, p in path_conditions(f, slow[0])),
                  "slow_path is not confined to the `fp.exp < 0` edge", f.loc(f.blocks[slow[0]]["ts"]))


def rule_lemire_truncation(col, facts):
    """MPT-lemire: with truncated digits the result is recomputed with mantissa+1 and, if the two
    disagree, replaced by the error marker (compute_error) that sends the input to the slow path."""
    if facts.config.startswith("compact"):
        return
    R = "MPT-lemire"
    f = facts.fn(PF + "lemire::lemire")
    calls = [(bb, callee_name(c), [strip_casts(op_expr(f, x)) for x in a]) for bb, c, a, d, t in f.calls()]
    cf = [x for x in calls if x[1] == PF + "lemire::compute_float"]
    ce = [x for x in calls if x[1] == PF + "lemire::compute_error"]
    plus1 = [x for x in cf if x[2][1][0] == "bin" and x[2][1][1] == "Add" and strip_casts(x[2][1][3]) == ("k", 1)]
    col.check(R, "recompute-with-mantissa+1", len(plus1) == 1 and plus1[0][2][2] == ("k", False),
              "lemire() no longer re-evaluates compute_float(q, w+1, lossy=false) for truncated mantissas", f.loc())
    ok = False
    for bb, _n, args in ce:
        conds = path_conditions(f, bb)
        many = any(strip_casts(e)[0] == "proj" and p is True for _d, e, p in conds)
        notlossy = any(strip_casts(e)[:2] == ("arg", 2) and p is False for _d, e, p in conds)
        differ = any(strip_casts(e)[0] == "call" and ((strip_casts(e)[1].endswith("PartialEq::ne") and p is True) or (strip_casts(e)[1].endswith("PartialEq::eq") and p is False)) and any(x[1].endswith("compute_float") for x in expr_calls(e)) for _d, e, p in conds)
        ok = ok or (many and notlossy and differ)
    col.check(R, "fallback-to-compute_error", ok, "compute_error is not reached exactly when !lossy && many_digits && fp != compute_float(.., w+1, ..)", f.loc())
    # compute_float's own fallback: lo == u64::MAX outside the safe window -> compute_error_scaled
    g = facts.fn(PF + "lemire::compute_float")
    ok = False
    for bb, c, a, d, t in g.calls():
        if callee_name(c) == PF + "lemire::compute_error_scaled":
            conds = path_conditions(g, bb)
            def _is_max(x):
                x = strip_casts(x)
                return x == ("k", (1 << 64) - 1) or (x[0] == "kc" and (last_seg(x[1]) == "MAX" or x[2] == (1 << 64) - 1))
            allones = any(strip_casts(e)[0] == "bin" and strip_casts(e)[1] == "Eq" and (_is_max(strip_casts(e)[3]) or _is_max(strip_casts(e)[2])) and p is True for _d, e, p in conds)
            window = any(strip_casts(e)[0] == "call" and strip_casts(e)[1].endswith("RangeInclusive::contains") and p is False for _d, e, p in conds)
            if not window:
                # `q < -27 || q > 55` spelt with comparisons: both bounds of the safe window are compared with q somewhere
                # in the function and the fallback is control-dependent on at least one of those tests
                txt = " ".join(show(op_expr(g, b["t"]["d"])) for b in g.blocks if b["t"]["k"] == "switch")
                txt += " " + " ".join(show(rvalue_expr(g, st[2], 0)) for b in g.blocks for st in b["s"] if st[0] == "=" and st[2][0] == "bin" and st[2][1] in ("Lt", "Le", "Gt", "Ge"))
                window = "-27" in txt and "55" in txt
            nl = any(strip_casts(e)[:2] == ("arg", 3) and p is False for _d, e, p in conds)
            ok = allones and window and nl
    col.check(R, "compute_float-ambiguous-product", ok, "compute_float no longer returns the error marker when lo == 0xFFFF_FFFF_FFFF_FFFF outside the safe exponent window (and !lossy)", g.loc())


def rule_error_units(col, facts):
    """UNIT-errors: `errors` counts eighths of an ulp of the *current* mantissa scale.  Whenever it may be
    non-zero, the shift returned by normalize(&mut fp) must be applied to it; a discarded return value
    rescales the mantissa but not the counter."""
    if not (facts.config.startswith("compact") or "radix" in facts.config):
        return
    R = "UNIT-errors"
    f = facts.fn(PF + "bellerophon::bellerophon")
    err_local = [l for l, n in f.names.items() if n == "errors"]
    # identify the counter structurally: the local passed to error_is_accurate
    counter = None
    for bb, c, a, d, t in f.calls():
        if callee_name(c) == PF + "bellerophon::error_is_accurate":
            e = strip_casts(op_expr(f, a[0]))
            if e[0] == "var":
                counter = e[1]
    if counter is None:
        col.bad(R, "anchor", "no error counter passed to error_is_accurate found", f.loc())
        return
    # blocks where the counter is increased
    incs = set()
    for bb, j, rv, pr in f.defs().get(counter, []):
        e = strip_casts(rvalue_expr(f, rv, 0)) if rv[0] != "call" else ("call",)
        if e != ("k", 0) and not (e[0] == "bin" and e[1] == "Shl"):
            incs.add(bb)
    def op_locals(op):
        return {op[1][0]} if op[0] in ("cp", "mv") else set()

    def rv_locals(rv):
        out = set()
        for x in rv[1:]:
            if isinstance(x, list) and x and x[0] in ("cp", "mv", "k"):
                out |= op_locals(x)
            elif isinstance(x, list) and len(x) == 2 and isinstance(x[0], int):
                out.add(x[0])
            elif isinstance(x, list):
                for y in x:
                    if isinstance(y, list) and y and y[0] in ("cp", "mv"):
                        out |= op_locals(y)
        return out

    def flows_into_counter(dest):
        """Forward data flow from the normalize() result to an assignment of the counter."""
        tainted = {dest}
        changed = True
        while changed:
            changed = False
            for b in f.blocks:
                for st in b["s"]:
                    if st[0] == "=" and rv_locals(st[2]) & tainted:
                        if st[1][0] == counter:
                            return True
                        if st[1][0] not in tainted:
                            tainted.add(st[1][0]); changed = True
                t = b["t"]
                if t["k"] == "call" and t.get("dest") and any(op_locals(a) & tainted for a in t["a"]):
                    if t["dest"][0] == counter:
                        return True
                    if t["dest"][0] not in tainted:
                        tainted.add(t["dest"][0]); changed = True
        return False

    sites = []
    for bb, c, a, d, t in f.calls():
        if callee_name(c) == PF + "bellerophon::normalize":
            sites.append((bb, d[0], flows_into_counter(d[0])))
    applied = [bb for bb, _d, ok in sites if ok]
    n = 0
    for bb, dest, ok in sites:
        n += 1
        key = "bellerophon:normalize#%d" % n
        if ok:
            col.ok(R, key, loc=f.loc(f.blocks[bb]["ts"]))
            continue
        # discarded: is the counter possibly non-zero here?
        srcs = [i for i in incs if bb in reach_from(f, i)]
        if not srcs:
            col.ok(R, key, loc=f.loc(f.blocks[bb]["ts"]))
            continue
        # Accepted instance (read and confirmed): the counter can only be non-zero here through an
        # increment that is itself dominated by a normalize() whose shift WAS applied to the counter;
        # the mantissa is then already normalised, and both arms re-normalise either the unchanged
        # mantissa or its non-overflowing (hence x1) integer product: the discarded shift is 0.
        covered = all(any(f.dominates(a_bb, i) for a_bb in applied if a_bb != bb) for i in srcs)
        col.check(R, key, covered,
                  "normalize(&mut fp) rescales the mantissa but its returned shift is discarded while `errors` may already be non-zero (truncated-digits term) and no earlier normalize() with an applied shift dominates that increment: the counter is then in the wrong unit and error_is_accurate can trust an estimate it must not",
                  f.loc(f.blocks[bb]["ts"]))
    col.floor(R, "normalize call sites in bellerophon", n, 3)


def reach_from(f, bb):
    seen = set()
    todo = list(f.succ()[bb])
    while todo:
        x = todo.pop()
        if x in seen:
            continue
        seen.add(x)
        todo.extend(f.succ()[x])
    return seen


def rule_same_base(col, facts):
    """BLF-same-base: code that scales by radix^exponent (the exact fast path, Bellerophon) is only
    reached when mantissa radix == exponent base - by a run-time test, not a debug_assert!."""
    R = "BLF-same-base"
    isf = facts.fn(PF + "number::Number::is_fast_path")
    # every other comparison in is_fast_path is dominated by (mantissa_radix() == exponent_base()) true
    n = 0
    # what has to hold is "is_fast_path() is true only if the two are equal": every path on which the result can be
    # true carries the equality (the order of the pure `&&` operands does not matter)
    from rules.core import enum_paths, bool_resolved_atoms, resolve_env
    def _is_eq(e, p):
        e = strip_casts(e)
        return e[0] == "bin" and e[1] == "Eq" and p is True and {last_seg(x[1]) for x in expr_calls(e)} >= {"mantissa_radix", "exponent_base"}
    by_paths = None
    try:
        rets = {i for i, b in enumerate(isf.blocks) if isf.live(i) and b["t"]["k"] == "return"}
        by_paths = True
        for _t, atoms0, env in enum_paths(isf, 0, rets, want_env=True):
            atoms, feasible = bool_resolved_atoms(isf, atoms0, env)
            if not feasible:
                continue
            r = env.get(0)
            val = None if r is None else (r[1] if r[0] == "const" else strip_casts(resolve_env(r[1], env)))
            can_be_true = not (val is False or val == ("k", False) or val == 0)
            if can_be_true and not (any(_is_eq(e, p) for e, p in atoms) or (isinstance(val, tuple) and _is_eq(val, True))):
                by_paths = False
    except AnchorMissing:
        by_paths = None
    for bb, c, a, d, t in isf.calls():
        cn = callee_name(c)
        if cn.endswith(("RawFloat::min_exponent_fast_path", "RawFloat::max_exponent_disguised_fast_path")):
            n += 1
            conds = path_conditions(isf, bb)
            ok = any(strip_casts(e)[0] == "bin" and strip_casts(e)[1] == "Eq" and p is True and {last_seg(x[1]) for x in expr_calls(e)} >= {"mantissa_radix", "exponent_base"} for _d, e, p in conds)
            ok = ok or by_paths is True
            col.check(R, PF + "number::Number::try_fast_path", ok,
                      "the exact fast path (value * radix^exponent) is reached for formats whose exponent base differs from the mantissa radix: the equality is not tested at run time (hex floats would be scaled by 16^e instead of 2^e)", isf.loc(isf.blocks[bb]["ts"]))
    col.floor(R, "fast-path limit tests", n, 1)
    tf = facts.fn(PF + "number::Number::try_fast_path")
    m = 0
    for bb, c, a, d, t in tf.calls():
        if callee_name(c).endswith(("RawFloat::pow_fast_path", "RawFloat::int_pow_fast_path")):
            m += 1
            conds = path_conditions(tf, bb)
            ok = any(strip_casts(e)[0] == "call" and strip_casts(e)[1].endswith("Number::is_fast_path") and p is True for _d, e, p in conds)
            col.check(R, "try_fast_path:pow#%d" % m, ok, "radix^exponent scaling without a dominating is_fast_path() == true", tf.loc(tf.blocks[bb]["ts"]))
    col.floor(R, "pow_fast_path sites", m, 3)
    # Bellerophon only for non-power-of-two mantissa radices; mixed formats only exist for 2^k radices
    if "power-of-two" in facts.config or "radix" in facts.config:
        mp = facts.fn(PF + "parse::moderate_path")
        for bb, c, a, d, t in mp.calls():
            if callee_name(c) == PF + "bellerophon::bellerophon":
                from rules.c16 import block_feasible, radix_truth
                # feasible for a power-of-two radix?
                import rules.c16 as X
                feas = []
                for r in (2, 4, 8, 16, 32):
                    ok = True
                    for _d, e, pol in path_conditions(mp, bb):
                        tr = X.radix_truth(e, pol, r)
                        if tr is None:
                            tr = flag_truth_r(mp, e, pol, r)
                        if tr is False:
                            ok = False
                    if ok:
                        feas.append(r)
                if feas:
                    # second reading, per path (a `match radix { 10 => .., other if !is_power_two!(other) => .. }`
                    # joins edges): both readings over-approximate reachability, so their intersection is kept
                    from rules import dispatch as _dp
                    from rules.core import enum_paths as _ep
                    _dp.FACTS[0] = facts
                    paths = _ep(mp, 0, {bb})
                    feas = [r for r in feas if any(all(_dp.holds(e, p, r, r) for e, p in atoms) for _t, atoms in paths)]
                col.check(R, "moderate_path->bellerophon", not feas, "bellerophon (same-base only) is reachable for power-of-two mantissa radices %s, for which mixed exponent bases are admitted" % feas, mp.loc(mp.blocks[bb]["ts"]))


def flag_truth_r(f, e, pol, r, depth=0):
    import rules.c16 as X
    e = strip_casts(e)
    if e[0] != "var" or not isinstance(pol, bool) or depth > 3:
        return None
    defs = f.defs().get(e[1], [])
    vals = []
    for b2, _j, rv, pr in defs:
        if pr or rv[0] != "use" or rv[1][0] != "k" or not isinstance(rv[1][1].get("v"), bool):
            return None
        vals.append((b2, rv[1][1]["v"]))
    if not vals:
        return None

    def feasible(b2):
        for _d, e2, p2 in path_conditions(f, b2):
            tr = X.radix_truth(e2, p2, r)
            if tr is None:
                tr = flag_truth_r(f, e2, p2, r, depth + 1)
            if tr is False:
                return False
        return True
    return any(v == pol and feasible(b2) for b2, v in vals)


def rule_zero_shortcircuit(col, facts):
    """SIB-zero: every moderate-path back-end returns zero for a zero mantissa before it
    normalises (`mantissa << leading_zeros` is a shift by 64 for zero)."""
    R = "SIB-zero"
    backends = []
    if not facts.config.startswith("compact"):
        backends.append((PF + "lemire::compute_float", "arg2"))
    if facts.config.startswith("compact") or "radix" in facts.config:
        backends.append((PF + "bellerophon::bellerophon", "num.mantissa"))
    if "power-of-two" in facts.config or "radix" in facts.config:
        backends.append((PF + "binary::binary", "num.mantissa"))
    fields = facts.adts.get(PF + "number::Number", [{"fields": []}])[0]["fields"]
    mi = fields.index("mantissa") if "mantissa" in fields else None
    for name, what in backends:
        f = facts.fn(name)

        def is_mant(e):
            e = strip_casts(e)
            if what == "arg2":
                return e[:2] == ("arg", 2) or (e[0] == "var" and f.names.get(e[1]) == "w")
            return e[0] == "proj" and strip_casts(e[1])[:2] == ("arg", 1) and mi in [p for p in e[2] if isinstance(p, int)]
        # every use of leading_zeros on the mantissa is dominated by (mantissa == 0) false
        n = 0
        for bb, c, a, d, t in f.calls():
            if callee_name(c).endswith("::leading_zeros") or callee_name(c).endswith("bellerophon::normalize") or callee_name(c).endswith("bellerophon::mul"):
                n += 1
                conds = path_conditions(f, bb)
                ok = any(strip_casts(e)[0] == "bin" and strip_casts(e)[1] == "Eq" and is_mant(strip_casts(e)[2]) and strip_casts(strip_casts(e)[3]) == ("k", 0) and p is False for _d, e, p in conds)
                col.check(R, "%s:%s" % (last_seg(name), last_seg(callee_name(c))), ok,
                          "%s is reached without a preceding `mantissa == 0` short-circuit: a zero mantissa would be normalised (shift by 64: panic in debug, garbage in release)" % last_seg(callee_name(c)), f.loc(f.blocks[bb]["ts"]))
        col.floor(R, "normalising operations in %s" % last_seg(name), n, 1)


def in_digit_loop(f, i):
    """block i is inside the per-digit loop: dominated by the block that calls Iterator::next"""
    for bb, c, a, d, t in f.calls():
        if callee_name(c).endswith("Iterator::next") and f.dominates(bb, i):
            return True
    return False


def rule_step_bounded_accumulation(col, facts):
    """UNIT-step: slow_binary re-accumulates the mantissa; Number::exponent was computed for exactly
    u64_step(radix) digits, so the accumulation must be bounded by the step counter, not by 64-bit
    overflow alone (for radix 8 and 32 one more digit can fit)."""
    if "power-of-two" not in facts.config and "radix" not in facts.config:
        return
    R = "UNIT-step"
    f = facts.fn(PF + "binary::parse_u64_digits")
    # step is the pointer parameter whose pointee is decremented
    step_arg = None
    locs = f.mir.get("locals", [])
    cands = [l for l in range(1, f.argc + 1) if l < len(locs) and "usize" in locs[l]]
    if len(cands) == 1:
        step_arg = cands[0]            # the one `&mut usize` parameter, whatever it is called
    for l, nm in f.names.items():
        if step_arg is None and nm == "step" and l <= f.argc:
            step_arg = l
    if step_arg is None:
        for b in f.blocks:
            for st in b["s"]:
                if st[0] == "=" and st[1][1] == ["*"] and st[1][0] <= f.argc and "saturating_sub" in str(st[2]):
                    step_arg = st[1][0]
    n = 0
    for bb, c, a, d, t in f.calls():
        if callee_name(c).endswith("::checked_mul"):
            n += 1
            # a test of *step against 0 in a block that dominates the accumulation
            ok = False
            for i, b in enumerate(f.blocks):
                tt = b["t"]
                if tt["k"] == "switch" and f.live(i) and bb in reach_from(f, i) and in_digit_loop(f, i):
                    e = strip_casts(op_expr(f, tt["d"]))
                    if e[0] == "bin" and e[1] in ("Eq", "Ne", "Gt", "Lt", "Le", "Ge"):
                        l, r = strip_casts(e[2]), strip_casts(e[3])
                        if l[0] == "proj" and strip_casts(l[1])[:2] == ("arg", step_arg) and r == ("k", 0):
                            # and the loop header (back edge) is above it: the test is inside the per-digit loop
                            ok = True
            col.check(R, "binary::parse_u64_digits", ok,
                      "digits are accumulated until the u64 overflows, without comparing the step counter with 0: the mantissa can hold one digit more than u64_step(radix), which Number::exponent does not account for (radix 8, 32)", f.loc(f.blocks[bb]["ts"]))
    col.floor(R, "accumulation sites", n, 1)
