"""C02 — float->decimal round-trips and is shortest: tables and constants only (DESIGN §4)."""
from rules import tbl_write_float as W
from rules import extra as X
from rules.core import guarded, guarded_soft

INFO = {
    "explanation": "Every constant the Dragonbox (non-compact) and Grisu (compact) digit generation depends on is compared with its mathematical definition: 78+619 cached powers of five, the k-range reachable from every finite exponent (the bound the unchecked table index relies on), modular inverses, magic divisors, the five floor_log* multiplier triples, 87 Grisu cached powers and their exponent formula.",
    "not_decided": "interval arithmetic, endpoint inclusion, trailing-zero removal, Grisu weeding - i.e. round-trip and shortest-ness themselves",
    "assumptions": ["rustc's const evaluator and MIR builder"],
}


def run(col, configs, tier):
    for name, facts in configs.items():
        col.set_config(name)
        guarded(col, W.rule_dragonbox, facts, tier)
        guarded(col, W.rule_floor_logs, facts, tier)
        guarded(col, W.rule_dragonbox_integer_window, facts)
        guarded(col, W.rule_grisu, facts)
        guarded_soft(col, X.rule_divisibility_test, facts)
        guarded_soft(col, X.rule_grisu_weed, facts)
        guarded_soft(col, X.rule_grisu_boundaries, facts)
        guarded_soft(col, X.rule_dragonbox_left_endpoint, facts)
        guarded_soft(col, X.rule_grisu_margins, facts)
        guarded_soft(col, X.rule_nearest_shorter_left_endpoint, facts)
        guarded_soft(col, X.rule_grisu_mul_rounds, facts)
        guarded_soft(col, X.rule_jeaiii, facts)
