"""C14 - float write options: the control clauses only (DESIGN §4).

Decided here, from the MIR of every float-writer back-end that the configuration compiles:
  CFG-notation   the `write_float!` dispatch: along *every* path to the scientific writer the format
                 allows exponent notation and (the format requires it, or sci_exp is below the negative
                 break, or above the positive break); along every path to a positional writer notation is
                 forbidden or none of the three holds; negative/positive positional writer <-> sci_exp < 0
  SIB-options    every back-end entry reaches all eight option getters
  ORG-punct      the decimal point / exponent character written come from options.decimal_point() /
                 options.exponent() (or a parameter fed by them); no punctuation byte literal is stored
  UNIT-lz / PAIR-shift  (power-of-two back-ends) the carry is lz_before - lz_after, and the rounding shift is undone
  MPT-truncate   every round-up effect (shared::round_up, the binary mantissa increment) is reached only
                 on paths where round_mode() is Round
Not decided: digit counts, rounding values, padding and trimming as functions of (value, options)."""
from rules.core import rvalue_expr
from rules import extra as X
from rules.core import (guarded, guarded_soft, callee_name, last_seg, op_expr, show, strip_casts, expr_calls, enum_paths,
                        AnchorMissing, copy_root)

INFO = {
    "explanation": "Control clauses of C14, decided per back-end (algorithm, compact, binary, hex, radix) from MIR: the notation dispatch expanded from write_float! is enumerated path by path (path-sensitive for the `a || b` temporaries) and every path to the scientific writer must carry no_exponent_notation()==false and one of required_exponent_notation()==true, sci_exp < negative_exponent_break, sci_exp > positive_exponent_break, while every path to a positional writer must carry no_exponent_notation()==true or the negation of all three, and the negative/positive writer is chosen by sci_exp < 0 on the same sci_exp; every back-end entry reaches all eight Options getters through the crate's call graph; the decimal-point and exponent bytes stored originate from options.decimal_point()/options.exponent() and the only byte literals the writers store are '0', '1', '+', '-'; every call to shared::round_up and the binary mantissa increment lie only on paths where round_mode() was compared and found to be Round.",
    "not_decided": "number of significant digits, value of the rounded digits, carries, min-digit padding and trim_floats as functions of (value, options); which sci_exp (float's or rounded) is passed to the dispatch",
    "assumptions": ["rustc's MIR builder", "Options fields are private: the getters are the only readers outside options.rs"],
}

WF = "lexical_write_float::"
GETTERS = ("decimal_point", "exponent", "trim_floats", "max_significant_digits", "min_significant_digits",
           "round_mode", "negative_exponent_break", "positive_exponent_break")
BACKENDS = ("algorithm", "compact", "binary", "hex", "radix")
LITERALS_OK = {48: "'0' padding / zero digits", 49: "'1' carry digit", 43: "'+' sign", 45: "'-' sign"}


def expected_backends(config):
    out = ["compact" if "compact" in config else "algorithm"]
    if "power-of-two" in config or "radix" in config:
        out += ["binary", "hex"]
    if "radix" in config:
        out += ["radix"]
    return out


def _has_call(e, name):
    return any(last_seg(c[1]) == name for c in expr_calls(e))


def _var_mentions(f, x, name, depth=0):
    """Does the value of `x` come from a call of `name` - directly, or (a local assigned in several arms, as in
    `match opt.negative_exponent_break() { Some(v) => v.get(), None => -5 }`) through one of its assignments?"""
    x = strip_casts(x)
    if _has_call(x, name):
        return True
    if f is not None and x[0] == "var" and depth < 3:
        for _bb, _j, rv, pr in f.defs().get(x[1], []):
            if not pr and _var_mentions(f, rvalue_expr(f, rv, 1, x[1]), name, depth + 1):
                return True
    return False


def classify(e, p, f=None):
    """Map a path atom to one of A (no_exponent_notation), R (required_exponent_notation),
    L (sci_exp below the negative break), G (above the positive break), N (sci_exp < 0).
    Returns (name, polarity, x) or ("?", why, None) for a break comparison of the wrong shape."""
    e = strip_casts(e)
    if not isinstance(p, bool):
        return None
    if e[0] == "call":
        n = last_seg(e[1])
        if n == "no_exponent_notation":
            return ("A", p, None)
        if n == "required_exponent_notation":
            return ("R", p, None)
        if n == "contains" and len(e[2]) == 2:
            # `(min_exp..=max_exp).contains(&sci_exp)`: inside both break points at once
            def peel(x):
                x = strip_casts(x)
                while x[0] == "ref" or (x[0] == "proj" and all(q == "*" for q in x[2])):
                    x = strip_casts(x[1])
                return x
            rg, x = peel(e[2][0]), peel(e[2][1])
            if rg[0] == "call" and "RangeInclusive" in rg[1] and last_seg(rg[1]) == "new" and len(rg[2]) == 2:
                lo, hi = strip_casts(rg[2][0]), strip_casts(rg[2][1])
                if _var_mentions(f, lo, "negative_exponent_break") and _var_mentions(f, hi, "positive_exponent_break"):
                    return ("W", p, x)
                return ("?", "the break-point window is not `negative_exponent_break ..= positive_exponent_break`", None)
            if rg[0] in ("call", "agg") and "Range" in show(rg)[:60] and (_var_mentions(f, rg, "negative_exponent_break") or _var_mentions(f, rg, "positive_exponent_break")):
                return ("?", "the break points are tested with a half-open range: the positive break value itself must still be positional", None)
        return None
    if e[0] != "bin" or e[1] not in ("Lt", "Gt", "Le", "Ge"):
        return None
    op, a, b = e[1], strip_casts(e[2]), strip_casts(e[3])
    neg = lambda x: _var_mentions(f, x, "negative_exponent_break")
    pos = lambda x: _var_mentions(f, x, "positive_exponent_break")
    zero = lambda x: x == ("k", 0)
    if not (neg(a) or neg(b) or pos(a) or pos(b) or zero(a) or zero(b)):
        return None
    # bring the bound to the right: x OP bound
    if neg(a) or pos(a) or zero(a):
        a, b = b, a
        op = {"Lt": "Gt", "Gt": "Lt", "Le": "Ge", "Ge": "Le"}[op]
    # strictness: x < B is the atom; x >= B its negation
    if op in ("Ge", "Le"):
        if (neg(b) and op == "Le") or (pos(b) and op == "Ge"):
            return ("?", "a break point is compared non-strictly (`<=`/`>=`): the break value itself must still be positional", None)
        op = {"Ge": "Lt", "Le": "Gt"}[op]
        p = not p
    if neg(b) and pos(b):
        return ("?", "one comparison mixes both break points", None)
    if neg(b):
        return ("L", p, a) if op == "Lt" else ("?", "sci_exp is compared `>` against the negative break", None)
    if pos(b):
        return ("G", p, a) if op == "Gt" else ("?", "sci_exp is compared `<` against the positive break", None)
    if zero(b):
        return ("N", p, a) if op == "Lt" else None
    return None


def rule_notation(col, facts):
    R = "CFG-notation"
    seen = []
    for f in facts.all_fns():
        if f.crate != "lexical_write_float" or f.kind == "Closure":
            continue
        tg = {}
        for bb, c, a, d, t in f.calls():
            n = last_seg(callee_name(c))
            if n.startswith("write_float_") and "write_float" in f.macros(f.blocks[bb]["ts"]):
                tg[bb] = n
        if len(tg) < 2:
            continue
        base = f.short.replace(WF, "")
        seen.append(base.split("::")[0])
        from rules.core import simplify_proj
        paths = []
        for t, atoms0, env in enum_paths(f, 0, set(tg), want_env=True):
            # the tests as written, except that *boolean* locals assigned in several arms and tuples of them are read
            # along the path (`let use_exponent = if no_exponent_notation() { false } else ..`,
            # `match (use_exponent, sci_exp < 0)`); integer locals (`min_exp`) stay as they are so that their origin
            # can be read off their assignments.  `!x` is peeled; a path on which such a test is the constant of the
            # other polarity cannot be taken.
            def res(e, depth=0):
                e = strip_casts(simplify_proj(strip_casts(e)))
                if depth > 8:
                    return e
                if e[0] == "var" and e[1] in env and str(f.locals[e[1]]) == "bool":
                    v = env[e[1]]
                    if v[0] == "const":
                        return ("k", bool(v[1]))
                    if v[1] != e:
                        return res(v[1], depth + 1)
                    return e
                if e[0] == "proj" and strip_casts(e[1])[0] == "var" and strip_casts(e[1])[1] in env and str(f.locals[strip_casts(e[1])[1]]).startswith("("):
                    v = env[strip_casts(e[1])[1]]
                    if v[0] == "expr" and v[1] != strip_casts(e[1]):
                        return res(("proj", v[1]) + tuple(e[2:]), depth + 1)
                    return e
                if e[0] == "un" and e[1] == "Not":
                    return ("un", "Not", res(e[2], depth + 1))
                return e
            atoms = []
            feasible = True
            for e, p in atoms0:
                e = res(e)
                while e[0] == "un" and e[1] == "Not" and isinstance(p, bool):
                    e, p = res(e[2]), not p
                if e[0] == "k" and isinstance(e[1], bool) and isinstance(p, bool):
                    if e[1] != p:
                        feasible = False
                    continue
                atoms.append((e, p))
            if feasible:
                paths.append((t, atoms))
        col.check(R, base + ":paths", len(paths) >= 3, "no path reaches the writers", f.loc())
        xs = set()
        bad = {}
        for t, atoms in paths:
            w = tg[t]
            v = {}
            for e, p in atoms:
                c = classify(e, p, f)
                if c is None:
                    continue
                if c[0] == "?":
                    bad.setdefault("shape", c[1])
                    continue
                if c[0] == "W":
                    if c[1]:
                        v["L"] = v["G"] = False          # inside the window: neither below nor above
                    else:
                        v["LG"] = True                   # outside: below or above
                else:
                    v[c[0]] = c[1]
                if c[2] is not None:
                    xs.add(c[2])
            sci = w.endswith("_scientific")
            if sci:
                if v.get("A") is not False:
                    bad.setdefault("forbidden", "%s is reachable without no_exponent_notation() tested false" % w)
                if not (v.get("R") is True or v.get("L") is True or v.get("G") is True or v.get("LG") is True):
                    bad.setdefault("unrequired", "%s is reachable although the format does not require notation and sci_exp was found inside both break points (atoms %s)" % (w, v))
            else:
                if not (v.get("A") is True or (v.get("R") is False and v.get("L") is False and v.get("G") is False)):
                    miss = [k for k in "RLG" if v.get(k) is not False]
                    bad.setdefault("positional", "%s is reachable with notation allowed and without ruling out %s (R = format requires notation, L = below negative_exponent_break, G = above positive_exponent_break)" % (w, "/".join(miss)))
                if "negative" in w and v.get("N") is not True:
                    bad.setdefault("negative", "%s is reachable without sci_exp < 0" % w)
                if "positive" in w and v.get("N") is not False:
                    bad.setdefault("positive", "%s is reachable with sci_exp < 0 possible" % w)
        col.check(R, base + ":same-exponent", len(xs) == 1, "break points and the sign test look at different values: %s" % sorted(show(x) for x in xs), f.loc())
        for k in ("shape", "forbidden", "unrequired", "positional", "negative", "positive"):
            col.check(R, "%s:%s" % (base, k), k not in bad, bad.get(k, ""), f.loc())
        # every kind of writer is reachable
        kinds = {("sci" if tg[t].endswith("_scientific") else "pos") for t, _ in paths}
        col.check(R, base + ":both-notations", kinds == {"sci", "pos"}, "only %s writers are reachable" % sorted(kinds), f.loc())
    want = expected_backends(facts.config)
    col.check(R, "backends", sorted(seen) == sorted(want), "write_float! expansions found in %s, expected %s" % (sorted(seen), sorted(want)), "lexical-write-float/src/shared.rs")


def call_graph(facts):
    cg = {}
    for f in facts.all_fns():
        if f.crate != "lexical_write_float":
            continue
        base = f.short if f.kind != "Closure" else f.closure_of
        cg.setdefault(base, set()).update(callee_name(c) for _b, c, _a, _d, _t in f.calls())
    return cg


def reach(cg, s):
    seen, st = set(), [s]
    while st:
        x = st.pop()
        if x in seen:
            continue
        seen.add(x)
        st.extend(cg.get(x, ()))
    return seen


def rule_option_reach(col, facts):
    R = "SIB-options"
    cg = call_graph(facts)
    n = 0
    for b in expected_backends(facts.config):
        entry = WF + b + "::write_float"
        f = facts.fn(entry)
        got = {last_seg(x) for x in reach(cg, entry) if x.startswith(WF + "options::Options::")}
        for g in GETTERS:
            n += 1
            col.check(R, "%s:%s" % (b, g), g in got, "back-end %s never reads options.%s(): the option cannot have any effect there (its siblings read it)" % (b, g), f.loc())
    col.floor(R, "backend x getter obligations", n, 8)


def const_byte_strings(e, out=None):
    """Constant byte strings (`b"..."`) inside an expression tree."""
    if out is None:
        out = []
    if isinstance(e, tuple):
        if len(e) == 2 and e[0] == "k" and isinstance(e[1], dict) and isinstance(e[1].get("ref"), list) and all(isinstance(x, int) for x in e[1]["ref"]):
            out.append(e[1]["ref"])
        for x in e:
            const_byte_strings(x, out)
    return out


def from_special_strings(f):
    return False


def rule_punct(col, facts):
    R = "ORG-punct"
    nlit = ndp = 0
    for f in facts.all_fns():
        if f.crate != "lexical_write_float" or f.short.startswith(WF + "options::"):
            continue
        base = f.short.replace(WF, "")
        dp_fn = any(last_seg(callee_name(c)) == "decimal_point" for _b, c, _a, _d, _t in f.calls())
        dp_stores = 0
        for i, b in enumerate(f.blocks):
            if not f.live(i):
                continue
            for st in b["s"]:
                if st[0] != "=" or not st[1][1] or st[2][0] != "use":
                    continue
                op = st[2][1]
                if op[0] == "k":
                    c = op[1]
                    if c.get("ty") == "u8" and isinstance(c.get("v"), int):
                        nlit += 1
                        col.check(R, "%s:literal:%d" % (base, c["v"]), c["v"] in LITERALS_OK,
                                  "byte literal %r is stored into the output: punctuation must come from the options" % chr(c["v"]), f.loc(st[3]))
                else:
                    e = strip_casts(op_expr(f, op))
                    if e[0] == "call" and last_seg(e[1]) == "decimal_point":
                        dp_stores += 1
            t = b["t"]
            # constant byte strings copied into the output (`copy_from_slice(b"1.0")`) are stores of literals too
            if t["k"] == "call" and last_seg(callee_name(t["f"])) in ("copy_from_slice", "copy_to_dst", "copy_nonoverlapping", "clone_from_slice", "extend_from_slice") and not from_special_strings(f):
                for a_ in t["a"]:
                    for bs in const_byte_strings(op_expr(f, a_)):
                        nlit += 1
                        badb = [x for x in bs if x not in LITERALS_OK]
                        col.check(R, "%s:copied-literal:%s" % (base, "".join(chr(x) for x in bs)[:8]), not badb,
                                  "the constant byte string %r is copied into the output: it contains %r, punctuation must come from the options (a custom decimal point is ignored)" % (bytes(bs), "".join(chr(x) for x in badb)), f.loc(b["ts"]))
            if t["k"] == "call" and last_seg(callee_name(t["f"])) == "fill" and len(t["a"]) == 2 and t["a"][1][0] == "k":
                v = t["a"][1][1].get("v")
                nlit += 1
                col.check(R, "%s:fill:%s" % (base, v), v in LITERALS_OK, "fill(%r)" % (v,), f.loc(b["ts"]))
        if dp_fn:
            ndp += 1
            col.check(R, base + ":decimal-point-stored", dp_stores >= 1,
                      "options.decimal_point() is read but its value is never the byte stored", f.loc())
    col.floor(R, "byte literal stores examined", nlit, 10)
    col.floor(R, "writers storing options.decimal_point()", ndp, 3)
    # exponent character: every write_exponent call passes options.exponent() (or its own parameter)
    n2 = 0
    for f in facts.all_fns():
        if f.crate != "lexical_write_float":
            continue
        for bb, c, a, d, t in f.calls():
            if callee_name(c) == WF + "shared::write_exponent":
                n2 += 1
                e = strip_casts(op_expr(f, a[3]))
                ok = (e[0] == "call" and last_seg(e[1]) == "exponent") or e[0] == "arg"
                col.check(R, "exponent-char@%s" % f.short.replace(WF, ""), ok, "exponent character `%s` does not come from options.exponent()" % show(e), f.loc(f.blocks[bb]["ts"]))
    col.floor(R, "write_exponent call sites", n2, 1)
    we = facts.fn(WF + "shared::write_exponent")
    st_ok = False
    for i, b in enumerate(we.blocks):
        if not we.live(i):
            continue
        for st in b["s"]:
            if st[0] == "=" and st[1][1] and st[2][0] == "use" and st[2][1][0] in ("cp", "mv"):
                e = strip_casts(op_expr(we, st[2][1]))
                if e[0] == "arg" and e[1] == 4:
                    st_ok = True
    col.check(R, "write_exponent:stores-its-parameter", st_ok, "shared::write_exponent does not store its exponent_character parameter", we.loc())


def round_variant(facts, f, e):
    """For an atom `eq(ref(round_mode(..)), ref(promoted))` return the variant name compared with."""
    e = strip_casts(e)
    if e[0] != "call" or last_seg(e[1]) not in ("eq", "ne") or len(e[2]) != 2:
        return None
    sides = [strip_casts(x) for x in e[2]]
    def peel(x):
        while isinstance(x, tuple) and x and x[0] in ("ref", "cast"):
            x = x[1]
        if isinstance(x, tuple) and x and x[0] == "proj" and x[2] == ("*",):
            return peel(x[1])
        return x
    sides = [peel(x) for x in sides]
    rm = [x for x in sides if x[0] == "call" and last_seg(x[1]) == "round_mode"]
    pr = [x for x in sides if x[0] == "kprom"]
    if len(rm) != 1 or len(pr) != 1:
        return None
    body = f.promoted[pr[0][1]]
    for b in body["blocks"]:
        for st in b["s"]:
            if st[0] == "=" and st[2][0] == "agg" and st[2][1][0] == "adt" and st[2][1][1].endswith("options::RoundMode"):
                return (st[2][1][3], last_seg(e[1]))
    return None


def rule_truncate(col, facts):
    R = "MPT-truncate"
    adt = facts.adts.get(WF + "options::RoundMode")
    col.check(R, "RoundMode:variants", adt is not None and [v["name"] for v in adt] == ["Round", "Truncate"],
              "RoundMode is no longer {Round, Truncate}: the gating rule must be re-read", "lexical-write-float/src/options.rs")
    n = 0
    for f in facts.all_fns():
        if f.crate != "lexical_write_float" or f.short == WF + "shared::round_up":
            continue
        reads_mode = any(callee_name(c) == WF + "options::Options::round_mode" for _b, c, _a, _d, _t in f.calls())
        eff = {}
        for bb, c, a, d, t in f.calls():
            cn = callee_name(c)
            if cn == WF + "shared::round_up":
                eff[bb] = "round_up"
            elif reads_mode and last_seg(cn) in ("add_assign", "add", "wrapping_add") and f.short == WF + "binary::truncate_and_round":
                eff[bb] = last_seg(cn)
        if not eff:
            continue
        base = f.short.replace(WF, "")
        for t, atoms in enum_paths(f, 0, set(eff)):
            ok = False
            for e, p in atoms:
                rv = round_variant(facts, f, e)
                if rv is None or not isinstance(p, bool):
                    continue
                variant, opn = rv
                is_eq = (opn == "eq") == p            # the path knows round_mode == variant (True) or != (False)
                if (variant == "Round" and is_eq) or (variant == "Truncate" and not is_eq):
                    ok = True
            n += 1
            col.check(R, "%s:%s" % (base, eff[t]), ok,
                      "a path reaches the round-up (%s) without round_mode() having been found to be Round: RoundMode::Truncate would round" % eff[t], f.loc(f.blocks[t]["ts"]))
    col.floor(R, "paths to a round-up effect", n, 3)
    if "power-of-two" in facts.config or "radix" in facts.config:
        f = facts.fn(WF + "binary::truncate_and_round")
        col.check(R, "binary:effect-present", any(last_seg(callee_name(c)) in ("add_assign", "add", "wrapping_add") for _b, c, _a, _d, _t in f.calls()),
                  "binary::truncate_and_round has no mantissa increment any more (rule needs re-reading)", f.loc())


def rule_binary_round(col, facts):
    """Power-of-two back-ends: binary::truncate_and_round keeps the top max_digits*bits_per_digit bits.
    UNIT-lz      `mantissa_bits += lz_before - lz_after`: an increment can only lower leading_zeros(), so the
                 unsigned difference taken the other way round can only be 0 or wrap.
    PAIR-shift   every writer aligns digits with calculate_shl(exp, ..) where exp belongs to the *original*
                 mantissa: the `>> shr` applied for rounding must be undone by `<< shr` (same amount) on every
                 path before the mantissa is returned."""
    if not ("power-of-two" in facts.config or "radix" in facts.config):
        return
    f = facts.fn(WF + "binary::truncate_and_round")
    calls = list(f.calls())
    # ---- UNIT-lz
    R = "UNIT-lz"
    lz = [(bb, copy_root(f, a[0]), d[0]) for bb, c, a, d, t in calls if last_seg(callee_name(c)) == "leading_zeros"]
    incs = []
    for bb, c, a, d, t in calls:
        if last_seg(callee_name(c)) in ("add_assign", "add", "wrapping_add"):
            e = strip_casts(op_expr(f, a[0]))
            root = None
            if e[0] == "ref" and e[1][0] == "var":
                root = e[1][1]
            elif e[0] == "var":
                root = e[1]
            incs.append((bb, root))
    n = 0
    for i, b in enumerate(f.blocks):
        if not f.live(i):
            continue
        for st in b["s"]:
            if st[0] == "=" and st[2][0] == "bin" and st[2][1].startswith("Sub"):
                x, y = copy_root(f, st[2][2]), copy_root(f, st[2][3])
                A = [z for z in lz if z[2] == x]
                B = [z for z in lz if z[2] == y]
                if not (A and B) or A[0][1] != B[0][1]:
                    continue
                mn, sb = A[0], B[0]            # minuend - subtrahend
                between = [ib for ib, root in incs if root == mn[1]]
                for ib in between:
                    n += 1
                    # minuend must be taken before the increment, subtrahend after it
                    ok = f.dominates(mn[0], ib) and f.dominates(ib, sb[0]) and mn[0] != sb[0]
                    col.check(R, "binary::truncate_and_round:carry", ok,
                              "the carry is computed as leading_zeros() *after* the increment minus leading_zeros() *before* it: an increment never raises leading_zeros(), so this is 0 or wraps (debug: panics; release: mantissa_bits += 2^32-1 and the written number loses its scale)", f.loc(st[3]))
    col.floor(R, "lz differences around an increment", n, 1)
    # ---- PAIR-shift
    R = "PAIR-shift"
    ret_local = None
    for i, b in enumerate(f.blocks):
        if f.live(i) and b["t"]["k"] == "return":
            for st in b["s"]:
                if st[0] == "=" and st[1] == [0, []] and st[2][0] == "agg" and len(st[2][2]) == 2:
                    ret_local = copy_root(f, st[2][2][0])
    col.check(R, "anchor:returned-mantissa", ret_local is not None, "returned (mantissa, bits) tuple not found", f.loc())
    if ret_local is None:
        return
    def flows_to_ret(dest, bb):
        # `X = move dest` in the call's target block
        for b2 in f.blocks:
            for st in b2["s"]:
                if st[0] == "=" and st[1] == [ret_local, []] and st[2][0] == "use" and st[2][1][0] in ("cp", "mv") and st[2][1][1] == [dest, []]:
                    return True
        return dest == ret_local
    shrs = [(bb, copy_root(f, a[1]), d[0]) for bb, c, a, d, t in calls if last_seg(callee_name(c)) == "shr" and copy_root(f, a[0]) == 1 and flows_to_ret(d[0], bb)]
    shls = [(bb, copy_root(f, a[1]), d[0]) for bb, c, a, d, t in calls if last_seg(callee_name(c)) == "shl" and copy_root(f, a[0]) == ret_local and flows_to_ret(d[0], bb)]
    col.check(R, "anchor:shr", len(shrs) >= 1, "no `mantissa >> shr` feeding the returned mantissa (rule needs re-reading)", f.loc())
    rets = [i for i, b in enumerate(f.blocks) if f.live(i) and b["t"]["k"] == "return"]
    callee_ok = bool(shrs)
    for bb, amt, _d in shrs:
        undo = {b2 for b2, amt2, _ in shls if amt2 == amt and f.dominates(bb, b2)}
        # is a return reachable from the shr without passing an undoing shl?
        seen, todo = set(), list(f.succ()[bb])
        while todo:
            x = todo.pop()
            if x in seen or x in undo:
                continue
            seen.add(x)
            if x in rets:
                callee_ok = False
            todo.extend(f.succ()[x])
    # caller side: the mantissa handed to the writers is `truncate_and_round(..).0 << (bits - significant_bits(..))`
    n = 0
    for g in facts.all_fns():
        if g.crate != "lexical_write_float" or g.kind == "Closure":
            continue
        if not any(callee_name(c) == f.short for _b, c, _a, _d, _t in g.calls()):
            continue
        for bb, c, a, d, t in g.calls():
            cn = last_seg(callee_name(c))
            if not cn.startswith("write_float_"):
                continue
            # the argument fed by truncate_and_round(..).0
            for arg in a:
                e = strip_casts(op_expr(g, arg))
                tr = [x for x in expr_calls(e) if x[1] == f.short]
                if not tr:
                    continue
                if not (e[0] == "proj" and e[2] == (0,)) and not any(last_seg(x[1]) == "shl" for x in expr_calls(e)):
                    continue                      # the bit count / exponent, not the mantissa
                n += 1
                restored = False
                for x in expr_calls(e):
                    if last_seg(x[1]) == "shl" and len(x[2]) == 2:
                        base, amt = strip_casts(x[2][0]), x[2][1]
                        if base[0] == "proj" and base[2] == (0,) and any(last_seg(y[1]) == "significant_bits" for y in expr_calls(amt)) and any(y[1] == f.short for y in expr_calls(amt)):
                            restored = True
                col.check(R, "%s->%s:scale" % (g.short.replace(WF, ""), cn), callee_ok or restored,
                          "the mantissa is handed to the writer still shifted right by the bits dropped in truncate_and_round, but the writer aligns its digits with calculate_shl(exp, bits_per_digit) for the exponent of the unshifted mantissa: whenever the shift is not a multiple of bits_per_digit every digit is wrong (hex 171.75, 2 digits -> \"56.0\")", g.loc(g.blocks[bb]["ts"]))
    col.floor(R, "writer calls fed by truncate_and_round", n, 3)


def rule_radix_rounding(col, facts):
    """Generic-radix writer (radix.rs truncate_and_round), max_significant_digits:
    UNIT-parity   the tie test needs the parity of the last kept *digit*; the buffer holds ASCII characters and
                  'A' = 65 is odd while the digit 10 is even: a `& 1` / `% 2` on a buffer byte must go through
                  char_to_valid_digit_const (for radix <= 10 the character's parity happens to agree)
    UNIT-zeros    leading zeros of `0.00121` are not significant: every returned digit count other than
                  "all digits" includes ltrim_char_count over the whole digit range [start, end), on the Truncate
                  path as well as on the rounding paths."""
    if "radix" not in facts.config:
        return
    f = facts.fn(WF + "radix::truncate_and_round")
    R = "UNIT-parity"
    n = 0
    for i, b in enumerate(f.blocks):
        if not f.live(i):
            continue
        for st in b["s"]:
            if st[0] != "=" or st[2][0] != "bin":
                continue
            op = st[2][1]
            e = rvalue_expr(f, st[2], 0)
            parity = (op == "BitAnd" and strip_casts(e[3]) == ("k", 1)) or (op == "Rem" and strip_casts(e[3]) == ("k", 2) and not any(last_seg(c[1]) == "radix" for c in expr_calls(e)) and strip_casts(e[2])[0] != "arg")
            if not parity:
                continue
            x = strip_casts(e[2])
            if x[0] == "arg":
                continue                     # radix % 2
            n += 1
            decoded = x[0] == "call" and last_seg(x[1]) in ("char_to_valid_digit_const", "char_to_digit_const", "char_to_digit")
            col.check(R, "radix::truncate_and_round:parity#%d" % n, decoded,
                      "`%s`: the parity of a buffer byte (an ASCII digit character) is tested without decoding it: for radix > 10 letter digits have the opposite parity ('A' = 65 is odd, the digit 10 is even) and exact ties round to odd" % show(e), f.loc(st[3]))
    col.floor(R, "parity tests in radix::truncate_and_round", n, 1)
    R = "UNIT-zeros"
    rets = []
    for i, b in enumerate(f.blocks):
        if not f.live(i):
            continue
        for st in b["s"]:
            if st[0] == "=" and st[1] == [0, []] and st[2][0] == "agg" and len(st[2][2]) == 2:
                rets.append((i, strip_casts(op_expr(f, st[2][2][0])), st[3]))
    col.check(R, "anchor", len(rets) >= 3, "only %d tuple results found" % len(rets), f.loc())
    m = 0
    for i, e, sp in rets:
        # `digit_count` = end - start: everything is kept
        if e[0] == "bin" and e[1] == "Sub" and strip_casts(e[2])[0] == "arg" and strip_casts(e[3])[0] == "arg":
            continue
        m += 1
        zs = [c for c in expr_calls(e) if last_seg(c[1]) == "ltrim_char_count"]
        ok = bool(zs)
        whole = False
        for c in zs:
            a0 = c[2][0]
            # the slice argument: buffer[start..end]
            txt = show(a0)
            rng = [x for x in expr_calls(a0) if last_seg(x[1]) in ("index", "index_mut")]
            for r in rng:
                ag = strip_casts(r[2][1]) if len(r[2]) == 2 else None
                if ag and ag[0] == "agg" and len(ag[2]) == 2 and strip_casts(ag[2][0])[0] == "arg" and strip_casts(ag[2][1])[0] == "arg":
                    whole = True
        col.check(R, "radix::truncate_and_round:result#%d" % m, ok and whole,
                  "a truncated digit count `%s` is returned %s: leading zeros of a value below 1 are counted as significant digits (`0.00121`, 2 digits, Truncate -> `0.`)" % (show(e), "without adding the leading zeros (ltrim_char_count)" if not ok else "with leading zeros counted only inside a prefix of the digits, not over [start, end)"), f.loc(sp))
    col.floor(R, "truncated results in radix::truncate_and_round", m, 2)


def rule_point_zero_counted(col, facts):
    """UNIT-dot0: a writer that emits `.0` after an integral value writes one more digit; where the digit
    count later feeds min_exact_digits (zero padding up to min_significant_digits) it must have been updated on
    that path, otherwise the padding adds one zero too many (`0.999`, max = min = 2 -> `1.00`)."""
    R = "UNIT-dot0"
    from rules.pipeline import reach_from
    n = 0
    for f in facts.all_fns():
        if f.crate != "lexical_write_float" or f.kind == "Closure" or not last_seg(f.short).startswith("write_float_"):
            continue
        mins = [(bb, a) for bb, c, a, d, t in f.calls() if callee_name(c) == WF + "shared::min_exact_digits"]
        if not mins:
            continue
        base = f.short.replace(WF, "")
        # stores of the decimal point: (block, statement index)
        points = []
        for i, b in enumerate(f.blocks):
            if not f.live(i):
                continue
            for j, st in enumerate(b["s"]):
                if st[0] == "=" and st[1][1] and st[2][0] == "use" and st[2][1][0] in ("cp", "mv"):
                    e = strip_casts(op_expr(f, st[2][1]))
                    if e[0] == "call" and last_seg(e[1]) == "decimal_point":
                        points.append((i, j))
        for mb, a in mins:
            dc = op_expr(f, a[0])
            dcl = strip_casts(dc)
            cnt_local = dcl[1] if dcl[0] in ("var", "arg") else None
            # `digit_count - leading_zeros`: the count is any re-assigned local the argument is computed from
            cnt_locals = set()

            def _vars(x):
                if isinstance(x, tuple):
                    if x and x[0] == "var" and len(x) > 1 and isinstance(x[1], int):
                        cnt_locals.add(x[1])
                    for y in x:
                        _vars(y)
            _vars(dcl)
            if cnt_local is not None:
                cnt_locals.add(cnt_local)
            for i, b in enumerate(f.blocks):
                if not f.live(i) or (mb not in reach_from(f, i) and i != mb):
                    continue
                for j, st in enumerate(b["s"]):
                    if not (st[0] == "=" and st[1][1] and st[2][0] == "use" and st[2][1][0] == "k" and st[2][1][1].get("v") == 48 and st[2][1][1].get("ty") == "u8"):
                        continue
                    # only a `0` written after the decimal point is a fraction digit
                    if not any((pi == i and pj < j) or (pi != i and i in reach_from(f, pi)) for pi, pj in points):
                        continue
                    n += 1
                    ok = False
                    for cl in cnt_locals:
                        for bb2, j2, rv2, pr2 in f.defs().get(cl, []):
                            if (bb2 == i or bb2 in reach_from(f, i)) and (mb in reach_from(f, bb2) or bb2 == mb):
                                ok = True
                    col.check(R, "%s:dot-zero#%d" % (base, n), ok,
                              "a `0` digit is stored after the decimal point on a path to min_exact_digits(%s, ..) without the digit count being updated: min_significant_digits padding then writes one digit more than max_significant_digits allows" % show(dc)[:80], f.loc(st[3]))
    col.floor(R, "literal `0` digits stored before min_exact_digits", n, 1)


def rule_decimal_tie(col, facts):
    """UNIT-parity (decimal): in truncate_and_round_decimal the tie `…5000` goes to even: the parity tested is that
    of the *last kept* digit, i.e. element 0 of `digits[max_digits - 1 ..]` (for decimal the character's parity
    equals the digit's).  Any other element - e.g. the truncated `5` itself - makes every tie round up."""
    from rules.core import fold
    R = "UNIT-parity"
    f = facts.fn(WF + "shared::truncate_and_round_decimal")
    n = 0
    for i, b in enumerate(f.blocks):
        if not f.live(i):
            continue
        for st in b["s"]:
            if not (st[0] == "=" and st[2][0] == "bin" and ((st[2][1] == "Rem" and st[2][3][0] == "k" and st[2][3][1].get("v") == 2) or (st[2][1] == "BitAnd" and st[2][3][0] == "k" and st[2][3][1].get("v") == 1))):
                continue
            e = strip_casts(rvalue_expr(f, st[2], 0))
            x = strip_casts(e[2])
            n += 1
            ok = False
            why = "operand `%s` is not an element of the digit slice" % show(x)
            if x[0] == "proj" and x[2] and isinstance(x[2][-1], tuple) and x[2][-1][0] == "idx":
                idx_local = x[2][-1][1]
                idx = fold(f, ["cp", [idx_local, []]])
                base = x[1]
                rng = [c for c in expr_calls(base) if last_seg(c[1]) in ("index", "index_mut")]
                start = None
                for c in rng:
                    ag = strip_casts(c[2][1])
                    if ag[0] == "agg" and len(ag[2]) >= 1:
                        start = strip_casts(ag[2][0])
                if start is None:
                    # direct indexing `digits[kept - 1]`, kept being the max_significant_digits value
                    ie = strip_casts(op_expr(f, ["cp", [idx_local, []]]))
                    ok = ie[0] == "bin" and ie[1] == "Sub" and strip_casts(ie[3]) == ("k", 1) and _var_mentions(f, ie[2], "max_significant_digits")
                    why = "element `%s` of the digits" % show(ie)[:60]
                else:
                    st_ok = start[0] == "bin" and start[1] == "Sub" and strip_casts(start[3]) == ("k", 1) and any(last_seg(c[1]) == "max_significant_digits" for c in expr_calls(start[2]))
                    ok = st_ok and idx == 0
                    why = "element %s of the slice starting at `%s`" % (idx, show(start))
            col.check(R, "truncate_and_round_decimal:last-kept-digit#%d" % n, ok,
                      "the tie-to-even parity is taken of %s, not of the last kept digit `digits[max_digits - 1]`" % why, f.loc(st[3]))
    col.floor(R, "parity tests in truncate_and_round_decimal", n, 1)


def rule_cut_exposes_no_zeros(col, facts):
    """UNIT-zeros (decimal): the digit writers hand `truncate_and_round_decimal` digits without trailing zeros
    and every consumer relies on that for what it returns (trim_floats tests `digit_count` against the
    integer part; the compact writers debug_assert it).  Cutting `95505` to four digits exposes a zero, so on
    every path that cuts (max_digits < digit_count) the returned count must have gone through the zero
    trimmer or through round_up (which ends on a non-zero digit) - never be the raw `max_digits`."""
    from rules.core import resolve_env, simplify_proj
    R = "UNIT-zeros"
    f = facts.fn(WF + "shared::truncate_and_round_decimal")
    rets = {i for i, b in enumerate(f.blocks) if f.live(i) and b["t"]["k"] == "return"}
    n = bad = 0
    where = f.loc()
    for t, atoms, env in enum_paths(f, 0, rets, want_env=True, resolve_atoms=True):
        cut = False
        for a, p in atoms:
            a = strip_casts(a)
            if a[0] == "bin" and a[1] in ("Ge", "Lt", "Le", "Gt") and "digit_count" in show(a):
                cut = cut or (a[1] == "Ge" and p is False) or (a[1] == "Lt" and p is True)
        if not cut:
            continue
        n += 1
        r = env.get(0)
        e = resolve_env(r[1], env) if r and r[0] == "expr" else None
        first = None
        if e is not None:
            e1 = strip_casts(simplify_proj(e))
            if e1[0] == "agg" and len(e1[2]) == 2:
                first = strip_casts(simplify_proj(e1[2][0]))
        names = {last_seg(c[1]) for c in expr_calls(first)} if first is not None else set()
        ok = first is not None and bool(names & {"rtrim_zeros", "rtrim_char_count", "round_up"})
        if not ok and e is not None:
            # the pair is returned as it comes from the rounding helper: `round_up(digits, kept, 10)` as tail expression
            e1 = strip_casts(simplify_proj(e))
            ok = e1[0] == "call" and last_seg(e1[1]) in ("round_up",)
        if not ok:
            bad += 1
    col.check(R, "truncate_and_round_decimal:cut-trims-zeros", bad == 0 and n >= 3,
              "%d of %d cutting paths return the raw max_digits as the digit count: a zero exposed by the cut is counted as a digit (`955.05` to 4 digits with trim_floats prints `955.0`; the compact writers' debug assertion fails)" % (bad, n), where)


def rule_radix_positional_counts(col, facts):
    """Generic-radix positional writer (radix::write_float_nonscientific), two unit rules:
    MPT-point - whether a fraction follows the decimal point is decided on the fraction digit count *after* the
      trailing zeros were trimmed (rounding `1.0000000000000002` to 4 digits leaves `1` + `000`): the test that
      guards the `.0` / trim_floats branch must be on a value one of whose definitions subtracts
      rtrim_char_count - otherwise the point is left bare (`1.`) and min padding is skipped;
    UNIT-zeros - the digit string starts at the integer digit, so for values below one it starts with zeros that
      are not significant: the count handed to min_exact_digits must have the leading zeros (ltrim_char_count)
      taken out, otherwise `0.25` with min = 3 in radix 36 is padded to `0.90`."""
    if "radix" not in facts.config:
        return
    from rules.core import rvalue_expr, path_conditions
    f = facts.fn(WF + "radix::write_float_nonscientific")
    # UNIT-zeros
    args = [op_expr(f, a[0]) for bb, c, a, d, t in f.calls() if callee_name(c) == WF + "shared::min_exact_digits"]
    col.check("UNIT-zeros", "radix::write_float_nonscientific:min-counts-significant", bool(args) and all(any(last_seg(c[1]) == "ltrim_char_count" for c in expr_calls(a)) for a in args),
              "min_exact_digits is handed `%s`: the leading zeros of a value below one are counted as significant digits, so the padding to min_significant_digits stops short (radix 36, 0.25, min 3 -> `0.90`)" % (show(args[0])[:80] if args else "?"), f.loc())
    # ... and the subtraction cannot underflow: the zero count is clamped (`min(.., count - 1)`) *after* the last
    # change of the digit count (trailing zeros are trimmed in between; trimming all of them left fewer digits than
    # leading zeros and `count - zeros` panicked in debug builds for values below radix^-231)
    from rules.pipeline import reach_from
    clamp_ok = False
    for bb, c, a, d, t in f.calls():
        if callee_name(c) != WF + "shared::min_exact_digits":
            continue
        e = strip_casts(op_expr(f, a[0]))
        if e[0] == "bin" and e[1] == "Sub":
            cnt, sub = strip_casts(e[2]), strip_casts(e[3])
            if sub[0] == "call" and last_seg(sub[1]) == "min" and len(sub) > 3 and cnt[0] == "var":
                mins = [b2 for b2, c2, a2, d2, t2 in f.calls() if d2 and d2[0] == sub[3] and not d2[1]]
                if mins:
                    after = reach_from(f, mins[0])
                    later_defs = [bd for bd, _j, _rv, pr in f.defs().get(cnt[1], []) if not pr and bd in after and bd != mins[0]]
                    clamp_ok = not later_defs and any(show(strip_casts(x)).startswith("(") and "Sub 1" in show(strip_casts(x)) for x in sub[2])
    col.check("UNIT-zeros", "radix::write_float_nonscientific:clamp-after-last-count-change", clamp_ok,
              "the leading-zero count subtracted from the digit count is not clamped to `count - 1` after the count's last change: when trimming removes more digits than there are leading zeros the subtraction underflows (debug panic for tiny values written positionally)", f.loc())
    # GRD-window: the digits handed to truncate_and_round are capped (`min(fraction_cursor, start + N)`); the cap is
    # on digits, and the string starts at the integer digit, so the leading zeros of a value below one must be added
    # to it - otherwise a negative exponent break below -N cuts or drops the significant digits and a non-zero float
    # is written as `0.0` (radix 7, break -400, 1.06e-228)
    ends = [op_expr(f, a[2]) for bb, c, a, d, t in f.calls() if callee_name(c) == WF + "radix::truncate_and_round" and len(a) > 2]
    capped = [e for e in ends if any(last_seg(c[1]) == "min" for c in expr_calls(e))]
    col.check("GRD-window", "radix::write_float_nonscientific:window-skips-leading-zeros",
              bool(ends) and all(any(last_seg(c[1]) == "ltrim_char_count" for c in expr_calls(e)) for e in capped),
              "the digit window ends at `%s`: leading zeros count against the cap, so a small value written positionally loses its digits (radix 7, negative break -400: 1.06e-228 -> `0.0`)" % (show(capped[0])[:100] if capped else "?"), f.loc())
    # MPT-point
    n = 0
    bad = 0
    where = f.loc()
    for i, b in enumerate(f.blocks):
        if not f.live(i):
            continue
        for st in b["s"]:
            if not (st[0] == "=" and st[1][1] and st[2][0] == "use" and st[2][1][0] == "k" and st[2][1][1].get("v") == 48 and st[2][1][1].get("ty") == "u8"):
                continue
            conds = path_conditions(f, i)
            if not any(strip_casts(e)[0] == "call" and last_seg(strip_casts(e)[1]) == "trim_floats" and p is False for _d, e, p in conds):
                continue
            n += 1
            ok = False
            for _d, e, p in conds:
                e = strip_casts(e)
                if e[0] == "bin" and e[1] in ("Gt", "Ne", "Eq") and strip_casts(e[3]) == ("k", 0):
                    x = strip_casts(e[2])
                    if any(last_seg(c[1]) == "rtrim_char_count" for c in expr_calls(x)):
                        ok = True
                    if x[0] == "var":
                        for _b, _j, rv, pr in f.defs().get(x[1], []):
                            if not pr and any(last_seg(c[1]) == "rtrim_char_count" for c in expr_calls(rvalue_expr(f, rv, 1, x[1]))):
                                ok = True
            if not ok:
                bad += 1
                where = f.loc(st[3])
    col.check("MPT-point", "radix::write_float_nonscientific:fraction-test-after-trim", n >= 1 and bad == 0,
              "the branch that writes `.0` (or removes the point under trim_floats) is chosen on the fraction digit count *before* trailing zeros are trimmed (%d of %d sites): a fraction that rounds to zeros leaves a bare decimal point (`1.`, `10.`) and skips min_significant_digits" % (bad, n), where)


def rule_integer_zeros_counted(col, facts):
    """UNIT-count (positional writers, value >= 1): when the digits written are fewer than the integer has places,
    the writers fill `bytes[digit_count..leading_digits]` with zeros - those zeros are significant digits
    (`1000.0` has five).  On every path through that fill, the count handed to min_exact_digits must be built on
    the fill's upper bound (leading_digits), not on the count of the trimmed digits - otherwise radix 2, `2.0`,
    min 5 is padded to `10.0000` (six digits) where the decimal sibling writes `2.0000`."""
    from rules.core import enum_paths, resolve_env
    R = "UNIT-count"
    n = 0
    def find_range(x):
        if isinstance(x, tuple):
            if x and x[0] == "agg" and isinstance(x[1], tuple) and len(x[1]) > 1 and str(x[1][1]).endswith("Range") and len(x[2]) == 2:
                return x
            for y in x:
                r = find_range(y)
                if r:
                    return r
        return None
    def norm(x):
        if not isinstance(x, tuple):
            return x
        if x and x[0] == "cast":
            return norm(x[1])
        if x and x[0] == "call" and len(x) >= 3:
            return ("call", x[1], tuple(norm(y) for y in x[2]))          # without the call-instance number
        if x and x[0] in ("var", "arg") and len(x) >= 3:
            return (x[0], x[1])
        return tuple(norm(y) for y in x)
    def contains(x, sub):
        x, sub = norm(x), norm(sub)
        def walk(y):
            return y == sub or (isinstance(y, tuple) and any(walk(z) for z in y))
        return walk(x)
    for mod in ("algorithm", "compact", "binary"):
        name = WF + mod + "::write_float_positive_exponent"
        if not facts.has_fn(name):
            continue
        f = facts.fn(name)
        mins = [(bb, a) for bb, c, a, d, t in f.calls() if callee_name(c) == WF + "shared::min_exact_digits"]
        fills = []
        for bb, c, a, d, t in f.calls():
            if last_seg(callee_name(c)) == "fill" and not any(f.dominates(bm, bb) for bm, _a in mins):
                rg = find_range(op_expr(f, a[0]))
                if rg is not None:
                    fills.append((bb, strip_casts(rg[2][1])))
        if len(mins) != 1 or len(fills) != 1:
            from rules.core import ShapeUnknown
            raise ShapeUnknown("%s: %d min_exact_digits call(s), %d integer zero fill(s)" % (name, len(mins), len(fills)))
        bbm, am = mins[0]
        bbf, upper = fills[0]
        bad = None
        k = 0
        for t, atoms, env in enum_paths(f, 0, {bbm}, want_env=True, resolve_atoms=True):
            if bbf not in env["__blocks__"]:
                continue
            k += 1
            cv = strip_casts(op_expr(f, am[0]))
            if not (cv[0] in ("var", "arg") and f.defs().get(cv[1])):
                # not a multiply-assigned local: the expression itself says what is counted
                if not contains(cv, upper):
                    bad = show(cv)[:100]
                continue
            # the count is a local assigned along the way: one of its assignments on this path must take the
            # fill's upper bound (`digit_count = leading_digits`)
            taken = [rvalue_expr(f, rv, 0) for bd, _j, rv, pr in f.defs().get(cv[1], []) if not pr and bd in env["__blocks__"]]
            if not any(contains(x, upper) for x in taken):
                bad = "; ".join(show(x)[:40] for x in taken)[:120]
        n += 1
        col.check(R, "%s::write_float_positive_exponent:integer-zeros-are-digits" % mod, k > 0 and bad is None,
                  "on a path that fills the integer with zeros up to `%s`, min_exact_digits is handed `%s`: the filled zeros are not counted, so min_significant_digits pads too much (radix 2, 2.0, min 5 -> `10.0000`)" % (show(upper)[:60], bad or "no such path"), f.loc())
    col.floor(R, "positional writers for values >= 1", n, 1)


def rule_padding_not_disabled_by_trim(col, facts):
    """MPT-pad: `trim_floats` only removes the `.0` of integral outputs; it must not switch off the zero padding up
    to min_significant_digits for everything else.  For every padding site (a fill(b'0') after min_exact_digits)
    there is a path on which trim_floats() was not found false - a padding guarded by `!options.trim_floats()`
    alone drops the padding of `0.5` (min 3 -> `0.5` instead of `0.500`)."""
    from rules.pipeline import reach_from
    R = "MPT-pad"
    n = 0
    for f in facts.all_fns():
        if f.crate != "lexical_write_float" or f.kind == "Closure" or not last_seg(f.short).startswith("write_float_"):
            continue
        mins = [bb for bb, c, a, d, t in f.calls() if callee_name(c) == WF + "shared::min_exact_digits"]
        if not mins:
            continue
        def _pads(c):
            # `fill`, or a helper of this crate that does the fill (`pad_trailing_zeros(bytes, cursor, digits, exact)`)
            if last_seg(callee_name(c)) == "fill":
                return True
            return any(h.crate == f.crate and h.short != f.short and any(last_seg(callee_name(c2)) == "fill" for _b, c2, _a, _d, _t in h.calls()) for h in facts.by_short.get(callee_name(c), []))
        fills = [bb for bb, c, a, d, t in f.calls() if _pads(c) and any(bb in reach_from(f, m) for m in mins)]
        base = f.short.replace(WF, "")
        col.check(R, base + ":padding-present", bool(fills), "no zero padding after min_exact_digits", f.loc())
        for k, fb in enumerate(fills):
            n += 1
            paths = enum_paths(f, 0, {fb})
            free = 0
            for _t, atoms in paths:
                trims = [p for e, p in atoms if strip_casts(e)[0] == "call" and last_seg(strip_casts(e)[1]) == "trim_floats"]
                if not any(p is False for p in trims):
                    free += 1
            col.check(R, "%s:padding#%d" % (base, k), free >= 1,
                      "the padding up to min_significant_digits is only reachable with trim_floats() == false: trimming floats also drops the padding of non-integral outputs", f.loc(f.blocks[fb]["ts"]))
    col.floor(R, "min-digit padding sites", n, 3)


def run(col, configs, tier):
    for name, facts in configs.items():
        col.set_config(name)
        guarded(col, rule_notation, facts)
        guarded(col, rule_option_reach, facts)
        guarded(col, rule_punct, facts)
        guarded(col, rule_truncate, facts)
        guarded_soft(col, rule_binary_round, facts)
        guarded(col, rule_radix_rounding, facts)
        guarded(col, rule_point_zero_counted, facts)
        guarded(col, rule_decimal_tie, facts)
        guarded(col, rule_padding_not_disabled_by_trim, facts)
        guarded_soft(col, rule_integer_zeros_counted, facts)
        guarded(col, rule_cut_exposes_no_zeros, facts)
        guarded(col, rule_radix_positional_counts, facts)
        guarded_soft(col, X.rule_incremented_digit_in_range, facts)
        guarded_soft(col, X.rule_round_up_stores_digits, facts)
        guarded_soft(col, X.rule_zero_exponent_normalised, facts)
