"""TBL rules over lexical-write-float's embedded constants (C02, C16)."""
from fractions import Fraction

from oracle import defs as D
from rules.core import (copy_root, NotATable, tbl_eval, fold, op_local, callee_name, find_fn_suffix, AnchorMissing)
from rules.core import rvalue_expr, strip_casts

WF = "lexical_write_float::"


def is_compact(facts):
    return facts.config.startswith("compact")


def mul_shift_shape(f):
    """Recognise `q.wrapping_mul(C)[.wrapping_sub(K)] >> S [+/- A]` over parameter 1.
    Returns (C, K, S, A) or None (fail closed on any other shape)."""
    C = K = S = None
    A = 0
    cur = None
    ncalls = 0
    for _bb, callee, args, dest, _t in f.calls():
        nm = callee_name(callee)
        ncalls += 1
        if nm.endswith("wrapping_mul") and copy_root(f, args[0]) == 1 and C is None:
            C = fold(f, args[1])
            cur = dest[0]
        elif nm.endswith("wrapping_sub") and cur is not None and copy_root(f, args[0]) == cur and K is None:
            K = fold(f, args[1])
            cur = dest[0]
        else:
            return None
    for b in f.blocks:
        for st in b["s"]:
            if st[0] != "=" or st[2][0] != "bin":
                continue
            op = st[2][1]
            if op.startswith("Shr") and copy_root(f, st[2][2]) == cur and S is None:
                S = fold(f, st[2][3])
                cur = st[1][0]
            elif op in ("Lt",):
                continue            # shift-amount overflow check
            elif op.startswith("Add") or op.startswith("Sub"):
                a, bconst = fold(f, st[2][2]), fold(f, st[2][3])
                if a is not None and bconst is not None:
                    continue        # constant folding, e.g. 152_170 + 65536
                if bconst is None:
                    return None
                A += bconst if op.startswith("Add") else -bconst
            else:
                return None
    if C is None or S is None:
        return None
    return C, (K or 0), S, A


def rule_floor_logs(col, facts, tier):
    """The (C, [K,] S) triples of the five floor_log* helpers are exact on the argument ranges
    their callers can supply for f32/f64 (binary exponents -1075..=1024, decimal -350..=350)."""
    if is_compact(facts):
        return
    R = "TBL-floorlog"
    wide = tier == "thorough"
    specs = [
        # name, exact function, reachable argument range
        ("floor_log10_pow2", lambda q: D.flog_pow2(q, 10), (-1700, 1700) if wide else (-1076, 1025)),
        ("floor_log2_pow10", D.flog2_pow10, (-1233, 1233) if wide else (-350, 350)),
        ("floor_log5_pow2", lambda q: D.flog_pow2(q, 5), (-1492, 1492) if wide else (-64, 64)),
        ("floor_log5_pow2_minus_log5_3", lambda q: D.flog_pow2(q, 5, 1, 3), (-2427, 2427) if wide else (-64, 64)),
        ("floor_log10_pow2_minus_log10_4_over_3", lambda q: D.flog_pow2(q, 10, 3, 4), (-1700, 1700) if wide else (-1076, 1025)),
    ]
    for name, exact, (lo, hi) in specs:
        f = facts.fn(WF + "algorithm::" + name)
        sh = mul_shift_shape(f)
        if sh is None:
            # another spelling of the same arithmetic (`C.wrapping_mul(q) >> S`, named constants, a checked `-`):
            # read the function as the decision table of its single path and evaluate it on the same range
            from rules.pathmodel import Model, Shape as _Shape, Panic as _Panic
            try:
                m_ = Model(f, "i32")
                bad = [q for q in range(lo, hi + 1) if m_.value([q]) != exact(q)]
                col.check(R, name, not bad, "%s(q) differs from the exact value for q=%s (range %d..=%d)" % (name, bad[:5], lo, hi), f.loc())
            except _Panic as e:
                col.bad(R, name + "-panic", "an overflow check can fire inside the argument range: %s" % e, f.loc())
            except _Shape as e:
                col.assumed("not-applied", "TBL-floorlog:" + name, "neither `q.wrapping_mul(C)[.wrapping_sub(K)] >> S` nor loop-free integer arithmetic (%s): not decided" % e, f.loc())
            continue
        C, K, S, A = sh
        bad = [q for q in range(lo, hi + 1) if ((q * C - K) >> S) + A != exact(q)]
        col.check(R, name, not bad, "((q*%d-%d)>>%d)%+d differs from the exact value for q=%s (range %d..=%d)" % (C, K, S, A, bad[:5], lo, hi), f.loc())


def rule_dragonbox(col, facts, tier):
    if is_compact(facts):
        return
    R = "TBL-dragonbox"
    tp = WF + "table_dragonbox::"
    for fl, fmt, bits, tname, n_floor in (("F32", D.F32, 64, "DRAGONBOX32_POWERS_OF_FIVE", 78), ("F64", D.F64, 128, "DRAGONBOX64_POWERS_OF_FIVE", 619)):
        table = facts.const_value(tp + tname)
        lo = facts.const_value(tp + "SMALLEST_%s_POW5" % fl)
        hi = facts.const_value(tp + "LARGEST_%s_POW5" % fl)
        loc = facts.const_loc(tp + tname)
        col.check(R, "%s-length" % tname, len(table) == hi - lo + 1, "len=%d but range is [%d,%d]" % (len(table), lo, hi), loc)
        col.floor(R, tname + " rows", len(table), n_floor, loc)
        for i, row in enumerate(table):
            k = lo + i
            want = D.dragonbox_row(k, bits)
            got = row if bits == 64 else (row[0] << 64) | row[1]
            col.check(R, "%s[k=%d]" % (tname, k), got == want, "entry %#x, ceil(5^%d normalised to %d bits) = %#x" % (got, k, bits, want), loc)
        # TBL-range: every k the algorithm derives from a finite exponent lies inside the table
        # (this is the precondition of the unchecked index in dragonbox_power)
        pre = "<%s as lexical_write_float::algorithm::DragonboxFloat>::" % fl.lower()
        kappa = facts.const_value(pre + "KAPPA")
        col.check(R, "%s-KAPPA" % fl, kappa == (1 if fl == "F32" else 2), "KAPPA=%d" % kappa, facts.const_loc(pre + "KAPPA"))
        dd = facts.const_value(pre + "DECIMAL_DIGITS")
        col.check(R, "%s-DECIMAL_DIGITS" % fl, dd == (9 if fl == "F32" else 17), "DECIMAL_DIGITS=%d" % dd, facts.const_loc(pre + "DECIMAL_DIGITS"))
        emin, emax = fmt.denorm_exp, fmt.emax - fmt.mant
        ks = set()
        for e in range(emin, emax + 1):
            ks.add(-(D.flog_pow2(e, 10) - kappa))
        for e in range(emin, emax + 1):
            ks.add(-D.flog_pow2(e, 10, 3, 4))
        col.check(R, "%s-k-range" % fl, lo <= min(ks) and max(ks) <= hi,
                  "exponents of finite %s values need k in [%d,%d] but the table covers [%d,%d]: dragonbox_power would index out of bounds (unchecked)" % (fl.lower(), min(ks), max(ks), lo, hi),
                  facts.const_loc(tp + "SMALLEST_%s_POW5" % fl))
    # modular inverses used by remove_trailing_zeros
    for nm, mod, bits in (("MOD_INV_5_U32", 5, 32), ("MOD_INV_25_U32", 25, 32), ("MOD_INV_5_U64", 5, 64), ("MOD_INV_25_U64", 25, 64)):
        v = facts.const_value(WF + "algorithm::" + nm)
        col.check(R, nm, (v * mod) % (1 << bits) == 1, "%#x * %d != 1 mod 2^%d" % (v, mod, bits), facts.const_loc(WF + "algorithm::" + nm))
    # check_div_pow10 / div_pow10 magic: floor(n*magic >> shift) == n / 10^N for n <= 10^(N+1)
    for nm, N in (("F32_DIV10_INFO", 1), ("F64_DIV10_INFO", 2)):
        v = facts.const_value(WF + "algorithm::" + nm)
        fld = dict((k, x) for k, x in v["fields"])
        magic, shift = fld["magic_number"], fld["shift_amount"]
        nmax = 10 ** (N + 1)
        ok = all((n * magic) >> shift == n // 10 ** N for n in range(0, nmax + 1)) and nmax * magic < (1 << 32)
        # divisibility test: (n*magic & mask) < magic  <=> 10^N | n
        mask = (1 << shift) - 1
        ok2 = all((((n * magic) & mask) < magic) == (n % 10 ** N == 0) for n in range(0, nmax + 1))
        col.check(R, nm, ok and ok2, "magic=%d shift=%d is not a valid divide-by-10^%d / divisibility test on n <= 10^%d" % (magic, shift, N, N + 1),
                  facts.const_loc(WF + "algorithm::" + nm))
    # divide_by_pow10_32/64 magic multipliers
    f = facts.fn(WF + "algorithm::divide_by_pow10_32")
    consts = body_int_consts(f)
    if 1374389535 in consts and 37 in consts:
        col.ok(R, "divide_by_pow10_32-magic")
    mm = [(m, s) for m in consts if m > (1 << 20) for s in consts if 32 <= s < 64]
    okm = [D.magic_div_valid(m, s, 100, (1 << 32) - 1) for m, s in mm]
    col.check(R, "divide_by_pow10_32", bool(mm) and all(okm),
              "multiplier/shift %s is not floor(n/100) for all u32 n" % (mm,), f.loc())
    f = facts.fn(WF + "algorithm::divide_by_pow10_64")
    consts = body_int_consts(f)
    big = sorted(c for c in consts if c > (1 << 40))
    sh = [c for c in consts if 1 <= c < 64 and c != 3]
    # shape: (n_max <= LIMIT) guards umul128_upper64(n, M) >> S
    ok = False
    detail = "constants %s / shifts %s" % (big, sh)
    if len(big) == 2 and sh:
        M, LIMIT = min(big), max(big)
        for S in sh:
            if D.magic_div_valid(M, 64 + S, 1000, LIMIT):
                ok = True
    col.check(R, "divide_by_pow10_64", ok, "no (multiplier, shift, n_max) reading of %s is a valid floor(n/1000) for n <= n_max" % detail, f.loc())
    # remove_trailing_zeros: magic = ceil(2^90 / 10^8)
    for fl in ("f32", "f64"):
        pass
    rtz = [x for x in facts.all_fns() if x.short.endswith("DragonboxFloat::remove_trailing_zeros")]
    for f in rtz:
        consts = body_int_consts(f)
        want = -((-(1 << 90)) // 10 ** 8)
        col.check(R, "remove_trailing_zeros-magic(%s)" % f.short, want in consts,
                  "ceil(2^90/10^8) = %d not found among the constants of the default remove_trailing_zeros" % want, f.loc())


def body_int_consts(f):
    out = set()

    def walk(x):
        if isinstance(x, list):
            if len(x) == 2 and x[0] == "k" and isinstance(x[1], dict):
                v = x[1].get("v")
                if isinstance(v, int) and not isinstance(v, bool):
                    out.add(v)
            else:
                for y in x:
                    walk(y)
        elif isinstance(x, dict):
            for y in x.values():
                walk(y)

    for b in f.blocks:
        walk(b["s"])
        walk(b["t"])
    return out


def rule_grisu(col, facts):
    if not is_compact(facts):
        return
    R = "TBL-grisu"
    name = WF + "table_grisu::GRISU_POWERS_OF_TEN"
    table = facts.const_value(name)
    loc = facts.const_loc(name)
    col.floor(R, "GRISU_POWERS_OF_TEN rows", len(table), 87, loc)
    # fast_decimal_power: index*STEP - FIRST ; fast_binary_power: floor(log2 10^q) - 63
    fd = facts.fn(WF + "compact::fast_decimal_power", required=False)
    step = first = None
    if fd is not None:
        consts = sorted(body_int_consts(fd))
        for b in fd.blocks:
            for st in b["s"]:
                if st[0] == "=" and st[2][0] == "bin":
                    k = fold(fd, st[2][3])
                    if st[2][1].startswith("Mul") and k is not None:
                        step = k
                    if st[2][1].startswith("Sub") and k is not None:
                        first = -k
        if step is None or first is None:
            col.bad(R, "fast_decimal_power-shape", "not `index*STEP - FIRST` any more (constants %s)" % consts, fd.loc())
            return
    else:
        # the helper was inlined: read `FIRST + idx * STEP` off the argument of fast_binary_power in cached_grisu_power
        from rules.core import op_expr, strip_casts, callee_name, last_seg
        cg0 = facts.fn(WF + "compact::cached_grisu_power")
        def const_of(x):
            x = strip_casts(x)
            if x[0] == "k" and isinstance(x[1], int):
                return x[1]
            if x[0] == "kc" and isinstance(x[2], int):
                return x[2]
            return None
        for bb, c, a, d, t in cg0.calls():
            if last_seg(callee_name(c)) != "fast_binary_power":
                continue
            e = strip_casts(op_expr(cg0, a[0]))
            if e[0] == "bin" and e[1] in ("Add", "Sub"):
                for lin, k, sign in ((e[2], e[3], 1 if e[1] == "Add" else -1), (e[3], e[2], 1)):
                    lin = strip_casts(lin)
                    if const_of(k) is not None and lin[0] == "bin" and lin[1] == "Mul" and e[1] == "Add" or (const_of(k) is not None and lin[0] == "bin" and lin[1] == "Mul" and lin is strip_casts(e[2])):
                        ms = [const_of(lin[2]), const_of(lin[3])]
                        ms = [m for m in ms if m is not None]
                        if len(ms) == 1:
                            step, first = ms[0], sign * const_of(k)
        if step is None or first is None:
            col.assumed("not-applied", "TBL-grisu:decimal-exponent-of-index", "neither fast_decimal_power nor an inlined `FIRST + idx * STEP` argument of fast_binary_power was found: the table's exponents are not decided")
            return
    from rules.tbl_write_float import mul_shift_shape as mss
    fb = facts.fn(WF + "compact::fast_binary_power")
    sh = mss(fb)
    if sh is None:
        from rules.pathmodel import Model, Shape as _Shape, Panic as _Panic
        try:
            m_ = Model(fb, "i32")
            m_.value([0])
            bpow = lambda q: m_.value([q])
        except (_Shape, _Panic) as e:
            col.assumed("not-applied", "TBL-grisu:fast_binary_power", "fast_binary_power is neither `(q.wrapping_mul(C) >> S) - A` nor loop-free integer arithmetic (%s): exponents not decided" % e, fb.loc())
            return
        C = K = S = A = None
    else:
        C, K, S, A = sh
        bpow = lambda q: ((q * C - K) >> S) + A
    for i, m in enumerate(table):
        q = first + step * i
        em, ee = D.norm_pow(10, q, 64, "nearest")
        if em == (1 << 64):
            em >>= 1
            ee += 1
        be = bpow(q)
        col.check(R, "GRISU_POWERS_OF_TEN[%d]" % i, m == em and be == ee,
                  "entry %#x / exponent %d, 10^%d rounded to 64 bits is %#x * 2^%d (Grisu's 1/2-ulp cached-power bound needs nearest)" % (m, be, q, em, ee), loc)
    # the constants inside cached_grisu_power must agree with the table and the helper
    cg = facts.fn(WF + "compact::cached_grisu_power")
    consts = body_int_consts(cg)
    col.check(R, "cached_grisu_power-consts", len(table) in consts and first in consts and step in consts,
              "NPOWERS/FIRSTPOWER/STEPPOWERS %s do not match table length %d, first %d, step %d" % (sorted(consts), len(table), first, step), cg.loc())
    # coverage: the loop terminates inside the table for every reachable exponent: for exp in range, some idx has
    # EXPMIN <= exp + binexp(idx) + 64 <= EXPMAX
    lo_e, hi_e = -1075 - 64 - 1, 1024 + 64 + 1
    be_of = [bpow(first + step * i) for i in range(len(table))]
    uncovered = [e for e in range(lo_e, hi_e + 1) if not any(-60 <= e + b + 64 <= -32 for b in be_of)]
    col.check(R, "cached-power-coverage", not uncovered and -60 in consts and -32 in consts,
              "binary exponents %s have no cached power with -60 <= e+binexp+64 <= -32: the search loop walks out of the table" % uncovered[:5], cg.loc())


def rule_dragonbox_integer_window(col, facts):
    """TBL-range (endpoint integrality): in compute_nearest_normal the left endpoint `x` of the rounding
    interval is tested for being an integer only when FC_PM_HALF_LOWER <= e <= DIV_BY_5_THRESHOLD; outside
    that window the code *assumes* it is not.  x = (2f - 1) * 2^(e-1) * 10^(-k) with k = floor_log10_pow2(e)
    - kappa: for k <= 0 it is an integer iff e - 1 - k >= 0; for k > 0 iff 5^k divides the odd number 2f - 1
    < 2^(p+1), which is possible as long as 5^k < 2^(p+1).  The window must contain every exponent where an
    integer is possible, otherwise an even significand whose lower boundary is a short decimal is printed
    with more digits than the shortest (8.55e21 -> 16 digits)."""
    from rules.pathmodel import Model, Shape, Panic
    if facts.config.startswith("compact"):
        return
    R = "TBL-range"
    WFA = "lexical_write_float::algorithm::"
    helpers = {}
    for n in ("floor_log5_pow2", "floor_log2_pow10", "floor_log10_pow2", "floor_log2"):
        f = facts.fn(WFA + n, required=False)
        if f is not None:
            try:
                helpers[WFA + n] = Model(f, "i32", helpers)
            except (Shape, Panic):
                pass
    for fl, mant, kappa, emin, emax in (("f32", 23, 1, -149, 104), ("f64", 52, 2, -1074, 971)):
        def k_of(e):
            return D.floor_log10_pow2(e) - kappa if hasattr(D, "floor_log10_pow2") else ((e * 1262611) >> 22) - kappa
        import math
        def flog10p2(e):
            # floor(e * log10(2)) exactly
            from fractions import Fraction
            # 2^e >= 10^q  <=> q <= e*log10 2 ; find q by integer comparison
            q = int(math.floor(e * math.log10(2)))
            while (Fraction(10) ** (q + 1)) <= Fraction(2) ** e:
                q += 1
            while (Fraction(10) ** q) > Fraction(2) ** e:
                q -= 1
            return q
        possible = []
        for e in range(emin, emax + 1):
            k = flog10p2(e) - kappa
            if k <= 0:
                if e - 1 - k >= 0:
                    possible.append(e)
            else:
                if 5 ** k < (1 << (mant + 2)):
                    possible.append(e)
        lo_need, hi_need = min(possible), max(possible)
        vals = {}
        for cname in ("FC_PM_HALF_LOWER", "DIV_BY_5_THRESHOLD"):
            cf = facts.const_fn(WFA + "DragonboxFloat::" + cname)
            try:
                m = Model(cf, "i32", helpers, {"MANTISSA_SIZE": mant, "KAPPA": kappa})
                vals[cname] = m.value([])
            except (Shape, Panic) as ex:
                col.bad(R, "%s:%s-shape" % (fl, cname), "cannot evaluate the constant's initialiser as integer arithmetic over MANTISSA_SIZE / KAPPA and the floor_log helpers (%s)" % ex, facts.const_loc(WFA + "DragonboxFloat::" + cname))
        if len(vals) == 2:
            col.check(R, "%s:FC_PM_HALF_LOWER" % fl, vals["FC_PM_HALF_LOWER"] <= lo_need,
                      "= %d, but the left endpoint can already be an integer at exponent %d" % (vals["FC_PM_HALF_LOWER"], lo_need), facts.const_loc(WFA + "DragonboxFloat::FC_PM_HALF_LOWER"))
            col.check(R, "%s:DIV_BY_5_THRESHOLD" % fl, vals["DIV_BY_5_THRESHOLD"] >= hi_need,
                      "= %d, but up to exponent %d the odd number 2f - 1 < 2^%d can be divisible by 5^k (k = floor_log10_pow2(e) - %d): above the threshold the integer test is skipped and such floats are printed with more digits than the shortest round-tripping decimal" % (vals["DIV_BY_5_THRESHOLD"], hi_need, mant + 2, kappa), facts.const_loc(WFA + "DragonboxFloat::DIV_BY_5_THRESHOLD"))
    # f32: the `is_integer` word of compute_mul_parity is the 32 bits below the parity bit
    f = facts.fn("<f32 as lexical_write_float::algorithm::DragonboxFloat>::compute_mul_parity")
    ok = False
    for i, b in enumerate(f.blocks):
        for st in b["s"]:
            if st[0] == "=" and st[2][0] == "bin" and st[2][1] == "Eq":
                e = rvalue_expr(f, st[2], 0)
                x = e[2]
                if isinstance(x, tuple) and x[0] == "cast" and x[2] == "u32" and strip_casts(x)[0] == "bin" and strip_casts(x)[1] == "Shr":
                    ok = True
    col.check(R, "f32:compute_mul_parity:is_integer-width", ok,
              "the integer test of the f32 variant compares the whole 64-bit word `r >> (32 - beta)` with 0 instead of its low 32 bits (the fractional part): endpoints that are integers are never recognised", f.loc())
