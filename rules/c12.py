"""C12 — syntax flags accept exactly the documented grammar: flag plumbing (DESIGN §4)."""
from rules import syntax as S
from rules.core import guarded, guarded_soft
from rules import extra as X

INFO = {
    "explanation": "Each NumberFormat::<F>::NAME is shown to read exactly flags::NAME (and each getter its own const); without `format` the hard-coded consts equal STANDARD's bits; every flag-specific error in parse_number / parse_*sign is constructed only on paths where that flag's getter tested true, and still is constructed somewhere; '-' yields a negative only under T::IS_SIGNED; every syntax flag is read by the parser(s) it concerns.",
    "not_decided": "acceptance equivalence with a reference grammar over all strings",
    "assumptions": ["rustc's const evaluator and MIR builder"],
}


def run(col, configs, tier):
    for name, facts in configs.items():
        col.set_config(name)
        guarded(col, S.rule_getters, facts)
        guarded(col, S.rule_error_pairing, facts)
        guarded(col, S.rule_flags_enforced, facts)
        guarded_soft(col, X.rule_suffix_needs_digit, facts)
        guarded_soft(col, X.rule_grammar_guards, facts)
        guarded_soft(col, X.rule_pattern_before_input, facts)
        guarded_soft(col, X.rule_empty_number_exit, facts)
        guarded_soft(col, X.rule_required_sign_enforced, facts)
        guarded_soft(col, X.rule_empty_component_counts_digits, facts)
        guarded_soft(col, X.rule_absent_punctuation_guarded, facts)
