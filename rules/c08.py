"""C08 — what lexical writes, lexical parses back: interface agreement only (DESIGN §4)."""
from rules.core import (guarded, guarded_soft, callee_name, last_seg, path_conditions, reach_alternatives, op_expr, rvalue_expr, show,
                        strip_casts, expr_calls, expr_consts, strip_generics, AnchorMissing)

INFO = {
    "explanation": "Writer and parser are compared as two readers of one packed format: the mixed-base (radix, exponent_base) pairs the float writer asserts equal those every ParseFloat entry accepts; every write_integer::<F, MASK, SHIFT> / radix_from_flags instantiation uses a matching (MASK, SHIFT) pair of the radix it is meant for (mantissa vs exponent), mirroring the parser's per-component radices; the sign / notation flags the writer branches on are ones the parser enforces, with the same polarity ('+' only under required_*_sign, scientific notation never under no_exponent_notation and always under required_exponent_notation); punctuation and special strings are read through same-named option getters on both sides.",
    "not_decided": "value equality after the round trip",
    "assumptions": ["rustc's MIR builder"],
}

WF = "lexical_write_float::"
PF = "lexical_parse_float::"
FL = "lexical_util::format_flags::"


def mixed_pairs(f):
    """Pairs (a, b) accepted by `matches!((x, y), (a, b) | ...)` in f, read off the edges into the
    block that sets the match flag true."""
    pairs = set()
    for i, b in enumerate(f.blocks):
        if not f.live(i):
            continue
        for st in b["s"]:
            if st[0] == "=" and st[2][0] == "use" and st[2][1][0] == "k" and st[2][1][1].get("v") is True and st[2][1][1].get("ty") == "bool":
                for alt in reach_alternatives(f, i):
                    a = bvals = None
                    radix_ne = False
                    for _d, e, p in alt:
                        e = strip_casts(e)
                        if e[0] == "bin" and e[1] == "Ne" and p is True and {last_seg(c[1]) for c in expr_calls(e)} == {"radix", "exponent_base"}:
                            radix_ne = True
                        if e[0] == "proj" and strip_casts(e[1])[0] == "agg" and isinstance(p, tuple):
                            names = [last_seg(c[1]) for c in expr_calls(strip_casts(e[1]))]
                            if names[:2] == ["radix", "exponent_base"]:
                                vals = (p[1],) if p[0] == "eq" else (p[1] if p[0] == "in" else ())
                                if e[2] == (0,):
                                    a = vals
                                elif e[2] == (1,):
                                    bvals = vals
                    if radix_ne and a and bvals:
                        for x in a:
                            for y in bvals:
                                pairs.add((x, y))
    return pairs


def rule_mixed(col, facts):
    R = "KEY-mixed"
    if "power-of-two" not in facts.config and "radix" not in facts.config:
        return
    w = mixed_pairs(facts.fn(WF + "write::WriteFloat::write_float"))
    col.check(R, "writer-pairs", len(w) >= 1, "could not read the writer's mixed-base assertion", "lexical-write-float/src/write.rs")
    for m in ("parse_complete", "parse_partial", "fast_path_complete", "fast_path_partial"):
        f = facts.fn(PF + "parse::ParseFloat::" + m)
        p = mixed_pairs(f)
        if not p:
            # the literal pair list is not in the entry point itself (moved into a helper, or written as a table
            # keyed by the base): evaluate which mixed pairs reach the back-end
            from rules import dispatch as _dp
            p = _dp.admitted_mixed_pairs(facts, f, m)
        col.check(R, "parser:" + m, p == w and bool(p),
                  "parser admits mixed (radix, exponent_base) pairs %s but the writer asserts %s: one side emits/accepts hex-float forms the other rejects" % (sorted(p), sorted(w)), f.loc())


def rule_mask_shift(col, facts):
    """PAIR-mask: (MASK, SHIFT) const arguments are matching pairs and select the radix the caller means."""
    R = "PAIR-mask"
    masks = {}
    for nm in ("RADIX", "MANTISSA_RADIX", "EXPONENT_RADIX", "EXPONENT_BASE"):
        masks[(facts.const_value(FL + nm), facts.const_value(FL + nm + "_SHIFT"))] = nm
    n = 0
    for f in facts.all_fns():
        if f.crate not in ("lexical_write_integer", "lexical_write_float"):
            continue
        for bb, c, a, d, t in f.calls():
            cargs = [x for x in (c.get("cargs") or []) if isinstance(x, int)]
            cn = callee_name(c)
            if len(cargs) == 2 and (cn.endswith(("::write_integer", "::write_integer_signed", "Radix::radix", "::get_table", "algorithm::algorithm_u128", "Decimal::decimal", "Compact::compact"))):
                mask, shift = cargs
                shift_s = shift if shift < (1 << 31) else shift - (1 << 32)
                n += 1
                nm = masks.get((mask, shift_s))
                base = f.short if f.kind != "Closure" else f.closure_of
                want = None
                if last_seg(base).startswith("write_mantissa"):
                    want = ("RADIX", "MANTISSA_RADIX")
                if last_seg(base).startswith("write_exponent"):
                    want = ("EXPONENT_RADIX",)
                col.check(R, "%s->%s" % (base, last_seg(cn)), nm is not None and (want is None or nm in want),
                          "instantiated with MASK=%#x SHIFT=%d: %s" % (mask, shift_s, "not a (MASK, SHIFT) pair of format_flags" if nm is None else "selects %s but the caller writes the %s" % (nm, "mantissa" if want and want[0] == "RADIX" else "exponent")),
                          f.loc(f.blocks[bb]["ts"]))
    col.floor(R, "MASK/SHIFT instantiations", n, 4)
    # the float writer writes exponent digits through write_exponent_signed
    we = facts.fn(WF + "shared::write_exponent")
    calls = [callee_name(c) for _b, c, _a, _d, _t in we.calls()]
    col.check(R, "write_exponent->write_exponent_signed", any(x.endswith("WriteInteger::write_exponent_signed") for x in calls) and any(x.endswith("shared::write_exponent_sign") for x in calls),
              "shared::write_exponent calls %s" % calls, we.loc())
    # exponent character written is the caller's `exponent_character`, which comes from options.exponent()
    n2 = 0
    for f in facts.all_fns():
        if f.crate != "lexical_write_float":
            continue
        for bb, c, a, d, t in f.calls():
            if callee_name(c) == WF + "shared::write_exponent":
                n2 += 1
                e = strip_casts(op_expr(f, a[3]))
                ok = any(x[1].endswith("Options::exponent") for x in expr_calls(e)) or e[0] == "arg" or e[0] == "var"
                col.check(R, "exponent-char@%s" % f.short.replace(WF, ""), ok, "exponent character `%s` does not come from options.exponent()" % show(e), f.loc(f.blocks[bb]["ts"]))
    col.floor(R, "write_exponent call sites", n2, 1)


def _mentions_byte(x, value):
    """Does a raw MIR rvalue / operand mention the u8 constant `value` (a direct store `bytes[i] = b'+'`, or the
    byte wrapped on its way there: `Some(b'+')`, `let c = b'+'`)?"""
    if isinstance(x, dict):
        return x.get("v") == value and x.get("ty") == "u8"
    if isinstance(x, (tuple, list)):
        return any(_mentions_byte(y, value) for y in x)
    return False


def rule_flag_polarity(col, facts):
    """KEY-flags: sign and notation flags have the same meaning for the writer as for the parser."""
    R = "KEY-flags"
    fmt = "format" in facts.config
    # '+' stores
    wf = facts.fn(WF + "write::WriteFloat::write_float")
    wes = facts.fn(WF + "shared::write_exponent_sign")
    for f, getter in ((wf, "required_mantissa_sign"), (wes, "required_exponent_sign")):
        plus = []
        for i, b in enumerate(f.blocks):
            if not f.live(i):
                continue
            for st in b["s"]:
                if st[0] == "=" and _mentions_byte(st[2], 43):
                    plus.append((i, st))
        if fmt:
            col.check(R, "%s:plus-present" % getter, bool(plus), "no b'+' store although the format can require a sign", f.loc())
        for i, st in plus:
            # on every feasible path to the store the getter was found true (boolean locals such as
            # `let explicit_plus = cfg!(..) && format.required_exponent_sign()` are read along the path)
            from rules.core import bool_resolved_atoms, enum_paths
            ok = True
            seen_paths = 0
            for _t, atoms0, env in enum_paths(f, 0, {i}, want_env=True):
                atoms, feasible = bool_resolved_atoms(f, atoms0, env)
                if not feasible:
                    continue
                seen_paths += 1
                if not any(e[0] == "call" and last_seg(e[1]) == getter and p is True for e, p in atoms):
                    ok = False
            # (no feasible path: the store cannot be reached in this configuration - `cfg!(feature = "format") && ..`)
            col.check(R, "%s:plus-polarity" % getter, ok, "b'+' is written on a path where %s() was not tested true" % getter, f.loc(st[3]))
    # '-' for negative exponent under exp < 0
    for i, b in enumerate(wes.blocks):
        if not wes.live(i):
            continue
        for st in b["s"]:
            if st[0] == "=" and st[1][1] and st[2][0] == "use" and st[2][1][0] == "k" and st[2][1][1].get("v") == 45:
                conds = path_conditions(wes, i)
                ok = any(strip_casts(e)[0] == "bin" and strip_casts(e)[1] == "Lt" and strip_casts(strip_casts(e)[3]) == ("k", 0) and p is True for _d, e, p in conds)
                col.check(R, "exponent-minus", ok, "b'-' written for the exponent without `exp < 0`", wes.loc(st[3]))
    # (notation: scientific writers only when !no_exponent_notation, always when required_exponent_notation -
    #  decided path by path by c14.rule_notation (CFG-notation), which run() applies to this property as well)
    # option getters used on both sides
    def getters(crate):
        out = set()
        for f in facts.all_fns():
            if f.crate == crate and "options::" not in f.short:
                for _b, c, _a, _d, _t in f.calls():
                    cn = callee_name(c)
                    if cn.startswith(crate + "::options::Options::"):
                        out.add(last_seg(cn))
        return out
    w, p = getters("lexical_write_float"), getters("lexical_parse_float")
    for g in ("decimal_point", "exponent", "nan_string", "inf_string"):
        col.check(R, "option:" + g, g in w and g in p, "option getter %s() is read by writer=%s parser=%s" % (g, g in w, g in p), "")


def rule_exponent_sign_paths(col, facts):
    """KEY-flags (exponent sign, exactly-when): in write_exponent_sign every path on which the exponent is not
    negative must consult required_exponent_sign() and, when it is true, store '+': the parser demands a sign
    for *every* exponent under that flag, including 0."""
    from rules.core import enum_paths
    if "format" not in facts.config:
        return
    R = "KEY-flags"
    f = facts.fn(WF + "shared::write_exponent_sign")
    plus = set()
    for i, b in enumerate(f.blocks):
        if not f.live(i):
            continue
        for st in b["s"]:
            if st[0] == "=" and _mentions_byte(st[2], 43):
                plus.add(i)
    rets = {i for i, b in enumerate(f.blocks) if f.live(i) and b["t"]["k"] == "return"}
    n = 0
    for t, atoms, env in enum_paths(f, 0, rets, want_env=True):
        neg = None
        req = None
        other = []
        from rules.core import bool_resolved_atoms
        atoms, feasible = bool_resolved_atoms(f, atoms, env)
        if not feasible:
            continue
        for e, p in atoms:
            if e[0] == "bin" and e[1] == "Lt" and strip_casts(e[3]) == ("k", 0) and strip_casts(e[2])[0] == "arg":
                neg = p
            elif e[0] == "bin" and e[1] == "Ge" and strip_casts(e[3]) == ("k", 0) and strip_casts(e[2])[0] == "arg" and isinstance(p, bool):
                neg = not p
            elif e[0] == "call" and last_seg(e[1]) == "is_negative" and e[2] and strip_casts(e[2][0])[0] == "arg":
                neg = p
            elif e[0] == "call" and last_seg(e[1]) == "required_exponent_sign":
                req = p
            elif e[0] == "bin" and any(strip_casts(x)[0] == "arg" for x in (e[2], e[3])):
                other.append(show(e))
        if neg is not False:
            continue
        n += 1
        wrote = bool(plus & env["__blocks__"])
        col.check(R, "write_exponent_sign:nonnegative-path#%d" % n, req is not None and wrote == (req is True),
                  "a path for a non-negative exponent %s (extra tests on the exponent: %s): with required_exponent_sign the writer must emit '+' for every exponent >= 0, the parser rejects `e0`" % ("does not consult required_exponent_sign()" if req is None else ("stores no '+' although the flag is true" if req else "stores '+' although the flag is false"), other or "none"), f.loc())
    col.floor(R, "non-negative exponent paths", n, 2)


def run(col, configs, tier):
    for name, facts in configs.items():
        col.set_config(name)
        guarded(col, rule_mixed, facts)
        guarded(col, rule_mask_shift, facts)
        guarded(col, rule_flag_polarity, facts)
        from rules import c14 as _c14
        guarded(col, _c14.rule_notation, facts)
        guarded(col, rule_exponent_sign_paths, facts)
        from rules import extra as X2
        guarded_soft(col, X2.rule_trim_needs_fraction_flag, facts)
        guarded_soft(col, X2.rule_mantissa_plus_paths, facts)
        from rules import extra as X
        guarded_soft(col, X.rule_mixed_base_scaling, facts)
        guarded_soft(col, X.rule_incremented_digit_in_range, facts)
        guarded_soft(col, X.rule_lemire_precision_and_window, facts)
        # the writer always prints an integer digit: what the parser's grammar guards do to `0.5`, `0e5` decides
        # whether its output is accepted
        guarded_soft(col, X.rule_grammar_guards, facts)
        from rules import syntax as S8
        guarded(col, S8.rule_getters, facts)
        from rules import c15
        guarded(col, c15.rule_parse_specials, facts)
        guarded_soft(col, c15.rule_write_specials, facts)
