"""Format / options validation rules (C18, parts of C12 and C16): flag layout, builder<->flag
pairing, the constraint table of format_error_impl, validation before use at every entry."""
import re

from rules.core import (tbl_eval, NotATable, path_conditions, op_expr, local_expr, place_expr, show, strip_casts,
                        expr_calls, expr_consts, callee_name, last_seg, find_fn_suffix, AnchorMissing, fold)

FL = "lexical_util::format_flags::"
BUILDER = "lexical_util::format_builder::NumberFormatBuilder"

BOOL_FLAGS = [
    "REQUIRED_INTEGER_DIGITS", "REQUIRED_FRACTION_DIGITS", "REQUIRED_EXPONENT_DIGITS", "REQUIRED_MANTISSA_DIGITS",
    "NO_POSITIVE_MANTISSA_SIGN", "REQUIRED_MANTISSA_SIGN", "NO_EXPONENT_NOTATION", "NO_POSITIVE_EXPONENT_SIGN",
    "REQUIRED_EXPONENT_SIGN", "NO_EXPONENT_WITHOUT_FRACTION", "NO_SPECIAL", "CASE_SENSITIVE_SPECIAL",
    "NO_INTEGER_LEADING_ZEROS", "NO_FLOAT_LEADING_ZEROS", "REQUIRED_EXPONENT_NOTATION", "CASE_SENSITIVE_EXPONENT",
    "CASE_SENSITIVE_BASE_PREFIX", "CASE_SENSITIVE_BASE_SUFFIX",
    "INTEGER_INTERNAL_DIGIT_SEPARATOR", "FRACTION_INTERNAL_DIGIT_SEPARATOR", "EXPONENT_INTERNAL_DIGIT_SEPARATOR",
    "INTEGER_LEADING_DIGIT_SEPARATOR", "FRACTION_LEADING_DIGIT_SEPARATOR", "EXPONENT_LEADING_DIGIT_SEPARATOR",
    "INTEGER_TRAILING_DIGIT_SEPARATOR", "FRACTION_TRAILING_DIGIT_SEPARATOR", "EXPONENT_TRAILING_DIGIT_SEPARATOR",
    "INTEGER_CONSECUTIVE_DIGIT_SEPARATOR", "FRACTION_CONSECUTIVE_DIGIT_SEPARATOR", "EXPONENT_CONSECUTIVE_DIGIT_SEPARATOR",
    "SPECIAL_DIGIT_SEPARATOR",
]
CHAR_FIELDS = ["DIGIT_SEPARATOR", "BASE_PREFIX", "BASE_SUFFIX", "MANTISSA_RADIX", "EXPONENT_BASE", "EXPONENT_RADIX"]


def flag_values(facts):
    return {n: facts.const_value(FL + n) for n in BOOL_FLAGS}


def rule_flag_layout(col, facts):
    """TBL-flags: 31 distinct single-bit flags, six 8-bit fields with MASK == 0xFF << SHIFT, nothing overlaps,
    and the aggregate masks are exactly the unions their names say."""
    R = "TBL-flags"
    vals = flag_values(facts)
    seen = {}
    for n, v in vals.items():
        ok = v > 0 and v & (v - 1) == 0 and v < (1 << 64)
        col.check(R, n + "-single-bit", ok, "%s = %#x is not a single bit in the low 64 bits" % (n, v), facts.const_loc(FL + n))
        col.check(R, n + "-distinct", v not in seen, "%s shares its bit with %s" % (n, seen.get(v)), facts.const_loc(FL + n))
        seen[v] = n
    allflags = 0
    for v in vals.values():
        allflags |= v
    masks = 0
    for n in CHAR_FIELDS:
        m = facts.const_value(FL + n)
        s = facts.const_value(FL + n + "_SHIFT")
        col.check(R, n + "-mask", m == 0xFF << s and s >= 64 and s + 8 <= 128, "%s = %#x but %s_SHIFT = %d" % (n, m, n, s), facts.const_loc(FL + n))
        col.check(R, n + "-disjoint", m & masks == 0 and m & allflags == 0, "%s overlaps another field or a flag bit" % n, facts.const_loc(FL + n))
        masks |= m

    def union(names):
        u = 0
        for x in names:
            u |= vals[x]
        return u
    groups = {
        "REQUIRED_DIGITS": [n for n in BOOL_FLAGS if n.startswith("REQUIRED_") and n.endswith("_DIGITS")],
        "INTERNAL_DIGIT_SEPARATOR": [n for n in BOOL_FLAGS if n.endswith("_INTERNAL_DIGIT_SEPARATOR")],
        "LEADING_DIGIT_SEPARATOR": [n for n in BOOL_FLAGS if n.endswith("_LEADING_DIGIT_SEPARATOR")],
        "TRAILING_DIGIT_SEPARATOR": [n for n in BOOL_FLAGS if n.endswith("_TRAILING_DIGIT_SEPARATOR")],
        "CONSECUTIVE_DIGIT_SEPARATOR": [n for n in BOOL_FLAGS if n.endswith("_CONSECUTIVE_DIGIT_SEPARATOR")],
        "INTEGER_DIGIT_SEPARATOR_FLAG_MASK": [n for n in BOOL_FLAGS if n.startswith("INTEGER_") and n.endswith("_DIGIT_SEPARATOR")],
        "FRACTION_DIGIT_SEPARATOR_FLAG_MASK": [n for n in BOOL_FLAGS if n.startswith("FRACTION_") and n.endswith("_DIGIT_SEPARATOR")],
        "EXPONENT_DIGIT_SEPARATOR_FLAG_MASK": [n for n in BOOL_FLAGS if n.startswith("EXPONENT_") and n.endswith("_DIGIT_SEPARATOR")],
        "DIGIT_SEPARATOR_FLAG_MASK": [n for n in BOOL_FLAGS if n.endswith("_DIGIT_SEPARATOR")],
        "FLAG_MASK": BOOL_FLAGS,
    }
    for g, names in groups.items():
        v = facts.const_value(FL + g)
        col.check(R, g, v == union(names), "%s = %#x is not the union of %s" % (g, v, ", ".join(names[:4]) + ("..." if len(names) > 4 else "")), facts.const_loc(FL + g))


def rule_builder_pairs(col, facts):
    """PAIR-builder: each boolean builder field is ORed in by build_unchecked as exactly flags::UPPER(field),
    read back by rebuild from the same bit into the same field, set by the same-named setter and
    returned by get_<field>; character/radix fields use their own (MASK, SHIFT)."""
    R = "PAIR-builder"
    variants = facts.adts.get(BUILDER)
    if not variants:
        raise AnchorMissing("struct %s not found" % BUILDER)
    fields = variants[0]["fields"]
    bu = facts.fn(BUILDER + "::build_unchecked")
    # ---- build_unchecked: `if self.<f> { format |= flags::X }`
    pairs = {}
    for i, b in enumerate(bu.blocks):
        for st in b["s"]:
            if st[0] == "=" and st[2][0] == "bin" and st[2][1] == "BitOr":
                rhs = st[2][3]
                if rhs[0] == "k" and "uneval" in rhs[1] and rhs[1]["uneval"].startswith(FL):
                    flag = last_seg(rhs[1]["uneval"])
                    conds = path_conditions(bu, i)
                    if not conds:
                        col.bad(R, "build_unchecked:%s" % flag, "flag is ORed in unconditionally", bu.loc(st[3]))
                        continue
                    _d, e, pol = conds[-1]
                    fld = field_of_self(e, fields)
                    pairs[flag] = (fld, pol, bu.loc(st[3]))
    for flag in BOOL_FLAGS:
        want = flag.lower()
        got = pairs.get(flag)
        col.check(R, "build_unchecked:%s" % flag, got is not None and got[0] == want and got[1] is True,
                  "flags::%s is set from %s (expected `if self.%s`)" % (flag, ("self.%s == %s" % (got[0], got[1])) if got else "nothing", want),
                  got[2] if got else bu.loc())
    extra = sorted(set(pairs) - set(BOOL_FLAGS) - {"DIGIT_SEPARATOR_FLAG_MASK"})
    col.check(R, "build_unchecked:no-extra-flags", not extra, "unexpected flags ORed in: %s" % extra, bu.loc())
    col.floor(R, "boolean fields paired in build_unchecked", len([f for f in BOOL_FLAGS if f in pairs]), 31, bu.loc())
    # character fields: `format |= (unwrap_or_zero(self.<f>) as u128) << flags::<F>_SHIFT`
    shifts = {}
    for i, b in enumerate(bu.blocks):
        for st in b["s"]:
            if st[0] == "=" and st[2][0] == "bin" and st[2][1].startswith("Shl"):
                rhs = st[2][3]
                e_r = op_expr(bu, rhs)
                names = [last_seg(c[1]) for c in expr_consts(e_r)]
                e_l = strip_casts(op_expr(bu, st[2][2]))
                f = None
                if e_l[0] == "call" and e_l[1].endswith("unwrap_or_zero"):
                    f = field_of_self(e_l[2][0], fields)
                else:
                    f = field_of_self(e_l, fields)
                for n in names:
                    if n.endswith("_SHIFT"):
                        shifts[n] = (f, bu.loc(st[3]))
    for n in CHAR_FIELDS:
        got = shifts.get(n + "_SHIFT")
        col.check(R, "build_unchecked:%s_SHIFT" % n, got is not None and got[0] == n.lower(),
                  "value shifted by flags::%s_SHIFT comes from %s (expected self.%s)" % (n, got[0] if got else None, n.lower()), got[1] if got else bu.loc())
    # ---- rebuild: aggregate in field order
    rb = facts.fn(BUILDER + "::rebuild")
    agg = None
    for b in rb.blocks:
        for st in b["s"]:
            if st[0] == "=" and st[2][0] == "agg" and st[2][1][0] == "adt" and st[2][1][1] == BUILDER:
                agg = st
    if agg is None:
        col.bad(R, "rebuild-shape", "rebuild no longer constructs NumberFormatBuilder with one aggregate", rb.loc())
    else:
        ops = agg[2][2]
        for idx, o in enumerate(ops):
            fname = fields[idx]
            e = strip_casts(op_expr(rb, o))
            if fname.upper() in BOOL_FLAGS:
                names = [last_seg(c[1]) for c in expr_consts(e)]
                ok = (e[0] == "bin" and e[1] == "Ne" and names == [fname.upper()])
                col.check(R, "rebuild:%s" % fname, ok, "field %s is rebuilt from `%s` (expected `format & flags::%s != 0`)" % (fname, show(e), fname.upper()), rb.loc(agg[3]))
            else:
                calls = [c[1] for c in expr_calls(e)]
                want = FL + fname
                col.check(R, "rebuild:%s" % fname, want in calls or (fname == "mantissa_radix" and FL + "mantissa_radix" in calls),
                          "field %s is rebuilt from `%s` (expected flags::%s(format))" % (fname, show(e), fname), rb.loc(agg[3]))
    # flags::<field>(format) uses its own MASK and SHIFT
    for n in CHAR_FIELDS:
        g = facts.fn(FL + n.lower())
        cs = set()
        for b in g.blocks:
            for st in b["s"]:
                if st[0] == "=" and st[2][0] == "bin" and (st[2][1] == "BitAnd" or st[2][1].startswith("Shr")):
                    for c in expr_consts(op_expr(g, st[2][3])):
                        cs.add(last_seg(c[1]))
        col.check(R, "flags::%s-mask-shift" % n.lower(), {n, n + "_SHIFT"} <= cs and not (cs - {n, n + "_SHIFT"}),
                  "extractor uses %s (expected %s and %s_SHIFT)" % (sorted(cs), n, n), g.loc())
    # ---- getters and setters
    ng = ns = 0
    for idx, fname in enumerate(fields):
        g = facts.by_short.get(BUILDER + "::get_" + fname)
        if g:
            f = g[0]
            ret = returned_field(f)
            ng += 1
            col.check(R, "getter:get_%s" % fname, ret == idx, "get_%s returns field %s" % (fname, fields[ret] if isinstance(ret, int) and ret < len(fields) else ret), f.loc())
        else:
            col.bad(R, "getter:get_%s" % fname, "getter missing", "")
        s = facts.by_short.get(BUILDER + "::" + fname)
        if s:
            f = s[0]
            w = written_fields(f)
            ns += 1
            col.check(R, "setter:%s" % fname, idx in w, "%s(..) assigns fields %s, not %s" % (fname, [fields[x] for x in w if x < len(fields)], fname), f.loc())
    col.floor(R, "getters", ng, len(fields))
    if "format" in facts.config:
        col.floor(R, "setters", ns, 31 if ("power-of-two" in facts.config or "radix" in facts.config) else 29)


def field_of_self(e, fields):
    """`(*self).<i>` -> field name"""
    e = strip_casts(e)
    if e[0] == "proj" and e[1][0] == "arg" and e[1][1] == 1:
        idx = [p for p in e[2] if isinstance(p, int)]
        if len(idx) == 1 and idx[0] < len(fields):
            return fields[idx[0]]
    return None


def returned_field(f):
    for b in f.blocks:
        for st in b["s"]:
            if st[0] == "=" and st[1] == [0, []] and st[2][0] == "use":
                pl = st[2][1][1] if st[2][1][0] in ("cp", "mv") else None
                if pl and pl[0] == 1:
                    idx = [p for p in pl[1] if isinstance(p, int)]
                    if len(idx) == 1:
                        return idx[0]
    return None


def written_fields(f):
    out = []
    for b in f.blocks:
        for st in b["s"]:
            if st[0] == "=" and st[1][0] == 1 and st[1][1]:
                idx = [p for p in st[1][1] if isinstance(p, int)]
                if idx:
                    out.append(idx[0])
    return out


# -----------------------------------------------------------------------------------------------
def is_call(e, suffix, inner=None):
    e = strip_casts(e)
    if e[0] != "call" or not e[1].endswith(suffix):
        return False
    if inner is None:
        return True
    return any(is_call(a, inner) for a in e[2])


def is_flag_test(e, flag):
    """(format & flags::FLAG) != 0"""
    e = strip_casts(e)
    if e[0] == "bin" and e[1] == "Ne":
        names = [last_seg(c[1]) for c in expr_consts(e)]
        return names == [flag]
    return False


def is_mask_eq(e, mask, flag):
    e = strip_casts(e)
    if e[0] == "bin" and e[1] == "Eq":
        names = sorted(last_seg(c[1]) for c in expr_consts(e))
        return names == sorted([mask, flag])
    return False


FORMAT_CONSTRAINTS = [
    # error variant, description, list of (matcher, polarity) that must dominate the return
    ("InvalidMantissaRadix", [(lambda e: is_call(e, "::is_valid_radix", "::mantissa_radix"), False)]),
    ("InvalidExponentBase", [(lambda e: is_call(e, "::is_valid_radix", "::exponent_base"), False)]),
    ("InvalidExponentRadix", [(lambda e: is_call(e, "::is_valid_radix", "::exponent_radix"), False)]),
    ("InvalidDigitSeparator", [(lambda e: is_call(e, "::is_valid_digit_separator"), False)]),
    ("InvalidBasePrefix", [(lambda e: is_call(e, "::is_valid_base_prefix"), False)]),
    ("InvalidBaseSuffix", [(lambda e: is_call(e, "::is_valid_base_suffix"), False)]),
    ("InvalidPunctuation", [(lambda e: is_call(e, "::is_valid_punctuation"), False)]),
]
FORMAT_CONSTRAINTS_FEATURE = [
    ("InvalidExponentFlags", [(lambda e: is_call(e, "::is_valid_exponent_flags"), False)]),
    ("InvalidMantissaSign", [(lambda e: is_flag_test(e, "NO_POSITIVE_MANTISSA_SIGN"), True), (lambda e: is_flag_test(e, "REQUIRED_MANTISSA_SIGN"), True)]),
    ("InvalidExponentSign", [(lambda e: is_flag_test(e, "NO_POSITIVE_EXPONENT_SIGN"), True), (lambda e: is_flag_test(e, "REQUIRED_EXPONENT_SIGN"), True)]),
    ("InvalidSpecial", [(lambda e: is_flag_test(e, "NO_SPECIAL"), True), (lambda e: is_flag_test(e, "CASE_SENSITIVE_SPECIAL"), True)]),
    ("InvalidSpecial", [(lambda e: is_flag_test(e, "NO_SPECIAL"), True), (lambda e: is_flag_test(e, "SPECIAL_DIGIT_SEPARATOR"), True)]),
    ("InvalidConsecutiveIntegerDigitSeparator", [(lambda e: is_mask_eq(e, "INTEGER_DIGIT_SEPARATOR_FLAG_MASK", "INTEGER_CONSECUTIVE_DIGIT_SEPARATOR"), True)]),
    ("InvalidConsecutiveFractionDigitSeparator", [(lambda e: is_mask_eq(e, "FRACTION_DIGIT_SEPARATOR_FLAG_MASK", "FRACTION_CONSECUTIVE_DIGIT_SEPARATOR"), True)]),
    ("InvalidConsecutiveExponentDigitSeparator", [(lambda e: is_mask_eq(e, "EXPONENT_DIGIT_SEPARATOR_FLAG_MASK", "EXPONENT_CONSECUTIVE_DIGIT_SEPARATOR"), True)]),
]


def returns_of(f, adt_suffix="error::Error"):
    """[(bb, variant name, span idx)] for every `_0 = Adt::Variant` in f."""
    out = []
    for i, b in enumerate(f.blocks):
        if not f.live(i):
            continue
        for st in b["s"]:
            if st[0] == "=" and st[1] == [0, []] and st[2][0] == "agg" and st[2][1][0] == "adt" and st[2][1][1].endswith(adt_suffix):
                out.append((i, st[2][1][3], st[3]))
    return out


def rule_format_error_evaluated(col, facts):
    """KEY-constraints (evaluated): format_error_impl - a loop-free const fn of the packed format - is read as the
    decision table its paths denote (helpers of lexical_util followed) and evaluated on witness formats built from
    the flag constants: STANDARD plus exactly the flags of one documented constraint must give that constraint's
    error, STANDARD plus any *one* of those flags (or the consecutive flag together with a position flag) must be
    valid.  This decides the flag-combination constraints however their conditions are spelt (`a && b`,
    `format & PAIR == PAIR`, a helper, merged arms), and a test of the wrong mask or flag changes a witness."""
    if "format" not in facts.config:
        return
    from rules.pathmodel import Model, Shape, Panic
    R = "KEY-constraints"
    FLG = "lexical_util::format_flags::"
    f = facts.fn("lexical_util::feature_format::format_error_impl")
    cache = {}

    def resolver(n):
        if not n.startswith("lexical_util::") or not facts.has_fn(n):
            return None
        if n not in cache:
            cache[n] = None
            try:
                cache[n] = Model(facts.fn(n), "u128", resolver=resolver)
            except Exception:
                cache[n] = None
        return cache[n]
    k = lambda name: facts.const_value(FLG + name)
    std = facts.const_value("lexical_util::format::STANDARD")
    sep = ord("_") << k("DIGIT_SEPARATOR_SHIFT")
    cases = []      # (label, format, expected variant)
    pairs = [("InvalidExponentFlags", ["NO_EXPONENT_NOTATION", "REQUIRED_EXPONENT_NOTATION"]),
             ("InvalidMantissaSign", ["NO_POSITIVE_MANTISSA_SIGN", "REQUIRED_MANTISSA_SIGN"]),
             ("InvalidExponentSign", ["NO_POSITIVE_EXPONENT_SIGN", "REQUIRED_EXPONENT_SIGN"]),
             ("InvalidSpecial", ["NO_SPECIAL", "CASE_SENSITIVE_SPECIAL"]),
             ("InvalidSpecial", ["NO_SPECIAL", "SPECIAL_DIGIT_SEPARATOR"])]
    for variant, names in pairs:
        w = std
        for nm in names:
            w |= k(nm)
        cases.append(("+".join(names), w | (sep if "SPECIAL_DIGIT_SEPARATOR" in names else 0), variant))
        for nm in names:
            cases.append((nm + " alone", std | k(nm) | (sep if nm == "SPECIAL_DIGIT_SEPARATOR" else 0), "Success"))
    for comp in ("INTEGER", "FRACTION", "EXPONENT"):
        c = k(comp + "_CONSECUTIVE_DIGIT_SEPARATOR")
        cases.append((comp + "_CONSECUTIVE alone", std | sep | c, "InvalidConsecutive%sDigitSeparator" % comp.capitalize()))
        for pos in ("INTERNAL", "LEADING", "TRAILING"):
            cases.append(("%s_CONSECUTIVE+%s" % (comp, pos), std | sep | c | k("%s_%s_DIGIT_SEPARATOR" % (comp, pos)), "Success"))
            cases.append(("%s_%s alone" % (comp, pos), std | sep | k("%s_%s_DIGIT_SEPARATOR" % (comp, pos)), "Success"))
    cases.append(("STANDARD", std, "Success"))
    for nm, shift in (("InvalidMantissaRadix", "MANTISSA_RADIX_SHIFT"), ("InvalidExponentBase", "EXPONENT_BASE_SHIFT"), ("InvalidExponentRadix", "EXPONENT_RADIX_SHIFT")):
        sh = k(shift)
        cases.append((nm + " (37)", (std & ~(0xFF << sh)) | (37 << sh), nm))
    try:
        m = Model(f, "u128", resolver=resolver)
        n = 0
        for label, w, want in cases:
            v = m.value([w])
            got = v[2] if isinstance(v, tuple) and v and v[0] == "enum" else repr(v)
            n += 1
            col.check(R, "witness:%s" % label, got == want,
                      "format_error_impl(STANDARD with %s) is Error::%s, the documented constraint table says Error::%s" % (label, got, want), f.loc())
        col.floor(R, "constraint witnesses evaluated", n, 40)
    except Shape as e:
        col.assumed("not-applied", "KEY-constraints:witnesses", "format_error_impl is not a loop-free decision table that can be evaluated (%s): witnesses not decided" % e, f.loc())
    except Panic as e:
        col.bad(R, "format_error_impl-panic", "an overflow check can fire while validating a format: %s" % e, f.loc())


def rule_format_error(col, facts):
    """KEY-constraints: format_error_impl has a rejecting branch, with the right polarity and the
    documented error, for every documented constraint; Success is returned only past all of them."""
    R = "KEY-constraints"
    fmt = "format" in facts.config
    mod = "feature_format" if fmt else "not_feature_format"
    f = facts.fn("lexical_util::%s::format_error_impl" % mod)
    rets = returns_of(f)
    table = FORMAT_CONSTRAINTS + (FORMAT_CONSTRAINTS_FEATURE if fmt else [])
    used = set()
    unread = set()
    # every Error variant produced by format_error_impl or by a helper of the same crate it calls
    produced = {v for _bb, v, _sp in rets}
    for _b, c, _a, _d, _t in f.calls():
        for g in facts.by_short.get(callee_name(c), []):
            if g.crate == f.crate:
                produced |= {v for _bb, v, _sp in returns_of(g)}
    for n, (variant, atoms) in enumerate(table):
        found = False
        for bb, v, sp in rets:
            if v != variant:
                continue
            conds = path_conditions(f, bb)
            ok = all(any(m(e) and pol == want for _d, e, pol in conds) for m, want in atoms)
            if ok:
                found = True
                used.add(bb)
        if not found and variant in produced:
            # the variant is still produced (here or in a helper), under a condition this reader does not recognise
            # (`format & PAIR == PAIR`, a helper predicate, merged arms): not decided for this tree
            unread.add(variant)
            col.assumed("not-applied", "KEY-constraints:%s#%d" % (variant, n), "Error::%s is produced under a condition written in a form the constraint reader does not know: not decided" % variant, f.loc())
            continue
        col.check(R, "%s#%d" % (variant, n), found,
                  "no branch of format_error_impl returns Error::%s under the documented condition (check removed, polarity flipped or wrong flag)" % variant, f.loc())
    if not fmt:
        # (format & FLAG_MASK) != (REQUIRED_EXPONENT_DIGITS | REQUIRED_MANTISSA_DIGITS) -> InvalidFlags
        ok = False
        for bb, v, sp in rets:
            if v != "InvalidFlags":
                continue
            for _d, e, pol in path_conditions(f, bb):
                e = strip_casts(e)
                if e[0] == "bin" and e[1] in ("Ne", "Eq") and ((e[1] == "Ne") == pol):
                    names = sorted(last_seg(c[1]) for c in expr_consts(e))
                    if names == ["FLAG_MASK", "REQUIRED_EXPONENT_DIGITS", "REQUIRED_MANTISSA_DIGITS"]:
                        ok = True
                        used.add(bb)
        if not ok and "InvalidFlags" in produced:
            unread.add("InvalidFlags")
            col.assumed("not-applied", "KEY-constraints:InvalidFlags", "Error::InvalidFlags is produced under a condition written in a form the constraint reader does not know: not decided", f.loc())
        else:
            col.check(R, "InvalidFlags", ok, "without `format`, any flag other than the STANDARD ones must give Error::InvalidFlags", f.loc())
    # every non-Success return must be one of the documented ones
    for bb, v, sp in rets:
        if v != "Success" and v not in unread:
            col.check(R, "return:%s@%d" % (v, len([x for x in rets if x[0] < bb and x[1] == v])), bb in used,
                      "Error::%s is returned under a condition that is not in the documented constraint table: %s" %
                      (v, [(show(e), p) for _d, e, p in path_conditions(f, bb)][-2:]), f.loc(sp))
    succ = [bb for bb, v, _ in rets if v == "Success"]
    col.check(R, "single-success", len(succ) == 1, "%d Success returns" % len(succ), f.loc())
    # Success must be past every rejecting test: the chain is an if/else-if ladder, so Success's
    # block is dominated by the *negation* of the last atom of each single-atom constraint
    if succ:
        conds = path_conditions(f, succ[0])
        # all predicate calls evaluated on the way must have polarity True ("valid")
        for _d, e, pol in conds:
            ee = strip_casts(e)
            if ee[0] == "call" and "is_valid" in ee[1]:
                col.check(R, "success-after:%s" % last_seg(ee[1]) + ("(%s)" % last_seg(strip_casts(ee[2][0])[1]) if ee[2] and strip_casts(ee[2][0])[0] == "call" else ""),
                          pol is True, "Success is reachable with %s false" % show(ee), f.loc())
    # is_valid_radix as a table over all u32 values that a u8 field can hold
    ivr = facts.fn(FL + "is_valid_radix")
    try:
        got = sorted(r for r in range(0, 256) if tbl_eval(facts, ivr, [r]).value)
    except NotATable as e:
        col.bad(R, "is_valid_radix-shape", "not a pure predicate: %s" % e, ivr.loc())
        got = None
    if got is not None:
        if "radix" in facts.config:
            want = list(range(2, 37))
        elif "power-of-two" in facts.config:
            want = [2, 4, 8, 10, 16, 32]
        else:
            want = [10]
        col.check(R, "is_valid_radix", got == want, "accepts %s, documented for this feature set: %s" % (got, want), ivr.loc())
    # delegation: NumberFormat::is_valid == error().is_success(); error() == format_error_impl(FORMAT)
    nf = "lexical_util::%s::NumberFormat" % mod
    isv = facts.fn(nf + "::is_valid")
    calls = [callee_name(c) for _b, c, _a, _d, _t in isv.calls()]
    col.check(R, "is_valid-delegates", calls == [nf + "::error", "lexical_util::error::Error::is_success"],
              "NumberFormat::is_valid calls %s (expected error() then is_success())" % calls, isv.loc())
    er = facts.fn(nf + "::error")
    calls = [(callee_name(c), a) for _b, c, a, _d, _t in er.calls()]
    ok = len(calls) == 1 and calls[0][0].endswith("::format_error_impl") and calls[0][1][0][0] == "k" and calls[0][1][0][1].get("param") == "FORMAT"
    col.check(R, "error-delegates", ok, "NumberFormat::error is not `format_error_impl(FORMAT)`", er.loc())
    iss = facts.fn("lexical_util::error::Error::is_success")
    # matches!(self, Error::Success): discriminant compared with Success's index
    variants = [v["name"] for v in facts.adts.get("lexical_util::error::Error", [])]
    okv = False
    for b in iss.blocks:
        t = b["t"]
        if t["k"] == "switch" and len(t["v"]) == 1 and "Success" in variants:
            e = op_expr(iss, t["d"])
            if e[0] == "discr" and t["v"][0][0] == variants.index("Success"):
                # the matched edge must lead to `true`
                tgt = t["v"][0][1]
                vals = [st[2][1][1].get("v") for st in iss.blocks[tgt]["s"] if st[0] == "=" and st[2][0] == "use" and st[2][1][0] == "k"]
                okv = True in vals
    col.check(R, "is_success", okv, "Error::is_success is not `matches!(self, Error::Success)`", iss.loc())


def rule_build_strict(col, facts):
    """MPT-strict: build_strict returns only on the Success edge of format_error_impl(packed)."""
    R = "MPT-strict"
    f = facts.fn(BUILDER + "::build_strict")
    variants = [v["name"] for v in facts.adts.get("lexical_util::error::Error", [])]
    ok = False
    detail = "no return found"
    for i, b in enumerate(f.blocks):
        if b["t"]["k"] == "return":
            for p in f.pred()[i] + [i]:
                conds = path_conditions(f, p)
                for _d, e, pol in conds:
                    if e[0] == "discr" and any(c[1].endswith("::format_error_impl") for c in expr_calls(e)) and pol == ("eq", variants.index("Success")):  # noqa
                        ok = True
                detail = str([(show(e), p2) for _d, e, p2 in conds])
    col.check(R, "build_strict", ok, "build_strict can return without format_error_impl(..) == Success: %s" % detail, f.loc())
    # the returned value is build_unchecked's result
    calls = [callee_name(c) for _b, c, _a, _d, _t in f.calls()]
    col.check(R, "build_strict-uses-build_unchecked", BUILDER + "::build_unchecked" in calls, "calls %s" % calls, f.loc())


# -----------------------------------------------------------------------------------------------
ENTRY_TRAITS = ("::FromLexicalWithOptions", "::ToLexicalWithOptions")


def buffer_checked(conds):
    """A dominating `assert!(check_buffer(..))`, or the same test written in place:
    `buffer_size_const(..) <= bytes.len()` / `bytes.len() >= buffer_size_const(..)` found true."""
    for _d, e, pol in conds:
        if is_call(e, "::check_buffer") and pol is True:
            return True
        e = strip_casts(e)
        if e[0] == "bin" and e[1] in ("Ge", "Le", "Gt", "Lt") and isinstance(pol, bool):
            l, r, op = strip_casts(e[2]), strip_casts(e[3]), e[1]
            if not pol:
                op = {"Ge": "Lt", "Lt": "Ge", "Le": "Gt", "Gt": "Le"}[op]
            if op in ("Le", "Lt"):
                l, r, op = r, l, {"Le": "Ge", "Lt": "Gt"}[op]
            # now: l >= r  or  l > r ; want l = len(bytes), r = buffer_size_const(..)
            ln = l[0] == "call" and l[1].endswith("::len") or "PtrMetadata" in show(l)
            sz = any(x[1].endswith("buffer_size_const") for x in expr_calls(r))
            if ln and sz:
                return True
    return False


def _validations_in(facts, g, depth=0, seen=None):
    """Which configuration validations a helper performs, transitively within its crate:
    "format" (NumberFormat::is_valid / ::error), "punctuation" (is_valid_options_punctuation), "error" (format.error())."""
    seen = seen if seen is not None else set()
    out = set()
    if g.short in seen or depth > 3:
        return out
    seen.add(g.short)
    for _b, c, _a, _d, _t in g.calls():
        cn = callee_name(c)
        if cn.endswith(("NumberFormat::is_valid", "NumberFormat::error")):
            out.add("format")
        if cn.endswith("NumberFormat::error"):
            out.add("error")
        if cn.endswith("::is_valid_options_punctuation"):
            out.add("punctuation")
        for h in facts.by_short.get(cn, []):
            if h.crate == g.crate:
                out |= _validations_in(facts, h, depth + 1, seen)
    return out


def rule_entry_validation(col, facts):
    """MPT-validate: at every *_with_options entry point the back-end call is dominated by the
    `true` edge of NumberFormat::<FORMAT>::is_valid() (or an assert! of it), and for float parsers
    additionally by is_valid_options_punctuation(..)."""
    R = "MPT-validate"
    n = 0
    for f in facts.all_fns():
        if f.kind == "Closure" or not (f.impl_trait or "").endswith(ENTRY_TRAITS):
            continue
        if f.crate not in ("lexical_parse_integer", "lexical_parse_float", "lexical_write_integer", "lexical_write_float"):
            continue
        name = last_seg(f.short)
        backend = []
        for bb, c, a, _d, _t in f.calls():
            cn = callee_name(c)
            if cn.endswith(("::parse_complete", "::parse_partial", "api::unsigned", "api::signed", "WriteFloat::write_float")):
                backend.append((bb, cn))
        if not backend:
            col.bad(R, f.short, "no back-end call recognised in entry point (rule blind: fail closed)", f.loc())
            continue
        for bb, cn in backend:
            n += 1
            conds = path_conditions(f, bb)
            valid = any(is_call(e, "NumberFormat::is_valid") and pol is True for _d, e, pol in conds)
            if f.crate == "lexical_write_float":
                # validation lives in WriteFloat::write_float (checked below)
                col.ok(R, f.short + "->write_float")
                continue
            # the checks may have been moved into a helper of the same crate whose result is branched on
            # (`match configuration_error::<FORMAT>(options) { Error::Success => parse(..), e => Err(e) }`): which
            # helpers on the dominating conditions perform which validation (transitively)?
            via = set()
            for _d, e, pol in conds:
                for c2 in expr_calls(e):
                    for g in facts.by_short.get(c2[1], []):
                        if g.crate == f.crate:
                            via |= _validations_in(facts, g)
            if not valid and "format" in via:
                col.assumed("not-applied", "MPT-validate:%s" % f.short, "the back-end call is dominated by a test of a helper that validates the format; which of its results lets the call through is not decided", f.loc(f.blocks[bb]["ts"]))
            else:
                col.check(R, f.short, valid, "%s is called without a dominating `NumberFormat::<FORMAT>::is_valid()` check" % last_seg(cn), f.loc(f.blocks[bb]["ts"]))
            if f.crate == "lexical_parse_float":
                punct = any(is_call(e, "::is_valid_options_punctuation") and pol is True for _d, e, pol in conds)
                if not punct and "punctuation" in via:
                    col.assumed("not-applied", "MPT-validate:%s#punctuation" % f.short, "the back-end call is dominated by a test of a helper that validates the options punctuation; not decided which result lets the call through", f.loc(f.blocks[bb]["ts"]))
                    continue
                col.check(R, f.short + "#punctuation", punct,
                          "%s is called without a dominating `is_valid_options_punctuation(FORMAT, exponent, decimal_point)` check" % last_seg(cn), f.loc(f.blocks[bb]["ts"]))
        # the error returned on the invalid edge is the format's own error
        if f.crate.startswith("lexical_parse"):
            errs = [callee_name(c) for _b, c, _a, _d, _t in f.calls() if callee_name(c).endswith("NumberFormat::error")]
            if not errs:
                for _b, c, _a, _d, _t in f.calls():
                    for g in facts.by_short.get(callee_name(c), []):
                        if g.crate == f.crate and "error" in _validations_in(facts, g):
                            errs.append(g.short)
            col.check(R, f.short + "#error", bool(errs), "an invalid format is not answered with `format.error()`", f.loc())
    col.floor(R, "validated back-end calls", n, 12 * 2 + 2 * 2 + 12)
    # WriteFloat::write_float: both asserts dominate every store and back-end call
    wf = facts.fn("lexical_write_float::write::WriteFloat::write_float")
    m = 0
    BACKENDS = ("write_float_decimal", "::write_float", "write_nan", "write_inf")
    def _holds_backends(cn):
        # a back-end, or a helper of this crate that dispatches to the back-ends (`write_finite`, `write_non_finite`)
        if cn.endswith(BACKENDS) and not cn.endswith("WriteFloat::write_float"):
            return True
        return any(h.crate == wf.crate and h.short != wf.short and not h.impl_trait and any(callee_name(c2).endswith(BACKENDS[:2]) or "special" in callee_name(c2) or "nan_string" in callee_name(c2) for _b2, c2, _a2, _d2, _t2 in h.calls()) for h in facts.by_short.get(cn, []))
    for bb, c, a, _d, _t in wf.calls():
        cn = callee_name(c)
        if _holds_backends(cn):
            conds = path_conditions(wf, bb)
            m += 1
            col.check(R, "write_float->%s#is_valid" % cn.replace("lexical_write_float::", ""),
                      any(is_call(e, "NumberFormat::is_valid") and pol is True for _d, e, pol in conds),
                      "back-end reached without assert!(format.is_valid())", wf.loc(wf.blocks[bb]["ts"]))
            col.check(R, "write_float->%s#check_buffer" % cn.replace("lexical_write_float::", ""),
                      buffer_checked(conds),
                      "back-end reached without assert!(check_buffer(..))", wf.loc(wf.blocks[bb]["ts"]))
    col.floor(R, "write_float back-ends", m, 3)
    for i, b in enumerate(wf.blocks):
        if not wf.live(i):
            continue
        for st in b["s"]:
            if st[0] == "=" and st[1][1] and any(isinstance(p, (list, tuple)) and p[0] == "idx" for p in st[1][1]):
                conds = path_conditions(wf, i)
                col.check(R, "write_float-store@%s" % last_seg(wf.loc(st[3])).split(":")[0],
                          buffer_checked(conds),
                          "byte store before assert!(check_buffer(..))", wf.loc(st[3]))
