"""GRD — guard dominance for unsafe operations (C10, C09; DESIGN §3).

An unsafe call is *discharged* when a guard event on the same root object dominates it through
the edge on which the guard succeeded, and no call that can move the object's cursor / length
lies on any path between that edge and the unsafe call.  Sites justified only by a numeric range
argument are *assumed* (reported in evidence, not discharged).  A site that is neither is a
violation: new unsafe code must come with a guard this engine can see, or a named exception."""
from rules.core import (path_conditions, op_expr, place_expr, show, strip_casts, expr_calls, callee_name, last_seg,
                        pol_is_variant, fold, strip_generics, AnchorMissing, rvalue_expr)

# ------------------------------------------------------------------------------------------
# roots
# ------------------------------------------------------------------------------------------
VIEW_CTORS = ("::integer_iter", "::fraction_iter", "::exponent_iter", "::special_iter")


def root(e):
    """Identity of the object an expression designates: strips borrows, derefs, casts and the
    view constructors (`bytes.integer_iter()` is a view of `bytes`)."""
    while True:
        e = strip_casts(e)
        if e[0] == "ref":
            e = e[1]
        elif e[0] == "proj" and all(p == "*" for p in e[2]):
            e = e[1]
        elif e[0] == "call" and e[1].endswith(VIEW_CTORS) and e[2]:
            e = e[2][0]
        else:
            return e


def norm(e):
    """Expression with call-instance ids dropped: two evaluations of the same pure getter on the
    same object compare equal (callers check that the object is not mutated in between)."""
    if isinstance(e, tuple):
        if e and e[0] == "call":
            return ("call", e[1], tuple(norm(x) for x in e[2]))
        if e and e[0] == "cast":
            return norm(e[1])
        return tuple(norm(x) for x in e)
    return e


def same_root(a, b):
    return root(a) == root(b)


# ------------------------------------------------------------------------------------------
# iterator guards
# ------------------------------------------------------------------------------------------
PEEK1 = ("DigitsIter::peek", "Iter::first")
IS1 = ("Iter::first_is", "Iter::first_is_cased", "Iter::first_is_uncased", "DigitsIter::peek_is", "DigitsIter::peek_is_cased", "DigitsIter::peek_is_uncased")
NON_MUTATING = ("DigitsIter::peek", "Iter::first", "Iter::first_is", "Iter::first_is_cased", "Iter::first_is_uncased",
                "DigitsIter::peek_is", "DigitsIter::peek_is_cased", "DigitsIter::peek_is_uncased", "Iter::cursor", "Iter::current_count",
                "Iter::as_slice", "Iter::as_ptr", "Iter::buffer_length", "Iter::get_buffer", "Iter::is_buffer_empty", "Iter::is_contiguous",
                "DigitsIter::increment_count", "DigitsIter::is_consumed", "Iter::peek_u32", "Iter::peek_u64", "DigitsIter::is_digit",
                "clone::Clone::clone", "::integer_iter", "::fraction_iter", "::exponent_iter", "::special_iter", "Bytes::is_contiguous",
                "Bytes::current_count", "Bytes::cursor", "Bytes::buffer_length", "Bytes::as_slice", "Bytes::first", "Bytes::first_is",
                "Bytes::first_is_cased", "Bytes::first_is_uncased", "Bytes::is_buffer_empty", "Bytes::get_buffer")


def unwrap_try(e):
    """`x?` : discr(branch(x)) == Continue(0)  ->  x is Some / Ok"""
    e = strip_casts(e)
    if e[0] == "call" and e[1].endswith("Try::branch") and e[2]:
        return strip_casts(e[2][0]), True
    return e, False


def iter_capacity_facts(conds):
    """From path conditions derive [(root expression, bytes known to be available, guard block)]."""
    out = []
    for d, e, pol in conds:
        e = strip_casts(e)
        if e[0] == "discr":
            inner = strip_casts(e[1])
            inner, tried = unwrap_try(inner)
            want = 0 if tried else 1
            if inner[0] == "call" and pol_is_variant(pol, want):
                nm = inner[1]
                if nm.endswith(PEEK1) and inner[2]:
                    out.append((root(inner[2][0]), 1, d, last_seg(nm)))
                elif nm.endswith("Iter::peek_u32") and inner[2]:
                    out.append((root(inner[2][0]), 4, d, "peek_u32"))
                elif nm.endswith("Iter::peek_u64") and inner[2]:
                    out.append((root(inner[2][0]), 8, d, "peek_u64"))
        elif e[0] == "call":
            nm = e[1]
            if nm.endswith(("Option::is_some", "Option::is_none")) and e[2] and isinstance(pol, bool) and (pol is nm.endswith("is_some")):
                inner = strip_casts(e[2][0])
                while inner[0] == "ref":
                    inner = strip_casts(inner[1])
                if inner[0] == "call" and inner[2]:
                    n2 = inner[1]
                    if n2.endswith(PEEK1):
                        out.append((root(inner[2][0]), 1, d, last_seg(n2) + ".is_some()"))
                    elif n2.endswith("Iter::peek_u32"):
                        out.append((root(inner[2][0]), 4, d, "peek_u32.is_some()"))
                    elif n2.endswith("Iter::peek_u64"):
                        out.append((root(inner[2][0]), 8, d, "peek_u64.is_some()"))
            elif nm.endswith(IS1) and pol is True and e[2]:
                out.append((root(e[2][0]), 1, d, last_seg(nm)))
            elif nm.endswith("Iter::is_buffer_empty") and pol is False and e[2]:
                out.append((root(e[2][0]), 1, d, "is_buffer_empty"))
            elif nm.endswith("::is_empty") and pol is False and e[2]:
                inner = strip_casts(e[2][0])
                while inner[0] in ("ref",) or (inner[0] == "proj" and all(p == "*" for p in inner[2])):
                    inner = strip_casts(inner[1])
                if inner[0] == "call" and inner[1].endswith("Iter::as_slice") and inner[2]:
                    out.append((root(inner[2][0]), 1, d, "as_slice().is_empty()"))
            elif nm.endswith("cmp::PartialEq::eq") and pol is True and len(e[2]) == 2:
                # Some(&v) == it.peek()  /  it.peek() == Some(&v)
                sides = [strip_casts(x) for x in e[2]]
                for i in (0, 1):
                    a = sides[i]
                    b = sides[1 - i]
                    while a[0] == "ref":
                        a = strip_casts(a[1])
                    while b[0] == "ref":
                        b = strip_casts(b[1])
                    if a[0] == "call" and a[1].endswith(PEEK1) and b[0] == "agg" and "Some" in str(b[1]):
                        out.append((root(a[2][0]), 1, d, "== Some(..)"))
    return out


def mutators_between(f, guard_block, site_block, site_root, own_call_block=None):
    """Calls on some path guard_block -> site_block (exclusive of the guard's own evaluation) that
    take the root by reference and are not known to leave the cursor alone."""
    # blocks reachable from guard successors that can reach the site
    succ = f.succ()
    fwd = set()
    todo = list(succ[guard_block])
    while todo:
        x = todo.pop()
        if x in fwd or x == guard_block:
            continue
        fwd.add(x)
        if x == site_block:
            continue
        todo.extend(succ[x])
    pred = f.pred()
    back = set()
    todo = [site_block]
    while todo:
        x = todo.pop()
        if x in back:
            continue
        back.add(x)
        if x == guard_block:
            continue
        todo.extend(pred[x])
    between = (fwd & back)
    bad = []
    for b in sorted(between):
        t = f.blocks[b]["t"]
        if t["k"] != "call" or b == site_block:
            continue
        cn = callee_name(t["f"])
        if cn.endswith(NON_MUTATING):
            continue
        for a in t["a"]:
            e = op_expr(f, a)
            # by reference or through a by-value view (`byte.integer_iter()` holds `&mut byte`)
            if root(e) == site_root:
                bad.append((b, cn))
    return bad


_LOOKS = ("first", "peek", "first_is", "first_is_cased", "first_is_uncased", "peek_is", "peek_is_cased", "peek_is_uncased", "is_buffer_empty",
          "is_consumed", "as_slice", "buffer_length", "peek_u32", "peek_u64", "read_if", "read_if_value", "read_if_value_cased", "read_if_value_uncased")


def _looked_at_on_every_edge(f, bb, recv):
    from rules.core import reach_alternatives
    alts = reach_alternatives(f, bb)
    if not alts:
        return False
    for conds in alts:
        ok = False
        for _d, e, _p in conds:
            for c in expr_calls(e):
                if last_seg(c[1]) in _LOOKS and c[2] and root(c[2][0]) == recv:
                    ok = True
        if not ok:
            return False
    return True


def rule_iter_steps(col, facts, crates):
    """GRD-step: every Iter::step_unchecked / step_by_unchecked(N) is dominated by a guard giving
    at least N available bytes on the same iterator, with no cursor movement in between."""
    R = "GRD-step"
    n = 0
    for f in facts.all_fns():
        if f.crate not in crates:
            continue
        for bb, c, a, d, t in f.calls():
            cn = callee_name(c)
            if not cn.endswith(("Iter::step_unchecked", "Iter::step_by_unchecked")):
                continue
            n += 1
            need = 1
            if cn.endswith("step_by_unchecked"):
                need = fold(f, a[1])
            recv = root(op_expr(f, a[0]))
            key = "%s:%s#%d" % (f.short if f.kind != "Closure" else f.closure_of, last_seg(cn), sum(1 for o in col.obs if o.rule == R and o.config == col.config and o.key.startswith((f.short if f.kind != "Closure" else f.closure_of) + ":" + last_seg(cn))))
            loc = f.loc(f.blocks[bb]["ts"])
            if need is None:
                # forwarding wrappers: step_by_unchecked(count) inside an unsafe fn passing its own parameter on
                if f.unsafe:
                    col.ok(R, key, "unsafe fn forwards its caller's obligation", loc)
                else:
                    col.bad(R, key, "step_by_unchecked with a non-constant count in a safe function", loc)
                continue
            facts_ = [(r, cap, gd, how) for r, cap, gd, how in iter_capacity_facts(path_conditions(f, bb)) if r == recv]
            best = [x for x in facts_ if x[1] >= need]
            if not best:
                if f.unsafe and f.short.endswith("Iter::step_unchecked"):
                    col.ok(R, key, "Iter::step_unchecked is itself unsafe: forwards the obligation", loc)
                    continue
                # a guard that is there but spelt in a way this rule does not read (`leading == Some(b'+')` on a copy
                # of `first()`, joined with `||`): every way into the block carries a condition computed from a look at
                # the same iterator.  That is not a finding; the site is recorded as not decided.
                if not facts_ and _looked_at_on_every_edge(f, bb, recv):       # (a guard that *is* read but gives too few bytes stays a violation)
                    col.assumed("not-applied", "GRD-step:%s" % key, "the step is dominated on every incoming edge by a condition computed from a look at the same iterator, in a form the guard reader does not know: not decided", loc)
                    continue
                col.bad(R, key, "%s(%s) is not dominated by a successful peek/first/first_is/is_buffer_empty/peek_u%d on the same iterator (facts on path: %s)" %
                        (last_seg(cn), show(recv), 8 * need if need > 1 else 32, [(show(r), cap, how) for r, cap, _g, how in iter_capacity_facts(path_conditions(f, bb))]), loc)
                continue
            # take the innermost (last) guard
            r, cap, gd, how = best[-1]
            muts = mutators_between(f, gd, bb, recv)
            col.check(R, key, not muts, "between the guard `%s` and %s the iterator is passed to %s, which may move the cursor" % (how, last_seg(cn), [m for _b, m in muts]), loc)
    return n


def rule_peek_many(col, facts, crates=("lexical_util",)):
    """GRD-peek-many: peek_many_unchecked::<V>() only under IS_CONTIGUOUS and as_slice().len() >= size_of::<V>()."""
    R = "GRD-peek-many"
    n = 0
    for f in facts.all_fns():
        if f.crate not in crates:
            continue
        for bb, c, a, d, t in f.calls():
            cn = callee_name(c)
            if not cn.endswith("Iter::peek_many_unchecked"):
                continue
            n += 1
            if f.unsafe:
                col.ok(R, "%s(forward)" % f.short, "unsafe fn forwards its caller's obligation", f.loc(f.blocks[bb]["ts"]))
                continue
            v = (c.get("targs") or [None, None])[-1]
            size = {"u32": 4, "u64": 8, "u16": 2, "u8": 1}.get(v)
            conds = path_conditions(f, bb)
            ok = False
            sizeofs = {}
            for _b2, c2, _a2, d2, _t2 in f.calls():
                if callee_name(c2).endswith("mem::size_of") and d2:
                    sizeofs[d2[0]] = {"u32": 4, "u64": 8, "u16": 2, "u8": 1}.get((c2.get("targs") or [None])[0])
            for _d, e, pol in conds:
                e = strip_casts(e)
                if e[0] == "bin" and e[1] == "Ge" and pol is True:
                    lhs, rhs = strip_casts(e[2]), strip_casts(e[3])
                    s = fold_size(rhs)
                    if s is None and rhs[0] == "call" and rhs[1].endswith("mem::size_of"):
                        s = sizeofs.get(rhs[3])
                    if lhs[0] == "call" and lhs[1].endswith("::len") and any(x[1].endswith("Iter::as_slice") and root(x[2][0]) == root(op_expr(f, a[0])) for x in expr_calls(lhs)) and s == size:
                        ok = True
            if not ok:
                # the length test may live in a helper that is handed the same iterator (`if !can_peek_many::<Self,
                # V>(self) { return None }`): a guard in a form this rule does not read - recorded as not decided
                recv = root(op_expr(f, a[0]))
                helper = None
                for _d, e, pol in conds:
                    for c2 in expr_calls(e):
                        if facts.by_short.get(c2[1]) and any(g.crate == f.crate for g in facts.by_short[c2[1]]) and any(root(x) == recv for x in c2[2]):
                            helper = c2[1]
                if helper:
                    col.assumed("not-applied", "GRD-peek-many:%s::<%s>" % (f.short, v), "peek_many_unchecked::<%s> is dominated by a test of the helper %s on the same iterator; what that helper establishes is not decided" % (v, helper), f.loc(f.blocks[bb]["ts"]))
                    continue
            col.check(R, "%s::<%s>" % (f.short, v), ok and size is not None,
                      "peek_many_unchecked::<%s> without a dominating `self.as_slice().len() >= size_of::<%s>()`" % (v, v), f.loc(f.blocks[bb]["ts"]))
    col.floor(R, "peek_many_unchecked sites", n, 2)


def fold_size(e):
    e = strip_casts(e)
    if e[0] == "k" and isinstance(e[1], int):
        return e[1]
    if e[0] == "call" and e[1].endswith("mem::size_of"):
        return None
    return None


# ------------------------------------------------------------------------------------------
# set_cursor / from_parts / forwarding
# ------------------------------------------------------------------------------------------
def blocks_between(f, a, b):
    """Blocks on some path a -> b (excluding a, including b)."""
    succ = f.succ()
    fwd = set()
    todo = list(succ[a])
    while todo:
        x = todo.pop()
        if x in fwd or x == a:
            continue
        fwd.add(x)
        if x != b:
            todo.extend(succ[x])
    pred = f.pred()
    back = set()
    todo = [b]
    while todo:
        x = todo.pop()
        if x in back:
            continue
        back.add(x)
        if x != a:
            todo.extend(pred[x])
    return fwd & back


def assigns_local(f, bb, l):
    for st in f.blocks[bb]["s"]:
        if st[0] == "=" and st[1][0] == l and not st[1][1]:
            return True
    t = f.blocks[bb]["t"]
    return t["k"] == "call" and t.get("dest") and t["dest"][0] == l and not t["dest"][1]


def is_get_some(e, pol, idx_expr):
    """atom says `slice.get(idx_expr)` returned Some (directly or through `?`)"""
    e = strip_casts(e)
    if e[0] == "call" and last_seg(e[1]) == "map_or" and len(e[2]) == 3 and pol is True and strip_casts(e[2][1]) == ("k", False):
        # `slice.get(i).map_or(false, pred)` is true: the element exists
        g = strip_casts(e[2][0])
        return g[0] == "call" and g[1].endswith("::get") and len(g[2]) == 2 and _same_index(strip_casts(g[2][1]), idx_expr)
    if e[0] != "discr":
        return False
    inner, tried = unwrap_try(strip_casts(e[1]))
    if inner[0] == "call" and inner[1].endswith("::get") and len(inner[2]) == 2 and pol_is_variant(pol, 0 if tried else 1):
        return _same_index(strip_casts(inner[2][1]), idx_expr)
    return False


def _same_index(a, b):
    """Equal index expressions, reading `i.wrapping_add(1)` as `i + 1`."""
    def n(x):
        x = strip_casts(x)
        if x[0] == "call" and last_seg(x[1]) == "wrapping_add" and len(x[2]) == 2:
            return ("bin", "Add", n(x[2][0]), n(x[2][1]))
        if x[0] == "bin":
            return ("bin", x[1], n(x[2]), n(x[3]))
        return x
    return n(a) == n(b)


def is_lt_len(e, pol, idx_expr):
    e = strip_casts(e)
    if e[0] == "bin" and e[1] == "Lt" and pol is True:
        rhs = strip_casts(e[3])
        return strip_casts(e[2]) == idx_expr and rhs[0] == "call" and rhs[1].endswith("::len")
    return False


def check_index_var_invariant(f, l):
    """`index` (a mutable local) never exceeds buffer.len(): initialised from cursor(), and every
    `index += 1` is dominated by `buffer.get(index)` = Some or `index < buffer.len()` with no other
    write to `index` in between.  Returns (ok, why)."""
    var = ("var", l, f.names.get(l, "_%d" % l))
    defs = f.defs().get(l, [])
    init = 0
    for bb, j, rv, proj in defs:
        if proj:
            return False, "projected write"
        if rv[0] == "call":
            if callee_name(rv[1]).endswith("Iter::cursor"):
                init += 1
                continue
            return False, "assigned from %s" % callee_name(rv[1])
        e = None
        from rules.core import rvalue_expr
        e = strip_casts(rvalue_expr(f, rv, 0))
        if e[0] == "call" and e[1].endswith("Iter::cursor"):
            init += 1
            continue
        if e[0] == "bin" and e[1] == "Add" and strip_casts(e[2])[:2] == ("var", l) and strip_casts(e[3]) == ("k", 1):
            conds = path_conditions(f, bb)
            good = None
            for d, x, pol in conds:
                if is_get_some(x, pol, var) or is_lt_len(x, pol, var):
                    good = d
            if good is None:
                return False, "increment at %s not guarded by get(index)/index < len" % f.loc(f.blocks[bb]["ts"])
            for b2 in blocks_between(f, good, bb):
                if b2 != bb and assigns_local(f, b2, l):
                    return False, "index reassigned between its guard and the increment"
            continue
        # `(index + 1).0` style through a temp is covered by rvalue_expr; anything else is unknown
        return False, "assigned from `%s`" % show(e)
    return init >= 1, "no initialisation from cursor()"


def rule_set_cursor(col, facts):
    """GRD-cursor: every Iter::set_cursor(i) is given an index that is provably <= buffer.len()."""
    R = "GRD-cursor"
    n = 0
    counts = {}
    for f in facts.all_fns():
        if f.crate not in ("lexical_util", "lexical_parse_integer", "lexical_parse_float"):
            continue
        for bb, c, a, d, t in f.calls():
            cn = callee_name(c)
            if not cn.endswith("Iter::set_cursor"):
                continue
            n += 1
            base = f.short if f.kind != "Closure" else f.closure_of
            mac = "/".join(f.macros(f.blocks[bb]["ts"])[:2])
            k0 = "%s[%s]" % (base, mac)
            counts[k0] = counts.get(k0, 0) + 1
            key = "%s#%d" % (k0, counts[k0])
            loc = f.loc(f.blocks[bb]["ts"])
            e = strip_casts(op_expr(f, a[1]))
            conds = path_conditions(f, bb)
            if f.unsafe and e[0] == "arg":
                col.ok(R, key, "unsafe fn forwards its own index parameter", loc)
                continue
            if e[0] == "call" and last_seg(e[1]) in ("wrapping_add", "saturating_add") and len(e[2]) == 2 and strip_casts(e[2][1]) == ("k", 1):
                e = ("bin", "Add", e[2][0], e[2][1])              # `i.wrapping_add(1)`: i + 1 under the same `get(i)` = Some
            if e[0] == "bin" and e[1] == "Add" and strip_casts(e[3]) == ("k", 1):
                base_e = strip_casts(e[2])
                ok = any(is_get_some(x, pol, base_e) for _d, x, pol in conds)
                if not ok and base_e[0] == "var" and len([1 for _b, _j, _rv, pr in f.defs().get(base_e[1], []) if not pr]) >= 2:
                    # a loop variable: `index` stays the position of an existing element if every assignment gives it
                    # a value v for which `buffer.get(v)` was found Some at that point (`let mut index = cursor;
                    # while slc.get(index + 1).map_or(false, is_sep) { index += 1 }`)
                    ok = True
                    for bd, _j, rv, pr in f.defs().get(base_e[1], []):
                        if pr:
                            continue
                        v = strip_casts(rvalue_expr(f, rv, 0))
                        if not any(is_get_some(x, pol, v) for _d, x, pol in path_conditions(f, bd)):
                            ok = False
                col.check(R, key, ok, "set_cursor(%s) without a dominating `buffer.get(%s)` = Some" % (show(e), show(base_e)), loc)
                continue
            if e[0] == "var":
                ok, why = check_index_var_invariant(f, e[1])
                col.check(R, key, ok, "set_cursor(%s): the loop invariant index <= buffer.len() does not follow (%s)" % (show(e), why), loc)
                continue
            if e[0] == "call" and e[1].endswith("cmp::Ord::min") and any(strip_casts(x)[0] == "call" and strip_casts(x)[1].endswith("::len") for x in e[2]):
                col.ok(R, key, "index is min(len, _)", loc)
                continue
            if any(last_seg(c2[1]) == "count" for c2 in expr_calls(e)) and any(last_seg(c2[1]) in ("take_while", "position", "skip_while") for c2 in expr_calls(e)):
                # `start + tail.iter().take_while(is_sep).count()` with `tail = buffer[start..]`: bounded by the length
                # of the sub-slice it counts in - an argument about iterator adaptors this rule does not make
                col.assumed("not-applied", "GRD-cursor:%s" % key, "set_cursor(%s): the index is a position plus the number of elements counted in a sub-slice; its bound is not decided by this rule" % show(e)[:100], loc)
                continue
            col.bad(R, key, "set_cursor(%s): no recognised bound on the index" % show(e), loc)
    return n


ASSUMED_SITES = {
    # (function suffix, callee suffix): reason  -- numeric-range justifications no dominance fact expresses
    ("parse::parse_number", "slice::get_unchecked"): "digit-slice extraction `..b_digits`: b_digits is a count/cursor difference (numeric argument; debug_assert only)",
    ("iterator::Iter::as_slice", "slice::get_unchecked"): "`buffer[cursor..]`: relies on the Iter contract cursor <= len, upheld by GRD-cursor / WHO-index",
}


def rule_unsafe_inventory(col, facts, crates, handled, contracts):
    """WHO-unsafe: every call to an unsafe function in `crates` is either handled by a guard rule,
    forwarded from inside an unsafe fn, a named contract/assumed site, or a violation."""
    R = "WHO-unsafe"
    n = 0
    for f in facts.all_fns():
        if f.crate not in crates:
            continue
        for bb, c, a, d, t in f.calls():
            if not c.get("unsafe"):
                continue
            cn = callee_name(c)
            if cn.startswith("core::fmt::") or cn.startswith("core::panicking"):
                continue
            n += 1
            if cn.endswith(handled):
                continue
            base = f.short if f.kind != "Closure" else f.closure_of
            key = "%s->%s" % (base, last_seg(cn))
            loc = f.loc(f.blocks[bb]["ts"])
            hit = None
            for (fs, cs), why in contracts.items():
                if base.endswith(fs) and cn.endswith(cs):
                    hit = why
            if hit:
                col.assumed(R, key, hit, loc)
                continue
            if f.unsafe or (f.kind == "Closure" and facts.by_short.get(f.closure_of, [None])[0] is not None and facts.by_short[f.closure_of][0].unsafe):
                col.assumed(R, key, "inside an unsafe fn: obligation forwarded to its callers (which are themselves inventoried)", loc)
                continue
            # a private helper all of whose callers hold the named contract for this very callee (the tail of
            # to_string extracted into `into_string(buffer, written)`; DLG-to_string reads such a helper in place)
            callers = {g.short for g in facts.all_fns() if g.crate == f.crate and any(callee_name(c2) == base for _b, c2, _a, _d, _t in g.calls())}
            inherited = [why for (fs, cs), why in contracts.items() if cn.endswith(cs) and any(x.endswith(fs) for x in callers)]
            if callers and all(any(x.endswith(fs) and cn.endswith(cs) for (fs, cs) in contracts) for x in callers):
                col.assumed(R, key, "private helper called only from %s: %s" % (sorted(callers), inherited[0] if inherited else ""), loc)
                continue
            col.bad(R, key, "call to unsafe `%s` in safe function `%s` that no guard rule or named exception covers" % (cn, base), loc)
    return n


# ------------------------------------------------------------------------------------------
# StackVec / ReverseView (lexical-parse-float::bigint)
# ------------------------------------------------------------------------------------------
BI = "lexical_parse_float::bigint::"


def _is_call(e, suffix, root_expr=None):
    e = strip_casts(e)
    if e[0] != "call" or not e[1].endswith(suffix):
        return False
    if root_expr is None:
        return True
    return bool(e[2]) and root(e[2][0]) == root_expr


def min_len_fact(conds, self_root):
    """Lower bound on rview.len() / self.len() from `match rview.len() { 0 => .., 1 => .., _ => .. }`."""
    best = 0
    for _d, e, pol in conds:
        e = strip_casts(e)
        if e[0] == "call" and e[1].endswith(("ReverseView::len", "StackVec::len", "::len")):
            inner = e
            # rview(self).len()
            r = root(inner[2][0]) if inner[2] else None
            while r is not None and r[0] == "call" and r[1].endswith(("StackVec::rview", "Deref::deref")) and r[2]:
                r = root(r[2][0])
            if r != self_root:
                continue
            if isinstance(pol, tuple) and pol[0] == "eq":
                best = max(best, pol[1])
            elif isinstance(pol, tuple) and pol[0] == "ne":
                k = 0
                while k in pol[1]:
                    k += 1
                best = max(best, k)
    return best


def rule_stackvec(col, facts):
    """GRD-stackvec: the unchecked StackVec / ReverseView primitives are reached only under the
    capacity / emptiness / length comparison their safe wrappers make."""
    R = "GRD-stackvec"
    n = 0
    seen = {}

    def key_for(f, cn):
        base = f.short if f.kind != "Closure" else f.closure_of
        k0 = "%s->%s" % (base.replace(BI, ""), last_seg(cn))
        seen[k0] = seen.get(k0, 0) + 1
        return "%s#%d" % (k0, seen[k0])

    for f in facts.all_fns():
        if f.crate != "lexical_parse_float" or f.unsafe:
            continue
        for bb, c, a, d, t in f.calls():
            if not c.get("unsafe"):
                continue
            cn = callee_name(c)
            loc = f.loc(f.blocks[bb]["ts"])
            conds = path_conditions(f, bb)
            args = [strip_casts(op_expr(f, x)) for x in a]
            if cn == BI + "StackVec::push_unchecked":
                n += 1
                r = root(args[0])
                ok = any(strip_casts(e)[0] == "bin" and strip_casts(e)[1] == "Lt" and _is_call(strip_casts(e)[2], "StackVec::len", r) and _is_call(strip_casts(e)[3], "StackVec::capacity", r) and p is True for _d, e, p in conds)
                col.check(R, key_for(f, cn), ok, "push_unchecked without a dominating `self.len() < self.capacity()`", loc)
            elif cn == BI + "StackVec::pop_unchecked":
                n += 1
                r = root(args[0])
                ok = any(_is_call(e, "StackVec::is_empty", r) and p is False for _d, e, p in conds)
                col.check(R, key_for(f, cn), ok, "pop_unchecked without a dominating `!self.is_empty()`", loc)
            elif cn == BI + "StackVec::extend_unchecked":
                n += 1
                r = root(args[0])
                s = root(args[1])
                ok = False
                for _d, e, p in conds:
                    e = strip_casts(e)
                    if e[0] == "bin" and e[1] == "Le" and p is True and _is_call(e[3], "StackVec::capacity", r):
                        lhs = strip_casts(e[2])
                        if lhs[0] == "bin" and lhs[1] == "Add" and _is_call(lhs[2], "StackVec::len", r) and _is_call(lhs[3], "::len") and root(strip_casts(lhs[3])[2][0]) == s:
                            ok = True
                col.check(R, key_for(f, cn), ok, "extend_unchecked(slc) without a dominating `self.len() + slc.len() <= self.capacity()`", loc)
            elif cn == BI + "StackVec::resize_unchecked":
                n += 1
                r = root(args[0])
                ok = any(strip_casts(e)[0] == "bin" and strip_casts(e)[1] == "Gt" and strip_casts(strip_casts(e)[2]) == args[1] and _is_call(strip_casts(e)[3], "StackVec::capacity", r) and p is False for _d, e, p in conds)
                col.check(R, key_for(f, cn), ok, "resize_unchecked(len) without a dominating `!(len > self.capacity())`", loc)
            elif cn == BI + "StackVec::set_len" or cn.startswith("core::ptr::") and f.short == BI + "shl_limbs":
                n += 1
                # shl_limbs: everything under !(n + x.len() > x.capacity()) and !x.is_empty()
                cap = None
                for _d, e, p in conds:
                    e = strip_casts(e)
                    if e[0] == "bin" and e[1] == "Gt" and p is False and _is_call(e[3], "StackVec::capacity"):
                        cap = strip_casts(e[2])
                ok = cap is not None
                detail = "no dominating `!(n + x.len() > x.capacity())`"
                if ok and cn == BI + "StackVec::set_len":
                    ok = norm(args[1]) == norm(cap)
                    detail = "set_len(%s) but the capacity test was on `%s`" % (show(args[1]), show(cap))
                if ok and cn.endswith(("ptr::copy", "ptr::write_bytes")):
                    # copy(src, ptr.add(n), x.len()) ; write_bytes(ptr, 0, n): counts are x.len() and n, the two summands
                    cnt = norm(args[2])
                    ok = cap[0] == "bin" and cap[1] == "Add" and cnt in (norm(cap[2]), norm(cap[3]))
                    detail = "count `%s` is not one of the summands of the capacity test `%s`" % (show(cnt), show(cap))
                if ok and cn.endswith("mut_ptr::add"):
                    ok = cap[0] == "bin" and norm(args[1]) in (norm(cap[2]), norm(cap[3]))
                    detail = "offset `%s` is not a summand of the capacity test" % show(args[1])
                if ok:
                    # x must not change length between the capacity test and here
                    gd = [d2 for d2, e2, p2 in conds if strip_casts(e2)[0] == "bin" and strip_casts(e2)[1] == "Gt" and p2 is False and _is_call(strip_casts(e2)[3], "StackVec::capacity")][-1]
                    muts = []
                    for b2 in blocks_between(f, gd, bb):
                        t2 = f.blocks[b2]["t"]
                        if b2 != bb and t2["k"] == "call":
                            c2 = callee_name(t2["f"])
                            if c2.startswith(BI + "StackVec::") and not c2.endswith(("::len", "::capacity", "::is_empty", "::as_mut_ptr", "::as_ptr")):
                                muts.append(c2)
                    ok = not muts
                    detail = "the vector is modified (%s) between the capacity test and the unchecked operation" % muts
                col.check(R, key_for(f, cn), ok, detail, loc)
            elif cn == BI + "ReverseView::get_unchecked" or cn == BI + "nonzero":
                n += 1
                r = root(args[0])
                while r[0] == "call" and r[1].endswith(("StackVec::rview", "Deref::deref")) and r[2]:
                    r = root(r[2][0])
                idx = args[1][1] if args[1][0] == "k" else None
                have = min_len_fact(conds, r)
                need = None if idx is None else (idx + 1 if cn.endswith("get_unchecked") else idx)
                col.check(R, key_for(f, cn), need is not None and have >= need,
                          "%s(.., %s) needs len >= %s but the enclosing match arm only guarantees len >= %d" % (last_seg(cn), show(args[1]), need, have), loc)
            elif cn == "core::slice::get_unchecked" and f.short == BI + "large_mul":
                n += 1
                r = root(args[0])
                idx = args[1][1] if args[1][0] == "k" else None
                ok = idx is not None and any(strip_casts(e)[0] == "bin" and strip_casts(e)[1] == "Eq" and _is_call(strip_casts(e)[2], "::len", r) and strip_casts(strip_casts(e)[3]) == ("k", idx + 1) and p is True for _d, e, p in conds)
                col.check(R, key_for(f, cn), ok, "y[0] unchecked without a dominating `y.len() == 1`", loc)
    col.floor(R, "StackVec/ReverseView unsafe sites", n, 30)
    # WHO-length: the `length` field is written only inside StackVec's own methods
    adt = facts.adts.get(BI + "StackVec")
    if adt and "length" in adt[0]["fields"]:
        li = adt[0]["fields"].index("length")
        writers = set()
        for f in facts.all_fns():
            if f.crate != "lexical_parse_float":
                continue
            for b in f.blocks:
                for st in b["s"]:
                    if st[0] == "=" and st[1][1] and isinstance(st[1][1][-1], int) and st[1][1][-1] == li:
                        ty = f.locals[st[1][0]]
                        if "StackVec" in ty:
                            writers.add(f.short)
                    if st[0] == "=" and st[2][0] == "agg" and st[2][1][0] == "adt" and st[2][1][1] == BI + "StackVec":
                        writers.add(f.short)
        for w in sorted(writers):
            wf = facts.by_short.get(w, [None])[0]
            own = w.startswith(BI + "StackVec::") or (wf is not None and (wf.impl_self or "").startswith(BI + "StackVec"))
            col.check("WHO-length", w.replace(BI, ""), own, "StackVec.length is written outside StackVec's methods (in %s): Deref's from_raw_parts trusts it" % w, facts.fn(w).loc() if w in facts.by_short else "")
        col.floor("WHO-length", "writers of StackVec.length", len(writers), 3)
    else:
        col.bad("WHO-length", "anchor", "StackVec.length field not found", "")


LENGTH_ONLY = ("is_buffer_empty", "as_slice().is_empty()")


def rule_step_content(col, facts, crates):
    """BLF-step: `step_by_unchecked_impl` states (debug_assert!) that on a non-contiguous iterator the byte
    being stepped over is not the digit separator - it has to have been looked at.  A step whose only guard is
    a *length* fact (`!is_buffer_empty()`) steps over an unexamined byte; that is fine only where the iterator
    is known to be contiguous.  Otherwise an input with a separator at that position (`3h_` with a base suffix
    and integer separators) panics in debug-assertion builds."""
    R = "BLF-step"
    n = 0
    bad = {}
    for f in facts.all_fns():
        if f.crate not in crates:
            continue
        for bb, c, a, d, t in f.calls():
            cn = callee_name(c)
            if not cn.endswith(("Iter::step_unchecked", "Iter::step_by_unchecked")):
                continue
            recv = root(op_expr(f, a[0]))
            conds = path_conditions(f, bb)
            fs = [(cap, how) for r, cap, gd, how in iter_capacity_facts(conds) if r == recv]
            if not fs:
                continue            # forwarding wrappers / unguarded: GRD-step's business
            n += 1
            if fs[-1][1] not in LENGTH_ONLY:
                continue
            contig = any((strip_casts(e)[0] == "call" and last_seg(strip_casts(e)[1]) == "is_contiguous" and p is True) or
                         (strip_casts(e)[0] == "kc" and last_seg(strip_casts(e)[1]) == "IS_CONTIGUOUS" and p is True) for _d, e, p in conds)
            name = f.short if f.kind != "Closure" else f.closure_of
            bad.setdefault(name, [0, 0, f.loc(f.blocks[bb]["ts"])])
            bad[name][0] += 1
            if not contig:
                bad[name][1] += 1
    for name, (tot, nb, loc) in sorted(bad.items()):
        col.check(R, "%s:length-only-step" % name, nb == 0,
                  "%d of %d steps guarded only by `!is_buffer_empty()` are taken on an iterator not known to be contiguous: the byte stepped over was never looked at, and step_by_unchecked_impl's debug assertion (it must not be a digit separator) fails for e.g. `3h_` with a base suffix and integer digit separators" % (nb, tot), loc)
    col.floor(R, "guarded iterator steps examined", n, 10)
