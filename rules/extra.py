import json
import re
"""Rules added after the independent seeded changes showed which structural necessary conditions the
first set missed (DESIGN §8).  Each is a condition whose violation breaks behaviour; none matches text."""
from oracle import defs as D
from rules import grd as G
from rules.core import simplify_proj, ShapeUnknown
from rules.core import (path_conditions, reach_alternatives, op_expr, rvalue_expr, show, strip_casts, expr_calls, expr_consts,
                        callee_name, last_seg, pol_is_variant, tbl_eval, NotATable, fold, AnchorMissing)

PF = "lexical_parse_float::"
WF = "lexical_write_float::"


# ---------------------------------------------------------------------------------------------
def rule_sticky_scans(col, facts):
    """MPT-sticky: when parse_mantissa stops at max_digits it must examine *all* remaining digits
    (rest of the integer part and the fraction) before deciding the sticky round-up."""
    R = "MPT-sticky"
    f = facts.fn(PF + "slow::parse_mantissa")
    from rules.sep import number_field_of
    adt = facts.adts[PF + "number::Number"][0]["fields"]
    ii, fi = adt.index("integer"), adt.index("fraction")
    scans = {"integer": set(), "fraction": set()}
    # the truncation tests `count == max_digits` (max_digits is the second parameter) and their true edges
    trunc = []
    for i, b in enumerate(f.blocks):
        t = b["t"]
        if t["k"] == "switch" and f.live(i):
            e = strip_casts(op_expr(f, t["d"]))
            if e[0] == "bin" and e[1] == "Eq" and any(strip_casts(x)[:2] == ("arg", 2) for x in (e[2], e[3])):
                true_t = [tg for v, tg in t["v"] if v == 1] or [t["else"]]
                trunc.append((i, true_t[0]))
    for bb, c, a, d, t in f.calls():
        cn = callee_name(c)
        # a sticky scan: under a truncation test, the rest of a digit iterator of Number.integer / Number.fraction is
        # consumed - by the scanning loop itself (Iterator::next / peek_u64 of round_up_nonzero!) or by handing the
        # iterator to a helper
        under = [i for i, tt in trunc if f.dominates(tt, bb)]
        if not under and "round_up_nonzero" not in f.macros(f.blocks[bb]["ts"]):
            continue
        if last_seg(cn) in ("integer_iter", "fraction_iter", "bytes", "clone", "is_contiguous", "current_count", "cursor"):
            continue
        for x in a[:2]:
            src = number_field_of(f, op_expr(f, x))
            site = (under[-1] if under else f.span(f.blocks[bb]["ts"]).get("cl"),)
            if src == ii:
                scans["integer"].add(site)
            elif src == fi:
                scans["fraction"].add(site)
    col.check(R, "parse_mantissa:integer-rest", len(scans["integer"]) >= 1, "no sticky scan of the remaining integer digits when max_digits is reached", f.loc())
    col.check(R, "parse_mantissa:fraction-after-integer+fraction-rest", len(scans["fraction"]) >= 2,
              "the fraction is scanned for non-zero digits at %d truncation exit(s); both the integer-loop exit and the fraction-loop exit must scan it (else a value just above a tie compares equal to the halfway point)" % len(scans["fraction"]), f.loc())
    # each truncation exit: the return under (count == max_digits) is preceded by a scan in the same region
    n = 0
    for i, b in enumerate(f.blocks):
        t = b["t"]
        if t["k"] == "switch" and f.live(i):
            e = strip_casts(op_expr(f, t["d"]))
            if e[0] == "bin" and e[1] == "Eq" and {x for x in (show(strip_casts(e[2])), show(strip_casts(e[3])))} >= {"max_digits"} or (e[0] == "bin" and e[1] == "Eq" and any(strip_casts(x)[:2] == ("arg", 2) for x in (e[2], e[3]))):
                n += 1
    col.floor(R, "max_digits truncation tests", n, 2)


def rule_sticky_flag(col, facts):
    """UNIT-sticky: in slow_binary's accumulation every digit that is not folded into the mantissa
    must update the all-zero flag (it decides the final round-up)."""
    if "power-of-two" not in facts.config and "radix" not in facts.config:
        return
    R = "UNIT-sticky"
    f = facts.fn(PF + "binary::parse_u64_digits")
    zero_arg = None
    for l, nm in f.names.items():
        if nm == "zero" and l <= f.argc:
            zero_arg = l
    if zero_arg is None:
        zero_arg = f.argc
    # blocks that write *zero
    writes = set()
    for i, b in enumerate(f.blocks):
        for st in b["s"]:
            if st[0] == "=" and st[1][0] == zero_arg and st[1][1] == ["*"]:
                writes.add(i)
    def reaches_head_without_write(start, head):
        seen = set()
        todo = [start]
        while todo:
            x = todo.pop()
            if x in seen or x in writes:
                continue
            seen.add(x)
            if x == head:
                return True
            todo.extend(f.succ()[x])
        return False
    # is the accumulation bounded by the step counter (`*step == 0` sets `*overflowed`)?  Then exactly
    # u64_step(radix) digits are accumulated, which always fit: the checked operations cannot fail and the
    # None arm is dead (UNIT-step decides the bound itself).
    # parameters by position (iter, mantissa, step, overflowed, zero) and type, not by name
    def _mentions_arg(x, idx):
        if isinstance(x, tuple):
            if x and x[0] == "arg" and x[1] == idx:
                return True
            return any(_mentions_arg(y, idx) for y in x)
        return False
    locs = f.mir.get("locals", [])
    usize_ptr = [l for l in range(1, f.argc + 1) if l < len(locs) and "usize" in locs[l]]
    bool_ptr = [l for l in range(1, f.argc + 1) if l < len(locs) and "bool" in locs[l]]
    step_arg = usize_ptr[:1]
    overflowed_arg = bool_ptr[0] if len(bool_ptr) == 2 else None
    if len(bool_ptr) == 2:
        zero_arg = bool_ptr[1]
        writes = set()
        for i, b in enumerate(f.blocks):
            for st in b["s"]:
                if st[0] == "=" and st[1][0] == zero_arg and st[1][1] == ["*"]:
                    writes.add(i)
    bounded = False
    for i, b in enumerate(f.blocks):
        t = b["t"]
        if t["k"] == "switch" and f.live(i) and step_arg:
            e = strip_casts(op_expr(f, t["d"]))
            if e[0] == "bin" and e[1] == "Eq" and strip_casts(e[3]) == ("k", 0) and _mentions_arg(e[2], step_arg[0]):
                bounded = True
    found = skipped = False
    for i, b in enumerate(f.blocks):
        t = b["t"]
        if t["k"] != "switch" or not f.live(i):
            continue
        e = strip_casts(op_expr(f, t["d"]))
        # (1) the digit is skipped because the mantissa is already full: the edge of the `overflowed` test that
        #     does not lead to the checked multiplication
        mul_blocks = [bb for bb, c, a, d, tt in f.calls() if callee_name(c).endswith("::checked_mul")]
        if overflowed_arg is not None and _mentions_arg(e, overflowed_arg) and e[0] != "discr" and mul_blocks and not any(f.dominates(m, i) for m in mul_blocks):
            tgts = [tg for _v, tg in t["v"]] + [t["else"]]
            acc = [tg for tg in tgts if any(f.dominates(tg, m) for m in mul_blocks)]
            skip = [tg for tg in tgts if tg not in acc]
            if acc and skip:
                skipped = True
                head = loop_head(f, i)
                ok = not any(reaches_head_without_write(tg, head) for tg in skip)
                col.check(R, "binary::parse_u64_digits:skipped-digit", ok,
                          "a digit that is not accumulated because the mantissa is full is dropped without updating the sticky `zero` flag: non-zero digits beyond the u64 are lost (ties round to even instead of up)", f.loc(b["ts"]))
        # (2) the failed-accumulation edge: discr(and_then(checked_mul ..)) == None - only live if the
        #     accumulation is not bounded by the step counter
        if e[0] == "discr" and any(x[1].endswith("::checked_mul") for x in expr_calls(e)):
            found = True
            if bounded:
                col.ok(R, "binary::parse_u64_digits:overflow-digit", "accumulation bounded by the step counter: the None arm is dead", f.loc(b["ts"]))
                continue
            none_tgt = [tg for v, tg in t["v"] if v == 0] or [t["else"]]
            head = loop_head(f, i)
            ok = not reaches_head_without_write(none_tgt[0], head)
            col.check(R, "binary::parse_u64_digits:overflow-digit", ok,
                      "the digit that no longer fits the u64 is dropped without updating the sticky `zero` flag: a non-zero digit exactly at the first overflowing position is lost (ties round to even instead of up)", f.loc(b["ts"]))
    col.check(R, "binary::parse_u64_digits:shape", found and skipped, "no checked accumulation / no full-mantissa branch found", f.loc())


def loop_head(f, inside):
    for bb, c, a, d, t in f.calls():
        if callee_name(c).endswith("Iterator::next") and f.dominates(bb, inside):
            return bb
    return 0


# ---------------------------------------------------------------------------------------------
def rule_divisibility_test(col, facts):
    """PAIR-divisibility: n is a multiple of 10^8 iff (n*m mod 2^90) < m with m = ceil(2^90/10^8):
    the `divisible` branch of remove_trailing_zeros needs *both* `high & mask == 0` and `low < m`."""
    if facts.config.startswith("compact"):
        return
    R = "PAIR-divisibility"
    m = -((-(1 << 90)) // 10 ** 8)
    from rules.tbl_write_float import body_int_consts
    fs = [x for x in facts.all_fns() if x.short.endswith("::remove_trailing_zeros") and x.kind != "Closure" and x.crate == "lexical_write_float" and m in body_int_consts(x)]
    for f in fs:
        # the block doing `(high >> 26) as u32` is the divisible branch
        ok = None
        for i, b in enumerate(f.blocks):
            if not f.live(i):
                continue
            for st in b["s"]:
                if st[0] == "=" and st[2][0] == "bin" and st[2][1].startswith("Shr"):
                    k = fold(f, st[2][3])
                    if k == 90 - 64:
                        conds = path_conditions(f, i)
                        c1 = any(strip_casts(e)[0] == "bin" and strip_casts(e)[1] == "Eq" and strip_casts(strip_casts(e)[3]) == ("k", 0) and "BitAnd" in str(e) and p is True for _d, e, p in conds)
                        c2 = any(strip_casts(e)[0] == "bin" and strip_casts(e)[1] == "Lt" and p is True and any(strip_casts(x) == ("k", m) or (strip_casts(x)[0] == "var") for x in (strip_casts(e)[3],)) for _d, e, p in conds)
                        ok = c1 and c2
        col.check(R, f.short.replace(WF, ""), ok is True, "the divisible-by-10^8 branch is not guarded by both `high & mask == 0` and `low < magic`: values with n mod 10^8 in 1.. are treated as divisible and lose eight digits", f.loc())
    col.floor(R, "remove_trailing_zeros bodies", len(fs), 1)


# ---------------------------------------------------------------------------------------------
def rule_buffer_allowance(col, facts):
    """TBL-size (digits allowance): buffer_size_const must allow for the window the significant-digit
    writer needs: decimal digits are emitted by the u64 integer writer, which re-slices 20 bytes."""
    R = "TBL-size"
    f = facts.fn(WF + "options::Options::buffer_size_const")
    dec = None
    other = None
    for i, b in enumerate(f.blocks):
        if not f.live(i):
            continue
        for st in b["s"]:
            if st[0] == "=" and st[2][0] == "use" and st[2][1][0] == "k" and st[2][1][1].get("ty") == "usize":
                v = st[2][1][1].get("v")
                conds = path_conditions(f, i)
                for _d, e, p in conds[-1:]:
                    e = strip_casts(e)
                    if e[0] == "bin" and e[1] == "Eq" and strip_casts(e[3]) == ("k", 10) and any(last_seg(x[1]) == "radix" for x in expr_calls(e)):
                        if p is True:
                            dec = v
                        else:
                            other = v
    # NOTE: the decimal allowance itself is no longer an obligation: since the F22 repair the term is
    # `max(digits, u64::FORMATTED_SIZE_DECIMAL)`, and what must hold - the final term is >= the writer's window
    # on every path - is decided by rule_digit_window_allowance (a smaller literal here is harmless).
    if dec is None:
        raise ShapeUnknown("buffer_size_const: no literal significant-digit allowance assigned under `radix() == 10`")
    if "power-of-two" in facts.config or "radix" in facts.config:
        if other is None:
            raise ShapeUnknown("buffer_size_const: no literal non-decimal significant-digit allowance")
        col.check(R, "buffer_size_const:radix-digits", other >= 64,
                  "the non-decimal significant-digit allowance is %s; a radix-2 mantissa alone has 53 digits and the u64 writer window is 64" % other, f.loc())


# ---------------------------------------------------------------------------------------------
def exponent_allowances(f):
    """For buffer_size_const: the bytes it adds for the exponent part when exponent notation is possible,
    as (lower bound of the allowance, description) per path.  `count += K` gives K; `count += exp` on a path
    that established `exp < T == false` gives T."""
    from rules.core import enum_paths
    counter = None
    for l, ds in f.defs().items():
        inits = [1 for bb, j, rv, pr in ds if rv[0] == "use" and rv[1][0] == "k" and rv[1][1].get("ty") == "usize" and rv[1][1].get("v") == 2]
        if inits and len(ds) >= 4:
            counter = l
    if counter is None:
        raise AnchorMissing("buffer_size_const: no counter initialised with 2 found")
    tg = {}
    for bb, j, rv, pr in f.defs()[counter]:
        if rv[0] == "call":
            continue
        e = rvalue_expr(f, rv, 0)
        if e[0] == "bin" and e[1] == "Add":
            tg[bb] = e
    out = []
    for t, atoms in enum_paths(f, 0, set(tg)):
        notation = [p for e, p in atoms if strip_casts(e)[0] == "call" and last_seg(strip_casts(e)[1]) == "no_exponent_notation"]
        if notation != [False]:
            continue                      # the no-notation arms add the full positional range instead
        add = strip_casts(tg[t][3])
        # drop paths whose constant comparisons on one variable contradict each other (x >= 13 and x < 5)
        lo_hi = {}
        for e, p in atoms:
            e = strip_casts(e)
            if e[0] == "bin" and e[1] in ("Lt", "Ge") and strip_casts(e[3])[0] == "k" and isinstance(strip_casts(e[3])[1], int) and isinstance(p, bool):
                v, k = strip_casts(e[2]), strip_casts(e[3])[1]
                lt = (e[1] == "Lt") == p
                lo, hi = lo_hi.get(v, (None, None))
                if lt:
                    hi = k - 1 if hi is None else min(hi, k - 1)
                else:
                    lo = k if lo is None else max(lo, k)
                lo_hi[v] = (lo, hi)
        if any(lo is not None and hi is not None and lo > hi for lo, hi in lo_hi.values()):
            continue
        if add[0] == "k" and isinstance(add[1], int):
            out.append((add[1], "count += %d" % add[1]))
            continue
        # variable allowance: lower bound from `add < T` found false on this path
        lb = 0
        for e, p in atoms:
            e = strip_casts(e)
            if e[0] == "bin" and e[1] == "Lt" and strip_casts(e[2]) == add and strip_casts(e[3])[0] == "k" and p is False:
                lb = max(lb, strip_casts(e[3])[1])
            if e[0] == "bin" and e[1] == "Ge" and strip_casts(e[2]) == add and strip_casts(e[3])[0] == "k" and p is True:
                lb = max(lb, strip_casts(e[3])[1])
        out.append((lb, "count += %s with %s >= %d" % (show(add), show(add), lb)))
    # the first self-increment region only (exponent part): stop at the first block common to all paths
    return out


def rule_exponent_allowance(col, facts):
    """TBL-size (exponent allowance): in exponent notation the writer stores the exponent character and
    sign and then hands `&mut bytes[cursor..]` to the u32 integer writer.  The decimal (jeaiii) writer
    re-slices that to `[..10]` first, so the bound must leave 1 + 1 + 10 bytes after the digits or a
    buffer of exactly buffer_size_const bytes panics; the generic-radix and compact writers only need the
    digits themselves (<= 11 for a binary exponent of a double)."""
    R = "TBL-size"
    f = facts.fn(WF + "options::Options::buffer_size_const")
    al = exponent_allowances(f)
    # only the increments of the exponent part: the significant-digit increment has no constant / bound
    exps = [(v, d) for v, d in al if not d.endswith(">= 0")]
    col.check(R, "buffer_size_const:exponent-paths", len(exps) >= 2, "could not read the exponent allowance of buffer_size_const (%s)" % al, f.loc())
    if not exps:
        return
    lo = min(v for v, _ in exps)
    if facts.config.startswith("compact"):
        p2 = "power-of-two" in facts.config or "radix" in facts.config
        need, why = (2 + 11, "exponent character, sign and up to 11 binary exponent digits") if p2 else (2 + 3, "exponent character, sign and up to 3 decimal exponent digits")
    else:
        from rules.tbl_write_integer import reslice_consts
        j = facts.fn("lexical_write_integer::jeaiii::from_u32")
        ks = reslice_consts(j)
        col.check(R, "from_u32:reslice", len(ks) == 1, "from_u32 re-slices with %s" % ks, j.loc())
        if len(ks) != 1:
            return
        need, why = 2 + ks[0], "exponent character, sign, and the %d-byte window jeaiii::from_u32 re-slices from the rest of the buffer" % ks[0]
    col.check(R, "buffer_size_const:exponent-allowance", lo >= need,
              "the smallest exponent allowance is %d (%s) but exponent notation needs %d bytes after the digits (%s): with min_significant_digits large enough to exceed FORMATTED_SIZE the documented bound panics" % (lo, [d for v, d in exps if v == lo][0], need, why), f.loc())


# ---------------------------------------------------------------------------------------------
def rule_debug_buffer_belief(col, facts):
    """BLF-buffer: a `debug_assert!(bytes.len() >= K)` inside a float-writer back-end states a belief about
    the caller.  WriteFloat::write_float guarantees len >= buffer_size_const >= FORMATTED_SIZE and may
    already have consumed one byte for the sign, so K must not exceed FORMATTED_SIZE - 1: otherwise every
    negative float written into a buffer of exactly the documented size panics in debug builds."""
    from rules.core import fold
    R = "BLF-buffer"
    if not ("power-of-two" in facts.config or "radix" in facts.config):
        return
    sizes = [facts.const_value("<%s as lexical_util::constants::FormattedSize>::FORMATTED_SIZE" % t) for t in ("f32", "f64")]
    guaranteed = min(sizes) - 1
    n = 0
    for f in facts.all_fns():
        if f.crate != "lexical_write_float" or f.kind == "Closure":
            continue
        for i, b in enumerate(f.blocks):
            if f.live(i):
                continue                     # only the bodies of debug_assert!s are analysed as dead
            for st in b["s"]:
                if st[0] != "=" or st[2][0] != "bin" or st[2][1] not in ("Ge", "Gt", "Le", "Lt"):
                    continue
                opn, x, y = st[2][1], st[2][2], st[2][3]
                ex, ey = strip_casts(op_expr(f, x)), strip_casts(op_expr(f, y))
                def is_len(e):
                    s_ = show(e)
                    return (e[0] == "call" and last_seg(e[1]) == "len") or "PtrMetadata" in s_
                if is_len(ex) and opn in ("Ge", "Gt"):
                    k = fold(f, y)
                    k = k if opn == "Ge" else (None if k is None else k + 1)
                elif is_len(ey) and opn in ("Le", "Lt"):
                    k = fold(f, x)
                    k = k if opn == "Le" else (None if k is None else k + 1)
                else:
                    continue
                if k is None:
                    continue
                n += 1
                col.check(R, "%s:len>=%s" % (f.short.replace(WF, ""), "K"), k <= guaranteed,
                          "debug_assert!(bytes.len() >= %d) but the entry point only guarantees %d bytes here (FORMATTED_SIZE %d minus the sign byte it may already have written): negative floats panic in debug builds with a buffer of the documented size" % (k, guaranteed, min(sizes)), f.loc(st[3]))
    col.floor(R, "debug-only buffer length beliefs in the float writers", n, 3)


# ---------------------------------------------------------------------------------------------
def rule_rte_window(col, facts):
    """CFG-tie (Eisel-Lemire): the branch that clears the low bit for an exact tie (`mantissa &= !1`) is
    entered for the *closed* window MIN_EXPONENT_ROUND_TO_EVEN <= q <= MAX_EXPONENT_ROUND_TO_EVEN (whose
    values TBL-limits checks): with either end excluded the ties at that q round up to the odd neighbour."""
    from rules.core import enum_paths
    if facts.config.startswith("compact"):
        return
    R = "CFG-tie"
    f = facts.fn(PF + "lemire::compute_float")
    tg = set()
    for i, b in enumerate(f.blocks):
        if not f.live(i):
            continue
        for st in b["s"]:
            if st[0] == "=" and st[2][0] == "bin" and st[2][1] == "BitAnd":
                e = rvalue_expr(f, st[2], 0)
                if e[3] == ("un", "Not", ("k", 1)):
                    tg.add(i)
    if not tg:
        # other spellings of "clear the (set) low bit" (`mantissa -= 1`, `^= 1`): the tie branch is the block that
        # is control-dependent on the test `mantissa & 3 == 1` and assigns
        for i, b in enumerate(f.blocks):
            if not f.live(i) or not any(st[0] == "=" and st[2][0] == "bin" for st in b["s"]):
                continue
            for _d, c, p in path_conditions(f, i):
                c = strip_casts(c)
                if c[0] == "bin" and c[1] == "Eq" and p is True and strip_casts(c[3]) == ("k", 1):
                    l = strip_casts(c[2])
                    if l[0] == "bin" and l[1] == "BitAnd" and strip_casts(l[3]) == ("k", 3):
                        tg.add(i)
        if len(tg) > 1:
            # keep the outermost such block (the others are overflow-check continuations of it)
            tg = {min(tg)}
    col.check(R, "anchor:clear-low-bit", len(tg) == 1, "the tie branch (clearing the low bit under `mantissa & 3 == 1`) was not found exactly once (%d)" % len(tg), f.loc())
    if len(tg) != 1:
        return
    def which(e):
        names = [last_seg(c[1]) for c in expr_consts(e)]
        if "MIN_EXPONENT_ROUND_TO_EVEN" in names and "MAX_EXPONENT_ROUND_TO_EVEN" not in names:
            return "MIN"
        if "MAX_EXPONENT_ROUND_TO_EVEN" in names and "MIN_EXPONENT_ROUND_TO_EVEN" not in names:
            return "MAX"
        return None
    paths = enum_paths(f, 0, tg)
    col.check(R, "paths", len(paths) >= 1, "tie branch unreachable", f.loc())
    verdict = {"MIN": None, "MAX": None}
    why = {}
    for _t, atoms in paths:
        got = {"MIN": None, "MAX": None}
        for e, p in atoms:
            e = strip_casts(e)
            if e[0] == "call" and last_seg(e[1]) == "contains" and p is True:
                incl = "RangeInclusive" in e[1]
                names = {last_seg(c[1]) for c in expr_consts(e)}
                import json as _json
                def _walk(x):
                    if isinstance(x, tuple):
                        if x and x[0] == "kprom" and x[1] < len(f.promoted):
                            txt = _json.dumps(f.promoted[x[1]]["blocks"])
                            for nm in ("MIN_EXPONENT_ROUND_TO_EVEN", "MAX_EXPONENT_ROUND_TO_EVEN"):
                                if nm in txt:
                                    names.add(nm)
                        for y in x:
                            _walk(y)
                _walk(e)
                if "MIN_EXPONENT_ROUND_TO_EVEN" in names:
                    got["MIN"] = True
                if "MAX_EXPONENT_ROUND_TO_EVEN" in names:
                    got["MAX"] = incl
                    if not incl:
                        why["MAX"] = "half-open range `..MAX`"
                continue
            if e[0] != "bin" or e[1] not in ("Lt", "Le", "Gt", "Ge") or not isinstance(p, bool):
                continue
            a, b_ = strip_casts(e[2]), strip_casts(e[3])
            op = e[1]
            side = which(b_)
            if side is None and which(a) is not None:       # bound on the left: flip
                side = which(a)
                op = {"Lt": "Gt", "Gt": "Lt", "Le": "Ge", "Ge": "Le"}[op]
            if side is None:
                continue
            if not p:
                op = {"Lt": "Ge", "Ge": "Lt", "Gt": "Le", "Le": "Gt"}[op]
            # now: q OP bound holds on this path
            if side == "MIN":
                got["MIN"] = (op == "Ge")
                if op != "Ge":
                    why["MIN"] = "q %s MIN" % op
            else:
                got["MAX"] = (op == "Le")
                if op != "Le":
                    why["MAX"] = "q %s MAX" % op
        for k in ("MIN", "MAX"):
            if verdict[k] is None or verdict[k] is True:
                verdict[k] = got[k] if got[k] is not None else False
                if got[k] is None:
                    why.setdefault(k, "no comparison with %s_EXPONENT_ROUND_TO_EVEN on a path into the tie branch" % k)
    for k in ("MIN", "MAX"):
        col.check(R, "compute_float:tie-window-%s-inclusive" % k.lower(), verdict[k] is True,
                  "the exact-tie branch is not entered for q == %s_EXPONENT_ROUND_TO_EVEN (%s): halfway inputs with that exponent round up to the odd neighbour" % (k, why.get(k, "?")), f.loc(f.blocks[list(tg)[0]]["ts"]))


def rule_hi_truncation(col, facts):
    """UNIT-sticky (hi-words): the N-word `uXX_to_hiYY_N` helpers return (top bits, truncated?).  With more
    than one input word the flag must depend on the lower words on every path: a literal `false` claims
    nothing was dropped although a whole word below may be non-zero (an above-halfway value then rounds as
    an exact tie)."""
    import re
    R = "UNIT-sticky"
    n = 0
    for f in facts.all_fns():
        m = re.match(r"lexical_parse_float::bigint::u(\d+)_to_hi(\d+)_(\d)$", f.short)
        if not m or int(m.group(3)) < 2:
            continue
        nwords = int(m.group(3))
        n += 1
        consts = []
        deps_ok = True
        for i, b in enumerate(f.blocks):
            if not f.live(i):
                continue
            for st in b["s"]:
                if st[0] != "=":
                    continue
                # the flag is component 1 of the returned tuple
                if st[1][0] == 0 and st[2][0] == "agg" and len(st[2][2]) == 2:
                    e = strip_casts(op_expr(f, st[2][2][1]))
                    if e[0] == "k":
                        consts.append((e[1], st[3]))
                    elif e[0] == "var":
                        # multi-def flag local: look at each definition
                        for bb2, j2, rv2, pr2 in f.defs().get(e[1], []):
                            if rv2[0] == "use" and rv2[1][0] == "k":
                                consts.append((rv2[1][1].get("v"), f.blocks[bb2]["s"][j2][3] if j2 is not None and j2 < len(f.blocks[bb2]["s"]) else st[3]))
                if st[1] == [0, [1]] and st[2][0] == "use" and st[2][1][0] == "k":
                    consts.append((st[2][1][1].get("v"), st[3]))
        col.check(R, "%s:flag" % last_seg(f.short), not any(v is False for v, _ in consts),
                  "returns truncated = false as a literal on some path although %d lower word(s) were dropped from the result" % (nwords - 1), f.loc(consts[0][1]) if consts else f.loc())
    col.floor(R, "multi-word hi helpers", n, 2)


# ---------------------------------------------------------------------------------------------
def rule_binary_factor(col, facts):
    """TBL-factor: byte_comp leaves integral_binary_factor(radix) spare leading-zero bits in the denominator so
    that `numerator * radix` cannot carry into an extra limb before large_quorem (which asserts
    x.len() <= y.len()); that needs ceil(log2(radix)) bits.  A smaller entry panics on particular digits,
    a larger one wastes precision of the quotient digit."""
    from rules.tbl_parse_float import valid_radices
    R = "TBL-factor"
    f = facts.fn(PF + "slow::integral_binary_factor")
    n = 0
    for r in valid_radices(facts):
        if D.is_pow2(r):
            continue
        try:
            got = tbl_eval(facts, f, [r]).value
        except NotATable as e:
            col.bad(R, "integral_binary_factor-shape", "no longer a lookup table (%s)" % e, f.loc())
            return
        need = (r - 1).bit_length()          # ceil(log2(r)) for r not a power of two
        n += 1
        col.check(R, "integral_binary_factor(%d)" % r, got == need,
                  "= %s but ceil(log2(%d)) = %d: with fewer spare bits num*%d carries into an extra limb and large_quorem's `x.len() <= y.len()` assertion fails on some near-halfway inputs" % (got, r, need, r), f.loc())
    col.floor(R, "integral_binary_factor entries", n, 1)


# ---------------------------------------------------------------------------------------------
def rule_chunk_padding(col, facts):
    """PAIR-chunk: algorithm_u128 splits the value with u128_divrem into a quotient and a remainder of exactly
    `u64_step(radix)` digits.  A remainder is an inner chunk: its leading zeros are digits of the number, so
    it must go through write_step_digits (zero-padded to `step`); only the final quotient may use
    write_digits."""
    if facts.config.startswith("compact") or not ("power-of-two" in facts.config or "radix" in facts.config):
        return
    R = "PAIR-chunk"
    f = facts.fn("lexical_write_integer::algorithm::algorithm_u128")
    n = 0
    for bb, c, a, d, t in f.calls():
        cn = last_seg(callee_name(c))
        if cn not in ("write_digits", "write_step_digits"):
            continue
        e = strip_casts(op_expr(f, a[0]))
        if e[0] == "proj" and strip_casts(e[1])[0] == "call" and last_seg(strip_casts(e[1])[1]) == "u128_divrem":
            n += 1
            if e[2] == (1,):
                col.check(R, "algorithm_u128:remainder#%d" % n, cn == "write_step_digits",
                          "a u128_divrem remainder (an inner chunk of exactly `step` digits) is written with %s: its leading zeros are dropped and the higher chunk lands on the wrong bytes" % cn, f.loc(f.blocks[bb]["ts"]))
            elif e[2] == (0,):
                col.check(R, "algorithm_u128:quotient#%d" % n, cn == "write_digits",
                          "the final quotient is written with %s (zero-padded): leading zeros would be emitted" % cn, f.loc(f.blocks[bb]["ts"]))
    col.floor(R, "chunk writes fed by u128_divrem", n, 4)


# ---------------------------------------------------------------------------------------------
def rule_mixed_base_scaling(col, facts):
    """UNIT-scale: for hex-float style formats the digit count after the point is converted from mantissa
    digits to exponent-base units: digits * log2(mantissa_radix) / log2(exponent_base).  log2(base) divides
    log2(radix) (the code's own debug_assert), not the digit count: every division by log2(exponent_base())
    in parse_number must have the log2(mantissa_radix()) factor inside its dividend, otherwise odd digit
    counts are truncated before scaling (16/4: 16x off)."""
    if not ("power-of-two" in facts.config or "radix" in facts.config):
        return
    R = "UNIT-scale"
    f = facts.fn(PF + "parse::parse_number")
    def has_log2_of(e, getter):
        for c in expr_calls(e):
            if last_seg(c[1]) == "log2" and any(last_seg(x[1]) == getter for x in expr_calls(c[2][0])):
                return True
        return False
    n = 0
    for i, b in enumerate(f.blocks):
        if not f.live(i):
            continue
        for st in b["s"]:
            if st[0] == "=" and st[2][0] == "bin" and st[2][1] == "Div":
                e = rvalue_expr(f, st[2], 0)
                if not has_log2_of(e[3], "exponent_base"):
                    continue
                n += 1
                col.check(R, "parse_number:scale#%d" % n, has_log2_of(e[2], "mantissa_radix"),
                          "`%s`: the division by log2(exponent_base) is applied before the multiplication by log2(mantissa_radix), truncating odd digit counts (16/4 formats: 1.8 parses 16x too large)" % show(e), f.loc(st[3]))
    col.floor(R, "mixed-base exponent scalings", n, 2)


# ---------------------------------------------------------------------------------------------
def rule_radix_digit_clamp(col, facts):
    """GRD-copy (generic-radix float writer): the digit generator fills a 2200-byte scratch buffer; the writers
    copy `digit_count <= end - start` of those digits into the caller's slice *before* trimming trailing
    zeros.  `end` must therefore be clamped to `start + K + 1` with a constant K that leaves room for the
    non-digit characters inside the documented bound (K + MAX_NONDIGIT_LENGTH <= BUFFER_SIZE); since F49 the
    positional writer adds the number of leading zeros of a value below one (they are bounded by the negative
    exponent break, which buffer_size_const adds to the bound; the significant digits behind them by the
    generator's precision, at most 64 by the same function's own assumption - that last part is not decided
    here)."""
    if "radix" not in facts.config:
        return
    R = "GRD-copy"
    buf = facts.const_value("lexical_util::constants::BUFFER_SIZE")
    n = 0
    for name in ("write_float_scientific", "write_float_nonscientific"):
        f = facts.fn(WF + "radix::" + name)
        for bb, c, a, d, t in f.calls():
            if callee_name(c) != WF + "radix::truncate_and_round":
                continue
            n += 1
            e = strip_casts(op_expr(f, a[2]))
            start = strip_casts(op_expr(f, a[1]))
            ok = False
            k = None
            if e[0] == "call" and last_seg(e[1]) == "min":
                for arm in e[2]:
                    arm = strip_casts(arm)
                    ks = [c_[2] for c_ in expr_consts(arm) if isinstance(c_[2], int)]
                    lits = []
                    def walk(x):
                        if isinstance(x, tuple):
                            if x and x[0] == "k" and isinstance(x[1], int):
                                lits.append(x[1])
                            for y in x:
                                walk(y)
                    walk(arm)
                    mentions_start = show(start) in show(arm) or start == arm
                    # other addends: only the count of *leading zeros* of the digit string (value below one; they
                    # are not significant digits and are paid for by the exponent-break term of buffer_size_const,
                    # which TBL-size checks) - anything else makes the window unbounded again
                    def addends(x):
                        x = strip_casts(x)
                        if x[0] == "bin" and x[1] == "Add":
                            return addends(x[2]) + addends(x[3])
                        return [x]
                    others = [x for x in addends(arm) if not (x == start or x[0] in ("k", "kc") or (x[0] == "call" and last_seg(x[1]) == "ltrim_char_count"))]
                    if others:
                        continue
                    if ks and mentions_start:
                        k = sum(x[2] for x in addends(arm) if x[0] == "kc" and isinstance(x[2], int)) + sum(x[1] for x in addends(arm) if x[0] == "k" and isinstance(x[1], int))
                        ok = k + 2 <= buf - 16          # digits + point + first digit, leaving room for sign / exponent
            col.check(R, "radix::%s:end-clamped" % name, ok,
                      "the number of generated digits copied into the caller's buffer is `%s`, not clamped to start + a constant below BUFFER_SIZE (%s): hundreds of integer digits are copied before trailing zeros are trimmed and a buffer of the documented size panics" % (show(e), buf), f.loc(f.blocks[bb]["ts"]))
    col.floor(R, "generic-radix truncate_and_round call sites", n, 2)


# ---------------------------------------------------------------------------------------------
def rule_u128_count_chunks(col, facts):
    """SIB-count: <u128 as DigitCount>::digit_count (generic radix) mirrors algorithm_u128: every chunk split off
    with u128_divrem contributes exactly `u64_step(radix)` digits and the last quotient contributes the digits
    counted by the naive loop.  The count positions the unchecked writes, so a literal contribution (`+= 1`)
    is an under- or over-count for some radix."""
    if facts.config.startswith("compact") or "radix" not in facts.config:
        return
    R = "SIB-count"
    f = facts.fn("<u128 as lexical_write_integer::digit_count::DigitCount>::digit_count")
    counter = None
    for l, ds in f.defs().items():
        for bb, j, rv, pr in ds:
            if rv[0] != "call":
                e = strip_casts(rvalue_expr(f, rv, 0))
                if e[0] == "call" and last_seg(e[1]) == "u64_step" and len(ds) >= 3:
                    counter = l
    if counter is None:
        from rules.core import ShapeUnknown
        raise ShapeUnknown("u128 digit_count has no counter initialised with u64_step(radix): the chunk count is written in another shape")
    n = 0
    for bb, j, rv, pr in f.defs()[counter]:
        if rv[0] == "call":
            continue
        e = strip_casts(rvalue_expr(f, rv, 0))
        if e[0] != "bin" or e[1] != "Add":
            continue
        n += 1
        add = strip_casts(e[3]) if strip_casts(e[2]) == ("var", counter, f.names.get(counter, "_%d" % counter)) or strip_casts(e[2])[:2] == ("var", counter) else strip_casts(e[2])
        ok = (add[0] == "call" and last_seg(add[1]) == "u64_step") or add[0] == "var"
        col.check(R, "u128::digit_count:contribution#%d" % n, ok,
                  "a chunk contributes `%s` digits: neither u64_step(radix) nor the naive count of the remaining value - the digit count that positions algorithm_u128's unchecked writes is wrong for some radix" % show(add), f.loc(f.blocks[bb]["ts"]))
    col.floor(R, "contributions to the u128 digit count", n, 3)


# ---------------------------------------------------------------------------------------------
def rule_ok_requires_digits(col, facts):
    """MPT-ok: with `format`, "digits are required" is a run-time property of the format.  Both integer
    algorithms return Ok only through a test that either the format does not require digits or at least one
    digit was counted; the complete parser has it on every exit, so a partial exit without it accepts
    (value 0, n) for a prefix the complete parser rejects as Empty."""
    if "format" not in facts.config:
        return
    R = "MPT-ok"
    for name in ("algorithm_complete", "algorithm_partial"):
        f = facts.fn("lexical_parse_integer::algorithm::" + name)
        n = 0
        for i, b in enumerate(f.blocks):
            if not f.live(i):
                continue
            for st in b["s"]:
                if not (st[0] == "=" and st[2][0] == "agg" and st[2][1][0] == "adt" and "result::Result" in st[2][1][1] and st[2][1][3] == "Ok"):
                    continue
                n += 1
                bad_alt = None
                for alt in reach_alternatives(f, i):
                    ok = False
                    for _d, e, p in alt:
                        e = strip_casts(e)
                        if e[0] == "kc" and last_seg(e[1]).startswith("REQUIRED_") and p is False:
                            ok = True
                        # the count itself, not something computed from it (`count - 1` is zero after one byte)
                        lhs = strip_casts(e[2]) if e[0] == "bin" else None
                        is_count = lhs is not None and ((lhs[0] == "call" and last_seg(lhs[1]) == "current_count") or lhs[0] in ("var", "k"))
                        if e[0] == "bin" and e[1] == "Eq" and strip_casts(e[3]) == ("k", 0) and p is False and is_count:
                            ok = True
                        if e[0] == "bin" and e[1] == "Ne" and strip_casts(e[3]) == ("k", 0) and p is True and is_count and lhs[0] == "call":
                            ok = True
                    if not ok:
                        bad_alt = alt
                if bad_alt is not None:
                    # `let is_empty = cfg!(..) && required_digits!() && count == 0; if is_empty { Err } ... Ok`: the
                    # test sits in a boolean local - read it along every path to the Ok
                    from rules.core import every_path_has
                    def _lets_through(e, p):
                        e = strip_casts(e)
                        if e[0] == "kc" and last_seg(e[1]).startswith("REQUIRED_") and p is False:
                            return True
                        lhs = strip_casts(e[2]) if e[0] == "bin" else None
                        is_count = lhs is not None and ((lhs[0] == "call" and last_seg(lhs[1]) == "current_count") or lhs[0] in ("var", "k"))
                        if e[0] == "bin" and e[1] == "Eq" and strip_casts(e[3]) == ("k", 0) and p is False and is_count:
                            return True
                        return e[0] == "bin" and e[1] == "Ne" and strip_casts(e[3]) == ("k", 0) and p is True and is_count and lhs[0] == "call"
                    try:
                        if every_path_has(f, i, _lets_through):
                            bad_alt = None
                    except AnchorMissing:
                        pass
                col.check(R, "%s:ok#%d" % (name, n), bad_alt is None,
                          "an Ok(..) result is returned on a path that neither found the format not to require digits nor a non-zero digit count (last conditions: %s)" % ([(show(e)[:50], p) for _d, e, p in (bad_alt or [])][-3:]), f.loc(st[3]))
        col.floor(R, "Ok sites in %s" % name, n, 2)   # the empty-after-sign exit and the final one (the lone-zero exit went with F36)


# ---------------------------------------------------------------------------------------------
def rule_grisu_boundaries(col, facts):
    """CFG-boundary (Grisu, compact): the lower boundary is twice as close exactly when the significand is the
    hidden bit *of the float type being written* (a power of two), optionally excluding the smallest normal
    exponent (`exp != DENORMAL_EXPONENT`, as in the reference).  Comparing with another type's hidden bit
    never matches for f32; requiring `exp == DENORMAL_EXPONENT` disables it for every other power of two:
    both give Grisu an interval that is too wide and the shortest digits may read back as the neighbour."""
    from rules.core import enum_paths
    if not facts.config.startswith("compact"):
        return
    R = "CFG-boundary"
    f = facts.fn(WF + "compact::normalized_boundaries")
    hid = []
    den = []
    for i, b in enumerate(f.blocks):
        if not f.live(i):
            continue
        for st in b["s"]:
            if st[0] == "=" and st[2][0] == "bin" and st[2][1] in ("Eq", "Ne"):
                e = rvalue_expr(f, st[2], 0)
                ks = expr_consts(e)
                if any(last_seg(k[1]) == "HIDDEN_BIT_MASK" for k in ks):
                    hid.append((e, st[3], st[1][0]))
                if any(last_seg(k[1]) == "DENORMAL_EXPONENT" for k in ks):
                    den.append((e, st[3], st[1][0]))
    col.check(R, "normalized_boundaries:hidden-bit-test", len(hid) == 1, "expected one comparison with HIDDEN_BIT_MASK, found %d" % len(hid), f.loc())
    for e, sp, _l in hid:
        ks = [k for k in expr_consts(e) if last_seg(k[1]) == "HIDDEN_BIT_MASK"]
        generic = all(k[1].endswith("num::Float::HIDDEN_BIT_MASK") and "F/#" in str(k[3]) for k in ks)
        col.check(R, "normalized_boundaries:hidden-bit-of-F", generic and e[1] == "Eq",
                  "`%s`: the power-of-two test does not compare the significand with F::HIDDEN_BIT_MASK of the float type being written (%s)" % (show(e), [(k[1], k[3]) for k in ks]), f.loc(sp))
    for e, sp, l in den:
        # allowed: exp != DENORMAL_EXPONENT, or !(exp == DENORMAL_EXPONENT)
        negated = False
        for b in f.blocks:
            for st in b["s"]:
                if st[0] == "=" and st[2][0] == "un" and st[2][1] == "Not" and st[2][2][0] in ("cp", "mv") and st[2][2][1][0] == l:
                    negated = True
        ok = (e[1] == "Ne") != negated
        col.check(R, "normalized_boundaries:denormal-exponent", ok,
                  "`%s` as a condition for the closer lower boundary: only the smallest normal exponent may be *excluded*; requiring it removes the closer boundary from every other power of two" % show(e), f.loc(sp))


# ---------------------------------------------------------------------------------------------
def _counter_addends(f, counter):
    """(block, addend expression) for every `counter = counter + X`, spelt with `+` or with saturating_add / checked_add."""
    out = []
    for bb, jj, rv, pr in f.defs()[counter]:
        if pr:
            continue
        if rv[0] == "call":
            if last_seg(callee_name(rv[1])) in ("saturating_add", "wrapping_add", "checked_add") and len(rv[2]) == 2:
                out.append((bb, strip_casts(op_expr(f, rv[2][1]))))
            continue
        e = strip_casts(rvalue_expr(f, rv, 0))
        if e[0] == "bin" and e[1] == "Add":
            out.append((bb, strip_casts(e[3])))
        elif e[0] == "call" and last_seg(e[1]) in ("saturating_add", "wrapping_add", "checked_add") and len(e[2]) == 2:
            out.append((bb, strip_casts(e[2][1])))          # `count = count.saturating_add(X)` through a temporary
    return out


def rule_min_digits_allowance(col, facts):
    """TBL-size (min digits): buffer_size_const's significant-digit term must be at least
    min_significant_digits whenever that option is set: on *every* path to the final `count += digits`
    the option is consulted, and on its Some edge the term is compared with (and can be replaced by) its
    value.  A path that never looks at it sizes the buffer for 28 / 64 digits while the writer pads to
    min_significant_digits."""
    from rules.core import enum_paths
    R = "TBL-size"
    f = facts.fn(WF + "options::Options::buffer_size_const")
    # the last self-increment of the counter whose addend is not a constant and not the exponent term
    counter = None
    for l, ds in f.defs().items():
        if any(rv[0] == "use" and rv[1][0] == "k" and rv[1][1].get("ty") == "usize" and rv[1][1].get("v") == 2 for bb, j, rv, pr in ds) and len(ds) >= 4:
            counter = l
    if counter is None:
        raise AnchorMissing("buffer_size_const: counter not found")
    tg = None
    for bb, add in _counter_addends(f, counter):
        if add[0] == "var" and len(f.defs().get(add[1], [])) >= 2:
            tg = bb
    col.check(R, "buffer_size_const:digits-term", tg is not None, "the `count += digits` term was not found", f.loc())
    if tg is None:
        return
    paths = enum_paths(f, 0, {tg})
    bad = None
    n = 0
    for _t, atoms in paths:
        n += 1
        consulted = None
        compared = False
        for e, p in atoms:
            e = strip_casts(simplify_proj(e))
            if e[0] == "discr" and any(last_seg(c[1]) == "min_significant_digits" for c in expr_calls(e)):
                consulted = p
            if e[0] == "bin" and e[1] in ("Gt", "Lt", "Ge", "Le") and any(last_seg(c[1]) == "min_significant_digits" for c in expr_calls(e)):
                compared = True
        is_some = consulted is not None and (consulted == ("eq", 1) or (isinstance(consulted, tuple) and consulted[0] == "ne" and 1 not in consulted[1]))
        if consulted is None or (is_some and not compared):
            bad = [(show(e)[:60], p) for e, p in atoms][-4:]
    col.check(R, "buffer_size_const:min-digits-on-every-path", bad is None and n >= 2,
              "a path to `count += digits` %s: the bound ignores min_significant_digits there (last conditions %s)" % ("exists that never consults / compares min_significant_digits()", bad), f.loc(f.blocks[tg]["ts"]))


# ---------------------------------------------------------------------------------------------
def rule_punctuation_pairs(col, facts):
    """KEY-constraints (pairwise distinct): is_valid_punctuation answers true for three optional control
    characters (digit separator, base prefix, base suffix) only when the present ones are pairwise
    different.  Every accepting path that compares any two of them must compare all three pairs (the last
    comparison may be the returned expression)."""
    from rules.core import enum_paths, resolve_env
    R = "KEY-constraints"
    f = facts.fn("lexical_util::format_flags::is_valid_punctuation")
    rets = {i for i, b in enumerate(f.blocks) if f.live(i) and b["t"]["k"] == "return"}
    NAMES = ("digit_separator", "base_prefix", "base_suffix")
    def pair_of(e):
        e = strip_casts(simplify_proj(e))
        if e[0] == "bin" and e[1] in ("Ne", "Eq"):
            a = [last_seg(c[1]) for c in expr_calls(e[2]) if last_seg(c[1]) in NAMES]
            b = [last_seg(c[1]) for c in expr_calls(e[3]) if last_seg(c[1]) in NAMES]
            if len(a) == 1 and len(b) == 1 and a != b:
                return frozenset((a[0], b[0])), e[1]
        return None, None
    n = 0
    bad = None
    for t, atoms, env in enum_paths(f, 0, rets, want_env=True):
        pairs = set()
        for e, p in atoms:
            pr, op = pair_of(e)
            if pr is not None and isinstance(p, bool) and ((op == "Ne") == p):
                pairs.add(pr)
        r = env.get(0)
        if r is None:
            continue
        if r[0] == "const":
            if r[1] is not True:
                continue
        else:
            pr, op = pair_of(resolve_env(r[1], env))
            if pr is not None and op == "Ne":
                pairs.add(pr)
        if not pairs:
            continue
        n += 1
        if len(pairs) != 3:
            missing = [sorted(x) for x in (frozenset(("digit_separator", "base_prefix")), frozenset(("digit_separator", "base_suffix")), frozenset(("base_prefix", "base_suffix"))) if x not in pairs]
            bad = missing
    col.check(R, "is_valid_punctuation:pairwise", bad is None and n >= 1,
              "an accepting path compares some of (digit_separator, base_prefix, base_suffix) but never %s: a format where those two are the same character is reported valid" % (bad,), f.loc())


# ---------------------------------------------------------------------------------------------
def rule_lossy_rounds(col, facts):
    """MPT-lossy-round: `lossy` only means "do not fall back to the slow path".  In bellerophon() and
    binary() every result that can be returned when lossy is true is either the literal zero / infinity or
    has passed through shared::round: an unrounded 64-bit extended float handed back as a finished result
    is garbage after to_native (wrong by far more than one ulp, even the sign of the exponent field)."""
    from rules.core import enum_paths, resolve_env
    R = "MPT-lossy-round"
    backends = []
    if facts.config.startswith("compact") or "radix" in facts.config:
        backends.append((PF + "bellerophon::bellerophon", 2))
    if "power-of-two" in facts.config or "radix" in facts.config:
        backends.append((PF + "binary::binary", 2))
    for name, la in backends:
        f = facts.fn(name)
        rets = {i for i, b in enumerate(f.blocks) if f.live(i) and b["t"]["k"] == "return"}
        rb = {bb for bb, c, a, d, t in f.calls() if callee_name(c).endswith("shared::round")}
        col.check(R, last_seg(name) + ":round-present", bool(rb), "no call to shared::round", f.loc())
        n = 0
        bad = None
        for t, atoms, env in enum_paths(f, 0, rets, want_env=True):
            lossy = [p for e, p in atoms if strip_casts(e)[:2] == ("arg", la)]
            if lossy and all(p is False for p in lossy):
                continue                           # only reachable with lossy == false
            n += 1
            if rb & env["__blocks__"]:
                continue
            r = env.get(0)
            e = strip_casts(simplify_proj(resolve_env(r[1], env))) if r and r[0] == "expr" else None
            literal = e is not None and e[0] == "agg" and len(e[2]) == 2 and strip_casts(e[2][0]) == ("k", 0)
            if not literal:
                bad = show(e) if e is not None else "?"
        col.check(R, last_seg(name) + ":lossy-results", bad is None and n >= 2,
                  "with lossy == true a result `%s` is returned that is neither the literal zero / infinity nor rounded by shared::round" % bad, f.loc())


# ---------------------------------------------------------------------------------------------
def rule_reparse_skips_zeros(col, facts):
    """PAIR-zeros: parse_number decides `many_digits` after subtracting the leading zeros of the integer and
    fraction parts (two skip_zeros() calls on a clone), then re-reads at most `u64_step` digits.  The re-read
    must skip the same zeros - each parse_u64_digits call consumes an iterator on which skip_zeros() was
    called (the fraction one conditionally) - or the zeros use up the digit budget and the mantissa keeps
    fewer significant digits than `many_digits` accounts for (lossy results off by many ulps)."""
    from rules.pipeline import reach_from
    R = "PAIR-zeros"
    f = facts.fn(PF + "parse::parse_number")
    skips = []
    for bb, c, a, d, t in f.calls():
        if last_seg(callee_name(c)) == "skip_zeros":
            e = strip_casts(op_expr(f, a[0]))
            while e[0] == "ref":
                e = strip_casts(e[1])
            if e[0] == "call":
                skips.append((bb, e[3], last_seg(e[1])))
    n = 0
    for bb, c, a, d, t in f.calls():
        if callee_name(c) != PF + "parse::parse_u64_digits":
            continue
        n += 1
        e = strip_casts(op_expr(f, a[0]))
        ok = e[0] == "call" and any(dest == e[3] and (bb in reach_from(f, sb)) for sb, dest, _n in skips)
        col.check(R, "parse_number:reparse#%d:%s" % (n, last_seg(e[1]) if e[0] == "call" else "?"), ok,
                  "the re-parse reads digits from `%s` without skip_zeros() on that iterator: leading zeros are counted against the %s-digit budget although the many-digits test had discounted them" % (show(e), "u64_step"), f.loc(f.blocks[bb]["ts"]))
    col.floor(R, "parse_u64_digits re-parse calls", n, 2)
    col.floor(R, "skip_zeros calls in parse_number", len(skips), 4)


# ---------------------------------------------------------------------------------------------
def rule_compare_equal_exhausted(col, facts):
    """MPT-equal (odd-radix slow path): compare_bytes compares the input digits with the digits of the halfway
    point generated on the fly and may answer `Equal` (an exact tie, resolved to even) only when the
    *theoretical* digits are exhausted too.  On every path into the final `Ordering::Equal` the last test of
    `num.data.is_empty()` is true; an input that merely ran out of digits first is `Less` (for an odd radix the
    halfway expansion never terminates, so a strict prefix is strictly below it)."""
    from rules.core import enum_paths
    if "radix" not in facts.config:
        return
    R = "MPT-equal"
    f = facts.fn(PF + "slow::compare_bytes")
    tg = set()
    for i, b in enumerate(f.blocks):
        if not f.live(i):
            continue
        for st in b["s"]:
            if st[0] == "=" and st[1] == [0, []] and st[2][0] == "agg" and st[2][1][0] == "adt" and st[2][1][1].endswith("cmp::Ordering") and st[2][1][3] == "Equal":
                tg.add(i)
    col.check(R, "compare_bytes:equal-site", len(tg) == 1, "%d `Ordering::Equal` results" % len(tg), f.loc())
    if len(tg) != 1:
        return
    paths = enum_paths(f, 0, tg, limit=400000)
    bad = 0
    for _t, atoms in paths:
        last = None
        for e, p in atoms:
            e = strip_casts(e)
            if e[0] == "call" and last_seg(e[1]) == "is_empty" and "is_buffer" not in e[1]:
                last = p
        if last is not True:
            bad += 1
    col.check(R, "compare_bytes:equal-needs-exhausted-theoretical-digits", bad == 0 and len(paths) >= 3,
              "%d of %d paths reach `Ordering::Equal` while the theoretical digits (num.data) were last seen non-empty: a strict prefix of the halfway expansion is treated as an exact tie and rounds to even instead of down" % (bad, len(paths)), f.loc(f.blocks[list(tg)[0]]["ts"]))


# ---------------------------------------------------------------------------------------------
def rule_grammar_guards(col, facts):
    """CFG-grammar (format only): two documented conditions of the grammar that are visible as guards.
    (a) NO_EXPONENT_WITHOUT_FRACTION is about the *presence of a fraction component* (a decimal point before
        the exponent; `1.e3` has one): Error::ExponentWithoutFraction is guarded by `is_none()` of the very
        Option that becomes Number.fraction, not by a digit count.
    (b) A base prefix is `0` + the prefix character: the prefix character is looked for only after exactly
        one leading zero, in the integer parser (skip_zeros() == 1) and in the float parser (one
        read_if_value_cased(b'0'))."""
    if "format" not in facts.config:
        return
    from rules.syntax import error_sites
    R = "CFG-grammar"
    pn = facts.fn(PF + "parse::parse_number")
    fields = facts.adts[PF + "number::Number"][0]["fields"]
    fi = fields.index("fraction")
    frac_locals = set()
    for i, b in enumerate(pn.blocks):
        if not pn.live(i):
            continue
        for st in b["s"]:
            if st[0] == "=" and st[2][0] == "agg" and st[2][1][0] == "adt" and st[2][1][1] == PF + "number::Number":
                e = strip_casts(op_expr(pn, st[2][2][fi]))
                if e[0] == "var":
                    frac_locals.add(e[1])
    col.check(R, "Number.fraction:source", len(frac_locals) == 1, "Number.fraction is built from %d different locals" % len(frac_locals), pn.loc())
    sites = [(bb, sp) for bb, v, sp in error_sites(pn) if v == "ExponentWithoutFraction"]
    col.check(R, "ExponentWithoutFraction:present", bool(sites), "Error::ExponentWithoutFraction is never produced", pn.loc())
    for k, (bb, sp) in enumerate(sites):
        ok = False
        for _d, e, p in path_conditions(pn, bb):
            e = strip_casts(e)
            if e[0] == "call" and last_seg(e[1]) in ("is_none", "is_some"):
                inner = strip_casts(e[2][0])
                while inner[0] == "ref":
                    inner = strip_casts(inner[1])
                if inner[0] == "var" and inner[1] in frac_locals and ((last_seg(e[1]) == "is_none") == (p is True)):
                    ok = True
            if e[0] == "discr" and strip_casts(e[1])[0] == "var" and strip_casts(e[1])[1] in frac_locals and (p == ("eq", 0) or (isinstance(p, tuple) and p[0] == "ne" and 0 not in p[1])):
                ok = True
        col.check(R, "ExponentWithoutFraction#%d:fraction-absent" % k, ok,
                  "Error::ExponentWithoutFraction is produced without having found the fraction component (the Option that becomes Number.fraction) absent: `1.e3`, which has a decimal point, is rejected or `1e3` accepted", pn.loc(sp))
    # (b) prefix after exactly one zero
    n = 0
    for fname in ("lexical_parse_integer::algorithm::algorithm_complete", "lexical_parse_integer::algorithm::algorithm_partial", PF + "parse::parse_number"):
        f = facts.fn(fname)
        for bb, c, a, d, t in f.calls():
            if last_seg(callee_name(c)) != "read_if_value" or len(a) < 2:
                continue
            if not any(last_seg(x[1]) == "base_prefix" for x in expr_calls(op_expr(f, a[1]))):
                continue
            n += 1
            ok = False
            for _d, e, p in path_conditions(f, bb):
                e = strip_casts(e)
                if e[0] == "bin" and e[1] == "Eq" and p is True and strip_casts(e[3]) == ("k", 1) and any(last_seg(x[1]) == "skip_zeros" for x in expr_calls(e[2])):
                    ok = True
                if e[0] == "call" and last_seg(e[1]) == "is_some" and p is True and any(last_seg(x[1]) == "read_if_value_cased" and strip_casts(x[2][-1]) == ("k", 48) for x in expr_calls(e)):
                    ok = True
            col.check(R, "%s:prefix-after-one-zero" % last_seg(fname), ok,
                      "the base-prefix character is looked for without having consumed exactly one leading `0` (skip_zeros() == 1 / one read_if_value_cased(b'0')): `00x1F` is accepted, and the integer and float parsers disagree", f.loc(f.blocks[bb]["ts"]))
    col.floor(R, "base-prefix look-ups", n, 3)
    # (c) with no_integer_leading_zeros more than one leading zero is an error whatever follows
    for fname in ("lexical_parse_integer::algorithm::algorithm_complete", "lexical_parse_integer::algorithm::algorithm_partial"):
        f = facts.fn(fname)
        ok = False
        for bb, v, sp in error_sites(f):
            if v != "InvalidLeadingZeros":
                continue
            # (dominating conditions, or - `zeros >= 2 || next is a digit` joins two edges - those of one way in)
            for _d, e, p in list(path_conditions(f, bb)) + [c_ for alt in reach_alternatives(f, bb) for c_ in alt]:
                e = strip_casts(e)
                if e[0] == "bin" and any(last_seg(x[1]) == "skip_zeros" for x in expr_calls(e[2])) and strip_casts(e[3])[0] == "k":
                    k = strip_casts(e[3])[1]
                    if (e[1] == "Gt" and k == 1 and p is True) or (e[1] == "Ge" and k == 2 and p is True) or (e[1] == "Le" and k == 1 and p is False) or (e[1] == "Lt" and k == 2 and p is False):
                        ok = True
        if not ok:
            # `let invalid = zeros >= 2 || next_is_digit; if invalid { Err }`: some way into the error carries the test
            from rules.core import some_path_has
            def _more_than_one(e, p):
                e = strip_casts(e)
                if e[0] == "bin" and any(last_seg(x[1]) == "skip_zeros" for x in expr_calls(e[2])) and strip_casts(e[3])[0] == "k":
                    k = strip_casts(e[3])[1]
                    return (e[1] == "Gt" and k == 1 and p is True) or (e[1] == "Ge" and k == 2 and p is True) or (e[1] == "Le" and k == 1 and p is False) or (e[1] == "Lt" and k == 2 and p is False)
                return False
            ok = any(some_path_has(f, bb, _more_than_one) for bb, v, sp in error_sites(f) if v == "InvalidLeadingZeros")
        col.check(R, "%s:several-leading-zeros" % last_seg(fname), ok,
                  "no Error::InvalidLeadingZeros site is guarded by `more than one zero was skipped`: under no_integer_leading_zeros `00`, `000` are accepted as 0", f.loc())

    # (d) the float parser's leading-zeros test is about *digits*: "more than one digit and the first is 0".
    #     With digit separators the raw integer slice also holds separator bytes, so its length / first byte
    #     are not that: `0_` (one digit, trailing separator) was rejected.  The count compared with 1 must come
    #     from current_count(), the first digit from the component iterator.
    sites = [(bb, sp) for bb, v, sp in error_sites(pn) if v == "InvalidLeadingZeros"]
    col.check(R, "parse_number:InvalidLeadingZeros:present", bool(sites), "Error::InvalidLeadingZeros is never produced by the float parser", pn.loc())

    def _all_defs(e, depth=0):
        out = [e]
        e = strip_casts(e)
        if e[0] == "var" and depth < 3:
            for _bb, _j, rv, proj in pn.defs().get(e[1], []):
                if not proj:
                    out.extend(_all_defs(rvalue_expr(pn, rv, 1, e[1]), depth + 1))
        elif e[0] in ("bin",):
            out.extend(_all_defs(e[2], depth + 1) + _all_defs(e[3], depth + 1))
        return out
    for k, (bb, sp) in enumerate(sites):
        counted = first = False
        raw = None
        for _d, e, p in path_conditions(pn, bb):
            e = strip_casts(e)
            if e[0] == "bin" and e[1] in ("Gt", "Ge", "Lt", "Le") and strip_casts(e[3])[0] == "k":
                names = set()
                for x in _all_defs(e[2]):
                    names |= {last_seg(c[1]) for c in expr_calls(x)}
                    if "PtrMetadata" in show(x):
                        names.add("len")
                if "current_count" in names and not (names & {"len", "as_slice", "get_unchecked"}):
                    counted = True
                elif names & {"len", "as_slice", "get_unchecked"}:
                    raw = show(e)
            names = {last_seg(c[1]) for c in expr_calls(e)}
            if names & {"peek", "first_is", "first_is_cased", "peek_is_cased", "read_if_value_cased"} and "integer_iter" in names:
                first = True
            elif "first" in names or "get_unchecked" in names and "eq" in names:
                raw = raw or show(e)
        # ... and about the *integer* digits: the running digit count later takes in the fraction digits, so the
        # test has to be made before the fraction is parsed (moved after it, `0.5` has two digits and a leading
        # zero and is rejected: nothing the writer prints below one reads back under JSON-like formats)
        from rules.pipeline import reach_from
        frac = [b2 for b2, c2, a2, d2, t2 in pn.calls() if last_seg(callee_name(c2)) == "fraction_iter"]
        if frac:
            late = [b2 for b2 in frac if bb in reach_from(pn, b2)]
            col.check(R, "parse_number:InvalidLeadingZeros#%d:before-fraction" % k, not late,
                      "the leading-zeros error is decided after the fraction digits were parsed: the digit count it compares with 1 includes them, so `0.5` (one integer digit) is rejected under no_float_leading_zeros", pn.loc(sp))
        col.check(R, "parse_number:InvalidLeadingZeros#%d:counts-digits" % k, counted and first,
                  "the leading-zeros error is decided from the raw bytes of the integer component (%s) instead of the digit count (current_count) and the iterator's first digit: digit separators are counted as digits, `0_` / `0_.5` are rejected under no_float_leading_zeros" % (raw or "no digit-count comparison found")[:160], pn.loc(sp))

    # (e) "there is a base prefix" means `0` *and* the prefix character were read.  The float parser's flag
    #     that records it (and that switches the leading-zeros check off) may only be set once the prefix
    #     character itself was consumed; set after the lone `0`, the zero is lost: `0` -> EmptyMantissa and
    #     `01` passes no_float_leading_zeros.
    # the flag = the bool local (all of whose definitions are literals) that is tested on the way to the
    # leading-zeros error, whatever it is called
    pl = set()
    for bb, sp in sites:
        for _d, e, p in path_conditions(pn, bb):
            e = strip_casts(e)
            if e[0] == "var" and isinstance(p, bool):
                ds = pn.defs().get(e[1], [])
                if len(ds) >= 2 and all((not pr) and rv[0] == "use" and rv[1][0] == "k" and rv[1][1].get("ty") == "bool" for _b, _j, rv, pr in ds):
                    pl.add(e[1])
    pl = sorted(pl)
    col.check(R, "parse_number:is_prefix:local", len(pl) == 1, "the prefix flag tested before the leading-zeros error was not found (%d candidates)" % len(pl), pn.loc())
    if len(pl) == 1:
        k = 0
        for i, b in enumerate(pn.blocks):
            if not pn.live(i):
                continue
            for st in b["s"]:
                if st[0] == "=" and st[1] == [pl[0], []] and st[2][0] == "use" and st[2][1][0] == "k" and st[2][1][1].get("v") in (1, True):
                    k += 1
                    ok = False
                    for _d, e, p in path_conditions(pn, i):
                        e = strip_casts(e)
                        if e[0] == "call" and last_seg(e[1]) == "is_some" and p is True:
                            for x in expr_calls(e):
                                if last_seg(x[1]) == "read_if_value" and any(last_seg(y[1]) == "base_prefix" for y in expr_calls(x)):
                                    ok = True
                    if not ok:
                        # the look-up may have been moved into a helper whose result is matched
                        # (`if let Some(rest) = strip_base_prefix(&byte)? { is_prefix = true; .. }`)
                        def _reads_prefix(g, depth=0):
                            for _b, c2, a2, _d2, _t2 in g.calls():
                                if last_seg(callee_name(c2)) == "read_if_value" and len(a2) > 1 and any(last_seg(y[1]) == "base_prefix" for y in expr_calls(op_expr(g, a2[1]))):
                                    return True
                                if depth < 2 and any(h.crate == g.crate and h.short != g.short and _reads_prefix(h, depth + 1) for h in facts.by_short.get(callee_name(c2), [])):
                                    return True
                            return False
                        via = [x[1] for _d, e, p in path_conditions(pn, i) for x in expr_calls(e) if any(h.crate == pn.crate and _reads_prefix(h) for h in facts.by_short.get(x[1], []))]
                        if via:
                            col.assumed("not-applied", "CFG-grammar:parse_number:is_prefix#%d" % k, "`is_prefix` is set under a test of the helper %s, which looks the prefix character up: which of its results sets the flag is not decided" % via[0], pn.loc(st[3]))
                            continue
                    col.check(R, "parse_number:is_prefix#%d:after-prefix-character" % k, ok,
                              "`is_prefix` is set without the prefix character having been read (only the leading `0` was): a plain `0` / `0.5` loses its zero (EmptyMantissa) and the leading-zeros check is switched off for `01`", pn.loc(st[3]))
        col.check(R, "parse_number:is_prefix:set", k >= 1, "`is_prefix` is never set", pn.loc())

    # (f) the integer parser's `start_index` is where the digits start (after the sign and after a base prefix);
    #     "a suffix needs at least one digit before it" is measured from there.  It may move only over a
    #     recognised prefix - moved over leading zeros that are ordinary digits, `0h` is rejected although
    #     `1h` and (without a prefix in the format) `0h` are accepted.
    for fname in ("lexical_parse_integer::algorithm::algorithm_complete", "lexical_parse_integer::algorithm::algorithm_partial"):
        f = facts.fn(fname)
        # the start of the digits = the local subtracted from the cursor in the "at least one digit before the
        # suffix" test `cursor() - X > 1`, whatever it is called
        sl = set()
        for i, b in enumerate(f.blocks):
            if f.live(i) and b["t"]["k"] == "switch":
                e = strip_casts(op_expr(f, b["t"]["d"]))
                if e[0] == "bin" and e[1] in ("Gt", "Ge") and strip_casts(e[3])[0] == "k":
                    l = strip_casts(simplify_proj(e[2]))
                    if l[0] == "bin" and l[1] == "Sub" and strip_casts(l[2])[0] == "call" and last_seg(strip_casts(l[2])[1]) == "cursor" and strip_casts(l[3])[0] == "var":
                        sl.add(strip_casts(l[3])[1])
        sl = sorted(sl)
        col.check(R, "%s:start_index:local" % last_seg(fname), len(sl) == 1, "the start-of-digits local of the suffix test was not found (%d candidates)" % len(sl), f.loc())
        if len(sl) != 1:
            continue
        moves = badm = 0
        where = f.loc()
        for bb, j, rv, proj in f.defs().get(sl[0], []):
            if proj or rv[0] == "call":
                continue
            moves += 1
            ok = False
            for _d, e, p in path_conditions(f, bb):
                e = strip_casts(e)
                if e[0] == "call" and last_seg(e[1]) == "is_some" and p is True and any(last_seg(x[1]) == "read_if_value" and any(last_seg(y[1]) == "base_prefix" for y in expr_calls(x)) for x in expr_calls(e)):
                    ok = True
            if not ok:
                # `let is_prefix = base_prefix != 0 && zeros == 1 && iter.read_if_value(..).is_some(); if is_prefix {..}`:
                # read the boolean along every path to the adjustment
                from rules.core import every_path_has
                try:
                    ok = every_path_has(f, bb, lambda e, p: strip_casts(e)[0] == "call" and last_seg(strip_casts(e)[1]) == "is_some" and p is True and
                                        any(last_seg(x[1]) == "read_if_value" and any(last_seg(y[1]) == "base_prefix" for y in expr_calls(x)) for x in expr_calls(e)))
                except AnchorMissing:
                    ok = False
            if not ok:
                badm += 1
                where = f.loc(f.blocks[bb]["s"][j][3]) if j >= 0 else f.loc(f.blocks[bb]["ts"])
        col.check(R, "%s:start_index:moves-only-over-prefix" % last_seg(fname), badm == 0,
                  "%d of %d adjustments of `start_index` happen without a base prefix having been read (leading zeros are digits): with a prefix and a suffix in the format `0h` is rejected while `1h` is accepted" % (badm, moves), where)

    # (g) a byte that is not a digit may be the base suffix: every place where the integer parser gives up on a
    #     non-digit byte (InvalidDigit, or the partial parser's Ok at that byte) must come after the base-suffix
    #     test - i.e. be dominated by a block that reads NumberFormat::BASE_SUFFIX.  The lone-zero exit of
    #     no_integer_leading_zeros returned straight away: `0h` was rejected while `1h` and `10h` are accepted.
    for fname in ("lexical_parse_integer::algorithm::algorithm_complete", "lexical_parse_integer::algorithm::algorithm_partial"):
        f = facts.fn(fname)
        readers = set()
        for i, b in enumerate(f.blocks):
            if not f.live(i):
                continue
            for st in b["s"]:
                if st[0] == "=" and "BASE_SUFFIX" in json.dumps(st[2]):
                    readers.add(i)
        col.check(R, "%s:base-suffix:read" % last_seg(fname), bool(readers), "NumberFormat::BASE_SUFFIX is never read", f.loc())
        sites = [(bb, sp) for bb, v, sp in error_sites(f) if v == "InvalidDigit"]
        nb = 0
        where = f.loc()
        for bb, sp in sites:
            if not any(f.dominates(r, bb) for r in readers):
                nb += 1
                where = f.loc(sp)
        if last_seg(fname) == "algorithm_partial":
            # the partial parser's counterpart of InvalidDigit: an Ok whose count is `index - 1` (stopped at a byte)
            for i, b in enumerate(f.blocks):
                if not f.live(i):
                    continue
                for st in b["s"]:
                    if st[0] == "=" and st[1] == [0, []] and st[2][0] == "agg" and st[2][1][0] == "adt" and st[2][1][3] == "Ok":
                        tup = strip_casts(rvalue_expr(f, st[2], 0)[2][0])
                        if tup[0] == "agg" and len(tup[2]) == 2:
                            idx = strip_casts(tup[2][1])
                            if idx[0] == "bin" and idx[1] == "Sub" and strip_casts(idx[3]) == ("k", 1):
                                sites.append((i, st[3]))
                                if not any(f.dominates(r, i) for r in readers):
                                    nb += 1
                                    where = f.loc(st[3])
        col.check(R, "%s:invalid-digit-after-suffix-test" % last_seg(fname), nb == 0 and bool(sites),
                  "%d of %d exits at a byte that is not a digit are taken without the byte having been compared with the base suffix: e.g. after a lone zero under no_integer_leading_zeros `0h` is rejected although `1h` is accepted" % (nb, len(sites)), where)


# ---------------------------------------------------------------------------------------------
def _lower_bound(e, atoms, depth=0):
    """Greatest constant lower bound of expression e implied by the atoms of one path (0 if none)."""
    e = strip_casts(simplify_proj(e))
    if e[0] == "k" and isinstance(e[1], int):
        return e[1]
    if e[0] == "kc" and isinstance(e[2], int):
        return e[2]
    lb = 0
    if depth > 3:
        return lb
    for a, p in atoms:
        a = strip_casts(simplify_proj(a))
        if a[0] != "bin" or a[1] not in ("Lt", "Le", "Gt", "Ge") or not isinstance(p, bool):
            continue
        x, y, op = strip_casts(a[2]), strip_casts(a[3]), a[1]
        if not p:
            op = {"Lt": "Ge", "Ge": "Lt", "Gt": "Le", "Le": "Gt"}[op]
        # now `x op y` holds
        if x == e and op in ("Gt", "Ge"):
            other = _lower_bound(y, atoms, depth + 1) if y != e else 0
            lb = max(lb, other + (1 if op == "Gt" else 0))
        if y == e and op in ("Lt", "Le"):
            other = _lower_bound(x, atoms, depth + 1) if x != e else 0
            lb = max(lb, other + (1 if op == "Lt" else 0))
    return lb


def _const_atom_contradicts(a, p):
    """An atom comparing two literal constants whose recorded polarity is not what the comparison gives."""
    a = strip_casts(simplify_proj(a))
    if a[0] != "bin" or a[1] not in ("Lt", "Le", "Gt", "Ge", "Eq", "Ne") or not isinstance(p, bool):
        return False
    x, y = strip_casts(a[2]), strip_casts(a[3])

    def k(z):
        if z[0] == "k" and isinstance(z[1], int) and not isinstance(z[1], bool):
            return z[1]
        if z[0] == "kc" and isinstance(z[2], int):
            return z[2]
        return None
    kx, ky = k(x), k(y)
    if kx is None or ky is None:
        return False
    v = {"Lt": kx < ky, "Le": kx <= ky, "Gt": kx > ky, "Ge": kx >= ky, "Eq": kx == ky, "Ne": kx != ky}[a[1]]
    return v != p


def rule_digit_window_allowance(col, facts):
    """TBL-size (digit window): the decimal writers emit *all* shortest digits with the u64 integer writer -
    which re-slices a 20-byte window - at the position where they start, and only then truncate them to
    max_significant_digits.  So the significant-digit term of buffer_size_const must be >= that window on
    every path, whatever max_significant_digits says: `min(28, max)` alone sizes the buffer for `max` digits
    and `-1.5e-300` with max = 5 and a negative break of -300 panics in a buffer of the documented size."""
    from rules.core import enum_paths, resolve_env
    from rules.tbl_write_integer import reslice_consts
    if facts.config.startswith("compact"):
        return
    R = "TBL-size"
    f = facts.fn(WF + "options::Options::buffer_size_const")
    j = facts.fn("lexical_write_integer::jeaiii::from_u64_impl")
    ks = reslice_consts(j)
    col.check(R, "from_u64:reslice", bool(ks), "jeaiii::from_u64_impl re-slices with %s" % ks, j.loc())
    if not ks:
        return
    window = max(ks)
    counter = None
    for l, ds in f.defs().items():
        if any(rv[0] == "use" and rv[1][0] == "k" and rv[1][1].get("ty") == "usize" and rv[1][1].get("v") == 2 for bb, jj, rv, pr in ds) and len(ds) >= 4:
            counter = l
    if counter is None:
        raise AnchorMissing("buffer_size_const: counter not found")
    tg = None
    addend = None
    for bb, add in _counter_addends(f, counter):
        if add[0] == "var" and len(f.defs().get(add[1], [])) >= 2:
            tg, addend = bb, add
    col.check(R, "buffer_size_const:digits-term(window)", tg is not None, "the `count += digits` term was not found", f.loc())
    if tg is None:
        return
    worst = None
    worst2 = None
    n = n2 = 0
    for _t, atoms, env in enum_paths(f, 0, {tg}, want_env=True, resolve_atoms=True):
        dec = [p for e, p in atoms if strip_casts(e)[0] == "bin" and strip_casts(e)[1] == "Eq" and strip_casts(strip_casts(e)[3]) == ("k", 10) and any(last_seg(c[1]) == "radix" for c in expr_calls(e))]
        if any(_const_atom_contradicts(a, p) for a, p in atoms):
            continue                        # e.g. `18 > 20` taken as true: not a path
        val = env.get(addend[1])
        e = resolve_env(val[1], env) if val and val[0] == "expr" else addend
        lb = _lower_bound(e, atoms)
        if dec and dec[-1] is False:
            # non-decimal: the power-of-two writers emit every digit of the (re-aligned) mantissa - 53 in radix
            # 2 - before they trim the trailing zeros, whatever max_significant_digits says
            n2 += 1
            if worst2 is None or lb < worst2[0]:
                worst2 = (lb, show(strip_casts(simplify_proj(e))))
            continue
        n += 1
        if worst is None or lb < worst[0]:
            worst = (lb, show(strip_casts(simplify_proj(e))))
    if "power-of-two" in facts.config or "radix" in facts.config:
        mant = facts.const_value("<f64 as lexical_util::num::Float>::MANTISSA_SIZE", required=False)
        mant = (mant + 1) if isinstance(mant, int) else 53
        col.check(R, "buffer_size_const:mantissa-digits(non-decimal)", worst2 is not None and worst2[0] >= mant and n2 >= 1,
                  "on a non-decimal path the significant-digit term can be as small as %s (`%s`) but the power-of-two writers emit all %d binary digits of the mantissa before trimming trailing zeros: radix 2, max_significant_digits 5, negative break -300, 2^-300 panics in a buffer of the documented size" % ((worst2 or (0, "?"))[0], (worst2 or (0, "?"))[1], mant), f.loc(f.blocks[tg]["ts"]))
    col.check(R, "buffer_size_const:digit-window", worst is not None and worst[0] >= window and n >= 1,
              "on a decimal path the significant-digit term can be as small as %s (`%s`) but the digits are first written through a %d-byte window: with a small max_significant_digits and a large negative exponent break the documented buffer is too short" % ((worst or (0, "?"))[0], (worst or (0, "?"))[1], window), f.loc(f.blocks[tg]["ts"]))


# ---------------------------------------------------------------------------------------------
def rule_compare_decodes(col, facts):
    """UNIT-char (odd-radix slow path): compare_bytes orders each input digit against the digit of the
    halfway point generated on the fly.  Input bytes are case-insensitive digits (`a` = `A` = 10) while
    digit_to_char_const only produces upper case, so ordering *characters* makes every lower-case letter
    compare greater: the comparison must be between decoded digit values."""
    if "radix" not in facts.config:
        return
    R = "UNIT-char"
    f = facts.fn(PF + "slow::compare_bytes")
    n_bad = n_ok = 0
    for i, b in enumerate(f.blocks):
        if not f.live(i):
            continue
        for st in b["s"]:
            if st[0] == "=" and st[2][0] == "bin" and st[2][1] in ("Lt", "Gt", "Le", "Ge"):
                e = rvalue_expr(f, st[2], 0)
                names = [last_seg(c[1]) for c in expr_calls(e)]
                if "digit_to_char_const" in names:
                    n_bad += 1
                    col.bad(R, "compare_bytes:orders-characters#%d" % n_bad,
                            "`%s` orders an input byte against digit_to_char_const(..): lower-case letter digits (radix > 10) always compare greater than the expected upper-case digit, so near-halfway inputs written in lower case round up" % show(e)[:120], f.loc(st[3]))
                elif "quorem" in names and "char_to_valid_digit_const" in names:
                    n_ok += 1
    col.floor(R, "digit comparisons in compare_bytes", n_ok + n_bad, 2)


def rule_exponent_narrowing(col, facts, which=("bellerophon", "binary")):
    """GRD-narrow: Number.exponent is an i64 that parse_number lets grow to about 10^10.  Every moderate-path
    back-end narrows it to i32 (directly or through calculate_power2); that cast must be dominated by the
    literal zero / infinity short-circuits on both sides (as in bellerophon: `<= -0x1000`, `>= 0x1000`),
    otherwise `1p2147483648` wraps to a tiny exponent and parses as 0 instead of infinity."""
    R = "GRD-narrow"
    fields = facts.adts[PF + "number::Number"][0]["fields"]
    ei = fields.index("exponent")
    backends = []
    if "bellerophon" in which and (facts.config.startswith("compact") or "radix" in facts.config):
        backends.append(PF + "bellerophon::bellerophon")
    if "binary" in which and ("power-of-two" in facts.config or "radix" in facts.config):
        backends.append(PF + "binary::binary")
    n = 0
    def is_exponent(e):
        e = strip_casts(e)
        return e[0] == "proj" and e[2] and e[2][-1] == ei and strip_casts(e[1])[0] in ("arg", "proj")
    for name in backends:
        f = facts.fn(name)
        sites = []
        for i, b in enumerate(f.blocks):
            if not f.live(i):
                continue
            for st in b["s"]:
                if st[0] == "=" and st[2][0] == "cast" and st[2][1] == "IntToInt" and st[2][3] == "i32":
                    e = op_expr(f, st[2][2])
                    if is_exponent(e):
                        sites.append((i, st[3], "as i32"))
            t = b["t"]
            if t["k"] == "call" and callee_name(t["f"]).endswith("shared::calculate_power2"):
                if is_exponent(op_expr(f, t["a"][0])):
                    sites.append((i, b["ts"], "calculate_power2 (narrows to i32)"))
        col.check(R, last_seg(name) + ":anchor", bool(sites), "no narrowing of num.exponent found (rule needs re-reading)", f.loc())
        for bb, sp, what in sites:
            n += 1
            lo = hi = False
            from rules.core import enum_paths as _ep
            # (dominating conditions first; if they do not show both bounds - a `match` with range patterns joins
            #  several edges - every path to the site is read instead, and each must carry both)
            cond_sets = [[(e, p) for _d, e, p in path_conditions(f, bb)]]
            per_path = [list(atoms) for _t, atoms in _ep(f, 0, {bb})]
            def bounds(atoms):
                lo = hi = False
                for e, p in atoms:
                    e = strip_casts(e)
                    if e[0] == "bin" and e[1] in ("Lt", "Le", "Gt", "Ge") and isinstance(p, bool) and strip_casts(e[2])[0] == "k" and is_exponent(e[3]):
                        e = ("bin", {"Lt": "Gt", "Gt": "Lt", "Le": "Ge", "Ge": "Le"}[e[1]], e[3], e[2])
                    if e[0] == "bin" and e[1] in ("Lt", "Le", "Gt", "Ge") and isinstance(p, bool) and is_exponent(e[2]) and strip_casts(e[3])[0] == "k":
                        op = e[1] if p else {"Lt": "Ge", "Ge": "Lt", "Gt": "Le", "Le": "Gt"}[e[1]]
                        k = strip_casts(e[3])[1]
                        if op in ("Gt", "Ge") and -(1 << 28) <= k:
                            lo = True
                        if op in ("Lt", "Le") and k <= (1 << 28):
                            hi = True
                return lo, hi
            lo, hi = bounds(cond_sets[0])
            def feasible(atoms):
                # `i64::MIN <= x` cannot be false and `x <= i64::MAX` cannot be false (range patterns spell them out)
                for e, p in atoms:
                    e = strip_casts(e)
                    if e[0] == "bin" and e[1] in ("Le", "Ge") and isinstance(p, bool):
                        l, r = strip_casts(e[2]), strip_casts(e[3])
                        lo_first = e[1] == "Le"
                        small, big = (l, r) if lo_first else (r, l)           # small <= big
                        if small[0] == "k" and small[1] == -(1 << 63) and p is False:
                            return False
                        if big[0] == "k" and big[1] == (1 << 63) - 1 and p is False:
                            return False
                return True
            per_path = [a for a in per_path if feasible(a)]
            if not (lo and hi) and per_path:
                bs = [bounds(a) for a in per_path]
                lo, hi = all(b[0] for b in bs), all(b[1] for b in bs)
            for _d, e, p in []:
                e = strip_casts(e)
                if e[0] == "bin" and e[1] in ("Lt", "Le", "Gt", "Ge") and isinstance(p, bool) and strip_casts(e[2])[0] == "k" and is_exponent(e[3]):
                    # constant on the left (range patterns: `MIN..=-0x1000` lowers to `MIN <= x && x <= -0x1000`)
                    e = ("bin", {"Lt": "Gt", "Gt": "Lt", "Le": "Ge", "Ge": "Le"}[e[1]], e[3], e[2])
                if e[0] == "bin" and e[1] in ("Lt", "Le", "Gt", "Ge") and isinstance(p, bool) and is_exponent(e[2]) and strip_casts(e[3])[0] == "k":
                    op = e[1] if p else {"Lt": "Ge", "Ge": "Lt", "Gt": "Le", "Le": "Gt"}[e[1]]
                    k = strip_casts(e[3])[1]
                    if op in ("Gt", "Ge") and -(1 << 28) <= k:
                        lo = True
                    if op in ("Lt", "Le") and k <= (1 << 28):
                        hi = True
            col.check(R, "%s:%s" % (last_seg(name), what.split()[0]), lo and hi,
                      "num.exponent (an i64 of up to ~10^10) is narrowed by %s without the literal zero / infinity short-circuits bounding it %s: huge exponents wrap (`1p2147483648` -> 0 instead of inf)" % (what, "on either side" if not (lo or hi) else ("from below" if not lo else "from above")), f.loc(sp))
    if backends:
        col.floor(R, "narrowings of num.exponent", n, 1)


def rule_denormal_shift(col, facts, which=("lemire", "binary")):
    """GRD-shift (denormal branch): (a) Eisel-Lemire's `mantissa >>= -power2 + 1` needs that amount < 64 - the
    zero short-circuit just before it must be `>= 64`; (b) binary() works on a normalised 64-bit mantissa and
    rounds with shifts up to 64, so its zero short-circuit must *not* capture a shift of exactly 64 (values
    between half of and the smallest denormal round up to it)."""
    R = "GRD-shift"
    def threshold(f, zero_only=True):
        """K such that the function returns the literal zero exactly when (-power2 + 1) >= K, read off the guard."""
        out = []
        for i, b in enumerate(f.blocks):
            if not f.live(i):
                continue
            for st in b["s"]:
                if st[0] == "=" and st[1] == [0, []]:
                    e = strip_casts(op_expr(f, st[2][1])) if st[2][0] == "use" else strip_casts(rvalue_expr(f, st[2], 0))
                    if not (e[0] == "agg" and len(e[2]) == 2 and strip_casts(e[2][0]) == ("k", 0) and strip_casts(e[2][1]) == ("k", 0)):
                        continue
                    conds = path_conditions(f, i)
                    for _d, c, p in conds[-1:]:
                        c = strip_casts(c)
                        if not (c[0] == "bin" and c[1] in ("Ge", "Gt", "Le", "Lt", "Eq", "Ne") and isinstance(p, bool)):
                            continue
                        # read the guard as a predicate of power2 (its only non-constant leaf), whatever its
                        # spelling (`-power2 + 1 >= 64`, `power2 <= -63`, ...), and find the smallest shift
                        # s = -power2 + 1 for which the literal zero is returned
                        def _ev(x, v):
                            x = strip_casts(simplify_proj(x))
                            if x[0] == "k" and isinstance(x[1], int):
                                return x[1]
                            if x[0] == "un" and x[1] == "Neg":
                                return -_ev(x[2], v)
                            if x[0] == "bin" and x[1] in ("Add", "Sub"):
                                a_, b_ = _ev(x[2], v), _ev(x[3], v)
                                return a_ + b_ if x[1] == "Add" else a_ - b_
                            return v
                        def _holds(s_):
                            a_, b_ = _ev(c[2], 1 - s_), _ev(c[3], 1 - s_)
                            r_ = {"Gt": a_ > b_, "Ge": a_ >= b_, "Eq": a_ == b_, "Lt": a_ < b_, "Le": a_ <= b_, "Ne": a_ != b_}[c[1]]
                            return r_ == p
                        if not _holds(4000) or _holds(1):
                            continue            # not a "large shift -> zero" guard
                        k = min(s_ for s_ in range(1, 200) if _holds(s_))
                        out.append((k, st[3], strip_casts(c[2])))
        return out
    if "lemire" in which and not facts.config.startswith("compact"):
        f = facts.fn(PF + "lemire::compute_float")
        th = threshold(f)
        col.check(R, "compute_float:zero-threshold", len(th) == 1 and th[0][0] == 64,
                  "the subnormal branch shifts a u64 right by `-power2 + 1`; the zero short-circuit before it returns for amounts >= %s, so an amount of 64 %s" % ([t[0] for t in th], "reaches the shift (debug: panic, release: the shift is masked to 0 and a normal number comes out)" if th and th[0][0] > 64 else "is not the boundary"), f.loc())
    if "binary" in which and ("power-of-two" in facts.config or "radix" in facts.config):
        f = facts.fn(PF + "binary::binary")
        th = threshold(f)
        col.check(R, "binary:zero-threshold", len(th) == 1 and th[0][0] == 65,
                  "binary() returns the literal zero for `-power2 + 1` >= %s; with a normalised 64-bit mantissa a shift of exactly 64 is still roundable (shared::round handles it): values in (2^-1075, 2^-1074) must round up to the smallest denormal, not flush to 0" % [t[0] for t in th], f.loc())


# ---------------------------------------------------------------------------------------------
def rule_integer_sign_allowance(col, facts):
    """TBL-size (integer sign): with `format`, the unsigned integer writer stores a mandatory `+` and hands
    `buffer[1..]` to the digit writer, which re-slices the type's full FORMATTED_SIZE(_DECIMAL) window.  The
    bound therefore has to be one byte larger whenever required_mantissa_sign() is set: on every path of
    lexical_write_integer's buffer_size_const on which that getter is true the result is FORMATTED_SIZE + k,
    k >= 1 (the signed sizes already include the sign; one byte too many there is harmless)."""
    from rules.core import enum_paths, resolve_env
    if "format" not in facts.config:
        return
    R = "TBL-size"
    f = facts.fn("lexical_write_integer::options::Options::buffer_size_const")
    w = facts.fn("lexical_write_integer::api::unsigned")
    stores_plus = any(st[0] == "=" and st[1][1] and st[2][0] == "use" and st[2][1][0] == "k" and st[2][1][1].get("v") == 43 for b in w.blocks for st in b["s"])
    col.check(R, "integer:unsigned-writes-plus", stores_plus, "api::unsigned no longer stores b'+' (rule needs re-reading)", w.loc())
    rets = {i for i, b in enumerate(f.blocks) if f.live(i) and b["t"]["k"] == "return"}
    n = 0
    bad = None
    for t, atoms, env in enum_paths(f, 0, rets, want_env=True):
        req = [p for e, p in atoms if strip_casts(e)[0] == "call" and last_seg(strip_casts(e)[1]) == "required_mantissa_sign"]
        if not (req and req[-1] is True):
            if not req:
                bad = "a path never consults required_mantissa_sign()"
            continue
        n += 1
        r = env.get(0)
        e = strip_casts(simplify_proj(resolve_env(r[1], env))) if r and r[0] == "expr" else None
        ok = e is not None and e[0] == "bin" and e[1] == "Add" and strip_casts(e[3])[0] == "k" and strip_casts(e[3])[1] >= 1 and any(last_seg(c[1]).startswith("FORMATTED_SIZE") for c in expr_consts(e[2]) + ([strip_casts(e[2])] if strip_casts(e[2])[0] == "kc" else [])) or \
            (e is not None and e[0] == "bin" and e[1] == "Add" and strip_casts(e[3])[0] == "k" and strip_casts(e[3])[1] >= 1)
        if not ok:
            bad = "with required_mantissa_sign() the bound is `%s`" % (show(e) if e is not None else "?")
    col.check(R, "integer:buffer_size_const:sign", bad is None and n >= 1,
              "%s: an unsigned integer written with a mandatory `+` needs FORMATTED_SIZE + 1 bytes (the digit writer re-slices the full window after the sign), so a buffer of the documented size panics for every value" % (bad or "no path with required_mantissa_sign() true"), f.loc())


# ---------------------------------------------------------------------------------------------
def rule_bigfloat_bits(col, facts):
    """TBL-limits (Bigfloat): byte_comp scales b+h by radix^|sci_exp| up to 2^1075 and multiplies by a
    64-bit significand: EXPONENT_BIAS + 64 bits at least."""
    if "radix" not in facts.config:
        return
    R = "TBL-limits"
    limbs = facts.const_value(PF + "bigint::BIGFLOAT_LIMBS")
    bits = facts.const_value(PF + "bigint::BIGFLOAT_BITS")
    need = D.F64.bias + 64
    col.check(R, "BIGFLOAT_LIMBS", limbs * 64 >= need and limbs * 64 <= bits,
              "BIGFLOAT_LIMBS = %d (%d bits, from BIGFLOAT_BITS = %d) but the theoretical digits of the smallest f64 halfway point need %d bits: byte_comp's checked big-integer operations would unwrap None" % (limbs, limbs * 64, bits, need),
              facts.const_loc(PF + "bigint::BIGFLOAT_BITS"))


def rule_exponent_bound(col, facts):
    """MPT-exponent-bound: the explicit exponent is accumulated only while below a constant K small
    enough that K*radix + digit, and the later additions of the implicit exponent, cannot overflow i64."""
    R = "MPT-exponent-bound"
    f = facts.fn(PF + "parse::parse_number")
    clos = [g for g in facts.all_fns() if g.kind == "Closure" and g.closure_of == f.short]
    n = 0
    for g in clos + [f]:
        for i, b in enumerate(g.blocks):
            if not g.live(i):
                continue
            for st in b["s"]:
                if st[0] == "=" and st[2][0] == "bin" and st[2][1].startswith("Mul"):
                    e = strip_casts(rvalue_expr(g, st[2], 0))
                    if not any(last_seg(x[1]) == "exponent_radix" for x in expr_calls(e)):
                        continue
                    n += 1
                    lhs = strip_casts(e[2])
                    conds = path_conditions(g, i)
                    K = None
                    for _d, c, p in conds:
                        c = strip_casts(c)
                        if c[0] == "bin" and c[1] == "Lt" and p is True and strip_casts(c[3])[0] == "k" and G.norm(strip_casts(c[2])) == G.norm(lhs):
                            K = strip_casts(c[3])[1]
                    col.check(R, "parse_number:explicit_exponent", K is not None and K * 36 + 36 < (1 << 62),
                              "the exponent accumulation `e = e*radix + digit` is not guarded by `e < K` for a small constant K (found %s): later `exponent += explicit_exponent` can overflow (panic with overflow checks, wrong sign without)" % K, g.loc(st[3]))
        # the same accumulation written with a method (`e.saturating_mul(radix)`, `wrapping_mul`, `checked_mul`): a
        # saturated value is as unusable for the later additions as an overflowed one, the bound is still needed
        for bb, c, a, d, t in g.calls():
            if last_seg(callee_name(c)) not in ("saturating_mul", "wrapping_mul", "checked_mul", "overflowing_mul") or len(a) != 2:
                continue
            if not any(last_seg(x[1]) == "exponent_radix" for x in expr_calls(op_expr(g, a[1]))):
                continue
            n += 1
            lhs = strip_casts(op_expr(g, a[0]))
            K = None
            for _d, c2, p in path_conditions(g, bb):
                c2 = strip_casts(c2)
                if c2[0] == "bin" and c2[1] == "Lt" and p is True and strip_casts(c2[3])[0] == "k" and G.norm(strip_casts(c2[2])) == G.norm(lhs):
                    K = strip_casts(c2[3])[1]
            col.check(R, "parse_number:explicit_exponent", K is not None and K * 36 + 36 < (1 << 62),
                      "the exponent accumulation `e = e*radix + digit` is not guarded by `e < K` for a small constant K (found %s): later `exponent += explicit_exponent` can overflow (panic with overflow checks, wrong sign without)" % K, g.loc(g.blocks[bb]["ts"]))
    col.floor(R, "exponent accumulation sites", n, 1)


# ---------------------------------------------------------------------------------------------
def rule_slice_contiguity(col, facts):
    """PAIR-component (slice lengths): the byte length of each digit slice kept for the slow paths is
    chosen by the contiguity of *that* component's iterator."""
    R = "PAIR-component"
    f = facts.fn(PF + "parse::parse_number")
    if "format" not in facts.config:
        return
    seq = []
    for bb, c, a, d, t in f.calls():
        cn = callee_name(c)
        if cn.endswith("Iter::is_contiguous"):
            e = strip_casts(op_expr(f, a[0]))
            ctor = [last_seg(x[1]) for x in expr_calls(e) if x[1].endswith(G.VIEW_CTORS)]
            if ctor:
                # nearest dominating parse_digits call
                best = None
                for b2, c2, a2, _d2, _t2 in f.calls():
                    if callee_name(c2) == PF + "parse::parse_digits" and f.dominates(b2, bb):
                        k2 = [last_seg(x[1]) for x in expr_calls(strip_casts(op_expr(f, a2[0]))) if x[1].endswith(G.VIEW_CTORS)]
                        if k2 and (best is None or f.dominates(best[0], b2)):
                            best = (b2, k2[0])
                if best:
                    seq.append((ctor[0], best[1], bb))
    for ctor, parsed, bb in seq:
        col.check(R, "parse_number:slice-length(%s)" % parsed, ctor == parsed,
                  "the length of the %s digit slice is chosen by %s().is_contiguous(): with separators enabled for one component only, the slice is cut short / runs long" % (parsed.replace("_iter", ""), ctor), f.loc(f.blocks[bb]["ts"]))
    col.floor(R, "digit-slice length selections", len(seq), 2)


# ---------------------------------------------------------------------------------------------
def rule_byte_predicates(col, facts):
    """TBL-ascii: the byte predicates the validators rest on, as tables over all 256 byte values."""
    R = "TBL-ascii"
    want = {
        "lexical_util::ascii::is_valid_ascii": [c for c in range(256) if (0x09 <= c <= 0x0d) or (0x20 <= c < 0x7f)],
        "lexical_util::ascii::is_valid_letter": [c for c in range(256) if (0x41 <= c <= 0x5a) or (0x61 <= c <= 0x7a)],
    }
    for name, exp in want.items():
        f = facts.fn(name)
        try:
            got = [c for c in range(256) if tbl_eval(facts, f, [c]).value]
        except NotATable as e:
            # not a pure chain of comparisons: read it as the decision table of its paths (bit masks, the standard
            # library's ASCII classes)
            from rules.pathmodel import Model, Shape as _Shape, Panic as _Panic
            try:
                m_ = Model(f, "u8")
                got = [c for c in range(256) if m_.value([c])]
            except (_Shape, _Panic) as e2:
                col.bad(R, last_seg(name) + "-shape", "no longer a predicate over the byte that can be tabulated (%s; %s) (fail closed)" % (e, e2), f.loc())
                continue
        extra = sorted(set(got) - set(exp))
        missing = sorted(set(exp) - set(got))
        col.check(R, last_seg(name), not extra and not missing,
                  "accepts bytes %s it must reject / rejects %s it must accept (anything >= 0x80 makes to_string's from_utf8_unchecked unsound)" % ([hex(x) for x in extra[:6]], [hex(x) for x in missing[:6]]), f.loc())
    # the slice versions apply the byte predicate to every element and return false on the first failure
    for name, inner in (("lexical_util::ascii::is_valid_ascii_slice", "is_valid_ascii"), ("lexical_util::ascii::is_valid_letter_slice", "is_valid_letter")):
        f = facts.fn(name)
        calls = [last_seg(callee_name(c)) for _b, c, _a, _d, _t in f.calls()]
        ok = inner in calls
        falses = []
        for i, b in enumerate(f.blocks):
            for st in b["s"]:
                if st[0] == "=" and st[1] == [0, []] and st[2][0] == "use" and st[2][1][0] == "k" and st[2][1][1].get("v") is False:
                    falses.append(i)
        ok = ok and any(any(strip_casts(e)[0] == "call" and last_seg(strip_casts(e)[1]) == inner and p is False for _d, e, p in path_conditions(f, i)) for i in falses)
        col.check(R, last_seg(name), ok, "does not return false as soon as %s fails on an element" % inner, f.loc())


def rule_control_radices(col, facts):
    """KEY-constraints (punctuation vs digits): a control character must not be a digit of the mantissa
    radix nor of the *exponent-digit* radix."""
    R = "KEY-constraints"
    f = facts.fn("lexical_util::format_flags::is_valid_optional_control")
    calls = sorted(last_seg(callee_name(c)) for _b, c, _a, _d, _t in f.calls())
    col.check(R, "is_valid_optional_control:radices", calls == ["exponent_radix", "is_valid_optional_control_radix", "mantissa_radix"],
              "punctuation is checked against the digits of %s (expected mantissa_radix and exponent_radix: the two radices digits are read in)" % [c for c in calls if c != "is_valid_optional_control_radix"], f.loc())


def rule_lossy_independent_shortcuts(col, facts):
    """WHO-lossy (zero/inf): the literal-zero / infinity short-circuits of the moderate paths are taken
    independently of `lossy`."""
    R = "WHO-lossy"
    backends = []
    if facts.config.startswith("compact") or "radix" in facts.config:
        backends.append((PF + "bellerophon::bellerophon", 2))
    if not facts.config.startswith("compact"):
        backends.append((PF + "lemire::compute_float", 3))
    if "power-of-two" in facts.config or "radix" in facts.config:
        backends.append((PF + "binary::binary", 2))
    for name, lossy_arg in backends:
        f = facts.fn(name)
        n = 0
        for i, b in enumerate(f.blocks):
            if not f.live(i):
                continue
            for st in b["s"]:
                if st[0] == "=" and st[1] == [0, []] and st[2][0] == "use":
                    e = strip_casts(op_expr(f, st[2][1]))
                    is_const_fp = (e[0] == "agg" and "ExtendedFloat" in str(e[1]) and strip_casts(e[2][0]) == ("k", 0)) or (e[0] == "var" and f.names.get(e[1]) in ("fp_zero", "fp_inf"))
                    if is_const_fp:
                        n += 1
                        dep = [show(c) for _d, c, p in path_conditions(f, i) if strip_casts(c)[:2] == ("arg", lossy_arg)]
                        # `lossy || cond`: the block is entered through several edges, one of them decided by lossy alone
                        for alt in reach_alternatives(f, i):
                            if alt and strip_casts(alt[-1][1])[:2] == ("arg", lossy_arg):
                                dep.append("%s (last test on one way in)" % show(alt[-1][1]))
                        col.check(R, "%s:shortcut#%d" % (last_seg(name), n), not dep,
                                  "a zero/infinity short-circuit return is only taken when lossy is %s: lossy parsing would change zero / infinity results" % dep, f.loc(st[3]))
        col.floor(R, "zero/inf short-circuits in %s" % last_seg(name), n, 1)


# ---------------------------------------------------------------------------------------------
def eval_int(e, env):
    """Evaluate a comparison's integer sub-expression under an assignment of its atoms
    (field projections and named constants); None if anything else occurs."""
    e = strip_casts(e)
    if e[0] == "k" and isinstance(e[1], int):
        return e[1]
    if e[0] == "kc":
        return env.get(last_seg(e[1]))
    if e[0] == "proj" or e[0] == "arg":
        return env.get("exp") if ("proj" == e[0] and 1 in [p for p in e[2] if isinstance(p, int)]) else None
    if e[0] == "un" and e[1] == "Neg":
        v = eval_int(e[2], env)
        return None if v is None else -v
    if e[0] == "bin" and e[1] in ("Add", "Sub"):
        a, b = eval_int(e[2], env), eval_int(e[3], env)
        if a is None or b is None:
            return None
        return a + b if e[1] == "Add" else a - b
    return None


def denormal_predicate(f):
    """The comparison of `fp.exp` with an expression of MANTISSA_SIZE, as a truth function of exp."""
    for i, b in enumerate(f.blocks):
        t = b["t"]
        if t["k"] == "switch" and f.live(i):
            e = strip_casts(op_expr(f, t["d"]))
            if e[0] == "bin" and e[1] in ("Le", "Lt", "Ge", "Gt") and "MANTISSA_SIZE" in str(e) and "proj" in str(e):
                def truth(exp, e=e):
                    env = {"MANTISSA_SIZE": 52, "exp": exp}
                    a, bb = eval_int(e[2], env), eval_int(e[3], env)
                    if a is None or bb is None:
                        return None
                    return {"Le": a <= bb, "Lt": a < bb, "Ge": a >= bb, "Gt": a > bb}[e[1]]
                return truth, i
    return None, None


def rule_error_accounting(col, facts):
    """SIB-denormal / UNIT-errors(scale): error_is_accurate must call the same exponents 'denormal' as
    shared::round does (else it inspects the wrong bit window for one binade), and must compare the raw
    error count (1/8-ulp units) - never a scaled-down copy."""
    if not (facts.config.startswith("compact") or "radix" in facts.config):
        return
    R = "SIB-denormal"
    ea = facts.fn(PF + "bellerophon::error_is_accurate")
    rd = facts.fn(PF + "shared::round")
    t1, _ = denormal_predicate(ea)
    t2, _ = denormal_predicate(rd)
    if t1 is None or t2 is None:
        col.bad(R, "shape", "could not read the denormal test of error_is_accurate / shared::round", ea.loc())
    else:
        S = 64 - 52 - 1
        pts = [-S - 2, -S - 1, -S, -S + 1, -S + 2]
        v1 = [t1(x) for x in pts]
        v2 = [t2(x) for x in pts]
        if None in v1 or None in v2 or not any(v1) or not any(v2) or all(v1) or all(v2):
            # the comparison found is not a threshold on the exponent around -S (the classification is written in
            # another way: `mantissa_shift.max(1 - exp)`): not read
            col.assumed("not-applied", "SIB-denormal:error_is_accurate~round", "no exponent threshold near -%d found in one of the two functions: the denormal classification is written in a form this rule does not read" % S, ea.loc())
        else:
          col.check(R, "error_is_accurate~round", None not in v1 and v1 == v2,
                  "error_is_accurate treats exponents %s as denormal but shared::round treats %s (around exp = -%d): for the boundary binade the near-halfway test looks at a different bit window than the rounding uses" %
                  ([x for x, v in zip(pts, v1) if v], [x for x, v in zip(pts, v2) if v], S), ea.loc())
    # the error count is used unscaled
    R2 = "UNIT-errors"
    bad = []
    for i, b in enumerate(ea.blocks):
        if not ea.live(i):
            continue
        for st in b["s"]:
            if st[0] == "=" and st[2][0] == "bin" and (st[2][1].startswith("Div") or st[2][1].startswith("Shr")):
                e = strip_casts(rvalue_expr(ea, st[2], 0))
                if any(x[:2] == ("arg", 1) for x in walk(e[2])):
                    bad.append(ea.loc(st[3]))
    col.check(R2, "error_is_accurate:raw-count", not bad, "the error count is divided / shifted down before the near-halfway comparison: errors below one scale unit vanish (the comparison relies on the raw 1/8-ulp count as its margin)", bad[0] if bad else ea.loc())


def walk(e):
    if isinstance(e, tuple):
        yield e
        for x in e:
            if isinstance(x, tuple):
                for y in walk(x):
                    yield y


def rule_grisu_weed(col, facts):
    """PAIR-weed: Grisu's round_weed decrements the last digit only while rem < dist *and*
    delta - rem >= kappa (the candidate stays inside the rounding interval)."""
    if not facts.config.startswith("compact"):
        return
    R = "PAIR-weed"
    f = facts.fn(WF + "compact::round_digit")
    n = 0
    for i, b in enumerate(f.blocks):
        if not f.live(i):
            continue
        for st in b["s"]:
            if st[0] == "=" and st[2][0] == "bin" and st[2][1].startswith("Sub"):
                e = strip_casts(rvalue_expr(f, st[2], 0))
                if strip_casts(e[3]) == ("k", 1) and "idx" in str(e[2]):
                    n += 1
                    conds = path_conditions(f, i)
                    def is_arg(x, k):
                        # the parameter itself, or a running copy of it (`let mut current = rem;`)
                        x = strip_casts(x)
                        if x[:2] == ("arg", k):
                            return True
                        return x[0] == "var" and any(not pr and rv[0] == "use" and rv[1][0] in ("cp", "mv") and rv[1][1] == [k, []] for _b, _j, rv, pr in f.defs().get(x[1], []))
                    def pos(c, p):
                        # the comparison with polarity folded in: (`a >= b`, false) is `a < b`
                        c = strip_casts(c)
                        if c[0] != "bin" or c[1] not in ("Lt", "Ge", "Le", "Gt") or not isinstance(p, bool):
                            return None
                        op = c[1] if p else {"Lt": "Ge", "Ge": "Lt", "Le": "Gt", "Gt": "Le"}[c[1]]
                        return (op, strip_casts(c[2]), strip_casts(c[3]))
                    ps = [pos(c, p) for _d, c, p in conds]
                    ps = [x for x in ps if x]
                    c1 = any(op == "Lt" and is_arg(l, 4) and is_arg(r, 6) for op, l, r in ps)
                    c2 = any(op == "Ge" and l[0] == "bin" and l[1] == "Sub" and is_arg(l[2], 3) and is_arg(l[3], 4) and is_arg(r, 5) for op, l, r in ps)
                    col.check(R, "round_digit:decrement", c1 and c2,
                              "the last digit is decremented without both `rem < dist` and `delta - rem >= kappa`: the candidate can leave the rounding interval (output no longer round-trips for asymmetric intervals, i.e. powers of two)", f.loc(st[3]))
    col.floor(R, "digit decrements in round_digit", n, 1)


def rule_step_helper_agreement(col, facts):
    """PAIR-step: every function that splits a u128 with u128_divrem(value, radix) must count / write
    chunks of exactly u64_step(radix) digits (the divisor is radix^u64_step)."""
    if facts.config.startswith("compact") or ("power-of-two" not in facts.config and "radix" not in facts.config):
        return
    R = "PAIR-step"
    n = 0
    for f in facts.all_fns():
        if f.crate not in ("lexical_write_integer", "lexical_write_float"):
            continue
        names = [callee_name(c) for _b, c, _a, _d, _t in f.calls()]
        if "lexical_util::div128::u128_divrem" not in names:
            continue
        n += 1
        steps = sorted({last_seg(x) for x in names if x.startswith("lexical_util::step::")})
        col.check(R, f.short, steps == ["u64_step"], "uses %s together with u128_divrem (whose divisor is radix^u64_step): digit counts / zero padding of the chunks disagree with the divisor" % (steps or "no step helper"), f.loc())
    col.floor(R, "users of u128_divrem", n, 2)


def rule_complete_special_returns(col, facts):
    """MPT-complete (None): parse_special may give up only because the partial special parser did, or
    because count != length; any other early None makes complete and partial disagree."""
    R = "MPT-complete"
    f = facts.fn(PF + "parse::parse_special")
    n = 0
    for i, b in enumerate(f.blocks):
        if not f.live(i):
            continue
        for st in b["s"]:
            if st[0] == "=" and st[1] == [0, []] and st[2][0] == "agg" and st[2][1][0] == "adt" and st[2][1][3] == "None":
                n += 1
                alts = reach_alternatives(f, i)
                ok = True
                for alt in alts:
                    good = False
                    for _d, e, p in alt:
                        e2 = strip_casts(e)
                        if e2[0] == "discr" and any(x[1].endswith("parse::parse_partial_special") for x in expr_calls(e2)) and pol_is_variant(p, 0):
                            good = True
                        if e2[0] == "bin" and e2[1] == "Eq" and "buffer_length" in str(e2) and p is False:
                            good = True
                    ok = ok and good
                col.check(R, "parse_special:None#%d" % n, ok, "parse_special returns None on a path where neither parse_partial_special returned None nor count != length: %s" %
                          [[(show(e)[:50], p) for _d, e, p in alt][-2:] for alt in alts], f.loc(st[3]))
    col.floor(R, "None returns in parse_special", n, 1)


def rule_suffix_needs_digit(col, facts):
    """PAIR-suffix: an integer base suffix is honoured only after at least one digit
    (`cursor - start_index > 1`: the cursor is already past the suffix byte)."""
    if "format" not in facts.config:
        return
    R = "PAIR-suffix"
    n = 0
    for name in ("algorithm_complete", "algorithm_partial"):
        f = facts.fn("lexical_parse_integer::algorithm::" + name)
        seen = False
        for i, b in enumerate(f.blocks):
            t = b["t"]
            if t["k"] == "switch" and f.live(i) and "fmt_invalid_digit" in f.macros(b["ts"]):
                e = strip_casts(op_expr(f, t["d"]))
                # the digit-count guard, however it is spelt: `cursor - start > 1`, `cursor > start + 1`,
                # `start + 2 <= cursor` ... - a comparison of two linear forms over the cursor and one local, with
                # literals (`cursor - 1 == start`, the no-digit test of the partial parser, is an equality: not it)
                if not (e[0] == "bin" and e[1] in ("Gt", "Ge", "Lt", "Le")):
                    continue
                def lin(x):
                    """(coefficient of cursor, {local: coefficient}, constant) or None"""
                    x = strip_casts(x)
                    if x[0] == "k" and isinstance(x[1], int) and not isinstance(x[1], bool):
                        return (0, {}, x[1])
                    if x[0] == "call" and x[1].endswith("::cursor"):
                        return (1, {}, 0)
                    if x[0] == "var":
                        return (0, {x[1]: 1}, 0)
                    if x[0] == "bin" and x[1] in ("Add", "Sub"):
                        a_, b_ = lin(x[2]), lin(x[3])
                        if a_ is None or b_ is None:
                            return None
                        sg = 1 if x[1] == "Add" else -1
                        d_ = dict(a_[1])
                        for k_, v_ in b_[1].items():
                            d_[k_] = d_.get(k_, 0) + sg * v_
                        return (a_[0] + sg * b_[0], d_, a_[2] + sg * b_[2])
                    return None
                l_, r_ = lin(e[2]), lin(e[3])
                if l_ is None or r_ is None:
                    continue
                cc = l_[0] - r_[0]
                vs = {k_: l_[1].get(k_, 0) - r_[1].get(k_, 0) for k_ in set(l_[1]) | set(r_[1])}
                vs = {k_: v_ for k_, v_ in vs.items() if v_}
                kk = l_[2] - r_[2]
                if abs(cc) != 1 or len(vs) != 1 or list(vs.values())[0] != -cc:
                    continue
                # now: cc * (cursor - start) + kk  OP  0 ; as a predicate of d = cursor - start
                def holds(d):
                    v = cc * d + kk
                    return {"Gt": v > 0, "Ge": v >= 0, "Lt": v < 0, "Le": v <= 0}[e[1]]
                n += 1
                seen = True
                ok = (not holds(0)) and (not holds(1)) and holds(2) and holds(3)
                col.check(R, name, ok, "the base-suffix branch requires `%s`; with the cursor already past the suffix byte, at least one digit needs `cursor - start > 1`" % show(e)[:80], f.loc(b["ts"]))
        col.check(R, name + ":present", seen, "no digit-count guard found on the base-suffix branch", f.loc())


# ---------------------------------------------------------------------------------------------
def n_interval(f, bb, tmax):
    """Range of parameter 1 (the value being written) on entry to bb, from the dominating
    comparisons with constants."""
    lo, hi = 0, tmax
    for _d, e, p in path_conditions(f, bb):
        e = strip_casts(e)
        rhs = strip_casts(e[3]) if e[0] == "bin" else None
        if rhs is not None and rhs[0] == "kc" and isinstance(rhs[2], int):
            rhs = ("k", rhs[2])
        if e[0] == "bin" and e[1] in ("Lt", "Le", "Ge", "Gt") and strip_casts(e[2])[:2] == ("arg", 1) and rhs[0] == "k" and isinstance(rhs[1], int) and isinstance(p, bool):
            c = rhs[1]
            op = e[1]
            if not p:
                op = {"Lt": "Ge", "Le": "Gt", "Ge": "Lt", "Gt": "Le"}[op]
            if op == "Lt":
                hi = min(hi, c - 1)
            elif op == "Le":
                hi = min(hi, c)
            elif op == "Ge":
                lo = max(lo, c)
            elif op == "Gt":
                lo = max(lo, c + 1)
    return lo, hi


def jeaiii_sites(f):
    """(block, M, S, R, product_bits) for every `n * M` digit-extraction site of a jeaiii writer."""
    out = []
    for i, b in enumerate(f.blocks):
        if not f.live(i):
            continue
        for st in b["s"]:
            if st[0] == "=" and st[2][0] == "bin" and st[2][1].startswith("Mul"):
                M = fold(f, st[2][3])
                lhs = strip_casts(op_expr(f, st[2][2]))
                if M is None or M <= (1 << 16) or lhs[:2] != ("arg", 1):
                    continue
                ty = f.locals[st[1][0]]
                pbits = 128 if "u128" in ty else 64
                # shift applied to the product before the 32.32 fixed-point reading
                S = 0
                R_loop = None
                nexts = 0
                for j, b2 in enumerate(f.blocks):
                    if not f.live(j) or not f.dominates(i, j):
                        continue
                    for st2 in b2["s"]:
                        if st2[0] == "=" and st2[2][0] == "bin" and st2[2][1].startswith("Shr"):
                            k = fold(f, st2[2][3])
                            src = strip_casts(op_expr(f, st2[2][2]))
                            if k is not None and k != 32 and k != 0 and (src[0] == "var" or (src[0] == "bin" and src[1] == "Mul")):
                                S = max(S, k)
                    t2 = b2["t"]
                    if t2["k"] == "call":
                        cn = callee_name(t2["f"])
                        if cn.endswith("jeaiii::next2"):
                            nexts += 1
                        if cn.endswith("IntoIterator::into_iter"):
                            e = strip_casts(op_expr(f, t2["a"][0]))
                            if e[0] == "agg" and "Range" in str(e[1]) and strip_casts(e[2][0]) == ("k", 0) and strip_casts(e[2][1])[0] == "k":
                                R_loop = strip_casts(e[2][1])[1]
                R = R_loop if R_loop is not None else nexts
                out.append((i, M, S, R, pbits, st[3]))
    return out


def jeaiii_counterexample(M, S, D, lo, hi, cap=300000):
    """n in [lo, hi] whose digits come out wrong: need n*2^32 <= floor(n*M/2^S)*D < (n+1)*2^32."""
    e = M * D - (1 << (32 + S))
    if e < 0:
        return lo
    def bad(n):
        y = (n * M) >> S
        return not (n << 32 <= y * D < (n + 1) << 32)
    if e == 0:
        return None if not bad(lo) and not bad(hi) else (lo if bad(lo) else hi)
    # lower bound is guaranteed for n >= n0, upper bound for n <= n1
    n0 = -(-((D - 1) << S) // e)
    n1 = ((1 << (32 + S)) - 1) // e
    cands = []
    if n0 > lo:
        top = min(n0, hi + 1)
        cands.append(range(lo, min(top, lo + cap)))
        if top - lo > cap:
            cands.append(range(max(lo, top - cap), top))
            step = max(1, (top - lo) // cap)
            cands.append(range(lo, top, step))
    if n1 < hi:
        bot = max(n1 + 1, lo)
        cands.append(range(max(bot, hi - cap + 1), hi + 1))
        if hi - bot > cap:
            cands.append(range(bot, min(hi + 1, bot + cap)))
            step = max(1, (hi - bot) // cap)
            cands.append(range(bot, hi + 1, step))
    for r in cands:
        for n in r:
            if bad(n):
                return n
    return None


def rule_jeaiii(col, facts):
    """TBL-jeaiii: every `n*M >> S` digit-extraction multiplier of the decimal writer yields exactly the
    decimal digits of n on the value range its branch admits (exact interval argument; counter-example
    search only in the sub-range the closed-form bound does not cover, empty for today's constants)."""
    if facts.config.startswith("compact"):
        return
    R_ = "TBL-jeaiii"
    WI = "lexical_write_integer::jeaiii::"
    tmaxes = {"from_u8": (1 << 8) - 1, "from_u16": (1 << 16) - 1, "from_u32": (1 << 32) - 1, "from_u64_impl": (1 << 64) - 1, "from_u128": (1 << 128) - 1}
    n = 0
    for name, tmax in tmaxes.items():
        f = facts.fn(WI + name)
        for bb, M, S, R, pbits, sp in jeaiii_sites(f):
            lo, hi = n_interval(f, bb, tmax)
            D = 100 ** R
            n += 1
            key = "%s:[%d,%d]*%d>>%d" % (name, lo, hi if hi < 10 ** 12 else -1, M, S)
            key = "%s#%d" % (name, sum(1 for o in col.obs if o.rule == R_ and o.config == col.config and o.key.startswith(name + "#")) + 1)
            if hi * M >= (1 << pbits):
                col.bad(R_, key, "n*%d overflows the %d-bit product for n up to %d" % (M, pbits, hi), f.loc(sp))
                continue
            lead = ((hi * M) >> S) >> 32
            cx = jeaiii_counterexample(M, S, D, lo, hi)
            col.check(R_, key, cx is None and lead < 100,
                      "multiplier %d (>> %d, %d digit pairs after the leading ones) on the range [%d, %d]: for n = %s the extracted digits are not the decimal digits of n (leading part %d)" % (M, S, R, lo, hi, cx, lead), f.loc(sp))
    col.floor(R_, "jeaiii multiplier sites (%s)" % facts.config, n, 18)


def rule_lossy_marker(col, facts):
    """WHO-lossy (marker): the 'could not decide' marker (INVALID_FP bias / compute_error*) is produced
    only when lossy is false, and parse_complete/parse_partial never branch on lossy themselves - so with
    lossy on, a biased exponent can never reach extended_to_float."""
    R = "WHO-lossy"
    n = 0
    backends = [(PF + "binary::binary", 2)] if ("power-of-two" in facts.config or "radix" in facts.config) else []
    if facts.config.startswith("compact") or "radix" in facts.config:
        backends.append((PF + "bellerophon::bellerophon", 2))
    if not facts.config.startswith("compact"):
        backends += [(PF + "lemire::lemire", 2), (PF + "lemire::compute_float", 3)]
    for name, la in backends:
        f = facts.fn(name)
        for i, b in enumerate(f.blocks):
            if not f.live(i):
                continue
            sites = []
            for st in b["s"]:
                if st[0] == "=" and st[2][0] == "bin" and st[2][1].startswith("Add") and any(last_seg(k[1]) == "INVALID_FP" for k in expr_consts(rvalue_expr(f, st[2], 0))):
                    sites.append(st[3])
            t = b["t"]
            if t["k"] == "call" and callee_name(t["f"]).endswith(("lemire::compute_error", "lemire::compute_error_scaled")):
                sites.append(b["ts"])
            for sp in sites:
                n += 1
                ok = any(strip_casts(e)[:2] == ("arg", la) and p is False for _d, e, p in path_conditions(f, i))
                if not ok:
                    # `let is_accurate = shift > 65 || lossy || error_is_accurate(..); if !is_accurate { marker }`:
                    # read the boolean along every path to the site
                    from rules.core import every_path_has
                    try:
                        ok = every_path_has(f, i, lambda e, p: strip_casts(e)[:2] == ("arg", la) and p is False)
                    except AnchorMissing:
                        ok = False
                col.check(R, "%s:marker#%d" % (last_seg(name), n), ok, "the undecided marker is produced on a path where `lossy` was not tested false: lossy parsing would return a float built from a biased exponent", f.loc(sp))
    col.floor(R, "marker producers", n, 1)
    for name in ("parse::parse_complete", "parse::parse_partial"):
        f = facts.fn(PF + name)
        for i, b in enumerate(f.blocks):
            t = b["t"]
            if t["k"] == "switch" and f.live(i):
                e = op_expr(f, t["d"])
                if any(x[1].endswith("options::Options::lossy") for x in expr_calls(e)):
                    col.bad(R, "%s:branches-on-lossy" % last_seg(name), "%s branches on options.lossy(): the slow-path decision must depend on the marker only" % last_seg(name), f.loc(b["ts"]))
        col.ok(R, "%s:no-branch-on-lossy-scan" % last_seg(name))


# =============================================================================================
# rules added after the third seeding round
# =============================================================================================
def rule_trim_needs_fraction_flag(col, facts):
    """SIB-trim (scientific writers): every `*_scientific` writer may drop the `.0` of a one-digit mantissa
    under trim_floats only if the format does not forbid an exponent without a fraction
    (no_exponent_without_fraction() == false): all sibling back-ends test the flag before trim_floats(); one
    that does not writes `1e20`, which the same format's parser rejects (ExponentWithoutFraction)."""
    R = "SIB-trim"
    n = 0
    for f in facts.all_fns():
        if f.crate != "lexical_write_float" or not f.short.endswith("::write_float_scientific"):
            continue
        for bb, c, a, d, t in f.calls():
            if last_seg(callee_name(c)) != "trim_floats":
                continue
            n += 1
            ok = any(strip_casts(e)[0] == "call" and last_seg(strip_casts(e)[1]) == "no_exponent_without_fraction" and p is False for _d, e, p in path_conditions(f, bb))
            col.check(R, f.short.replace(WF, "") + ":trim-under-flag", ok,
                      "trim_floats() is consulted without no_exponent_without_fraction() having been found false: with that flag the writer emits `1e20`, which the parser of the same format rejects", f.loc(f.blocks[bb]["ts"]))
    col.floor(R, "trim_floats tests in scientific writers", n, 1)


def rule_mantissa_plus_paths(col, facts):
    """KEY-flags (mantissa sign, exactly-when): in WriteFloat::write_float a value that does not get `-` gets `+`
    exactly when required_mantissa_sign(): every path on which needs_negative_sign() is false consults the
    flag and nothing else about the value (a negative NaN needs the `+` too - the parser demands a sign)."""
    from rules.core import enum_paths
    if "format" not in facts.config:
        return
    R = "KEY-flags"
    f = facts.fn(WF + "write::WriteFloat::write_float")
    plus = set()
    for i, b in enumerate(f.blocks):
        if not f.live(i):
            continue
        for st in b["s"]:
            if st[0] == "=" and st[1][1] and st[2][0] == "use" and st[2][1][0] == "k" and st[2][1][1].get("v") == 43:
                plus.add(i)
    tg = set()
    for bb, c, a, d, t in f.calls():
        if last_seg(callee_name(c)) == "is_special":
            tg.add(bb)
    col.check(R, "write_float:anchor", bool(tg) and bool(plus), "is_special() call / '+' store not found", f.loc())
    if not tg or not plus:
        return
    n = 0
    bad = None
    for t, atoms, env in enum_paths(f, 0, tg, want_env=True):
        neg = [p for e, p in atoms if strip_casts(e)[0] == "call" and last_seg(strip_casts(e)[1]) == "needs_negative_sign"]
        if not neg or neg[-1] is not False:
            continue
        n += 1
        req = [p for e, p in atoms if strip_casts(e)[0] == "call" and last_seg(strip_casts(e)[1]) == "required_mantissa_sign"]
        wrote = bool(plus & env["__blocks__"])
        extra = [show(e)[:40] for e, p in atoms if strip_casts(e)[0] == "call" and last_seg(strip_casts(e)[1]) in ("is_sign_positive", "is_sign_negative", "is_nan")]
        if not req:
            bad = "a non-negative path does not consult required_mantissa_sign() (other tests: %s)" % extra
        elif wrote != (req[-1] is True):
            bad = "required_mantissa_sign() is %s but '+' is %s (other tests on the path: %s)" % (req[-1], "written" if wrote else "not written", extra)
    col.check(R, "write_float:plus-exactly-when-required", bad is None and n >= 2,
              "%s: a value that is not written with `-` must get `+` exactly when the format requires a mantissa sign (also NaN with the sign bit set)" % bad, f.loc())


def rule_unchecked_window(col, facts):
    """GRD-window (integer parser): the overflow-free fast path accumulates with wrapping arithmetic; it is sound
    only for at most overflow_digits(radix) digits *after the sign*.  The guard must compare the length of the
    iterator's remaining slice (as_slice() of the integer iterator created after parse_sign) with exactly
    overflow_digits(..): a longer window (`+ IS_SIGNED`, the whole input length) lets one more digit wrap
    silently in radix >= 12."""
    R = "GRD-window"
    n = 0
    for name in ("algorithm_complete", "algorithm_partial"):
        f = facts.fn("lexical_parse_integer::algorithm::" + name)
        found = []
        for i, b in enumerate(f.blocks):
            if not f.live(i):
                continue
            t = b["t"]
            if t["k"] != "switch":
                continue
            e = strip_casts(op_expr(f, t["d"]))
            if e[0] == "bin" and e[1] in ("Le", "Lt", "Ge", "Gt") and any(strip_casts(x)[0] == "call" and last_seg(strip_casts(x)[1]) == "overflow_digits" or
                                                                       (strip_casts(x)[0] == "bin" and strip_casts(x)[1] in ("Add", "Sub") and any(strip_casts(y)[0] == "call" and last_seg(strip_casts(y)[1]) == "overflow_digits" for y in (strip_casts(x)[2], strip_casts(x)[3]))) for x in (e[2], e[3])):
                found.append((i, e))
        if not found:
            raise ShapeUnknown("%s: no comparison with overflow_digits(..) found" % name)
        for i, e in found:
            n += 1
            lhs, rhs, op = strip_casts(e[2]), strip_casts(e[3]), e[1]
            if lhs[0] == "call" and last_seg(lhs[1]) == "overflow_digits" or (lhs[0] == "bin" and any(last_seg(c[1]) == "overflow_digits" for c in expr_calls(lhs))):
                lhs, rhs, op = rhs, lhs, {"Le": "Ge", "Lt": "Gt", "Ge": "Le", "Gt": "Lt"}[op]      # digits on the left
            exact_od = rhs[0] == "call" and last_seg(rhs[1]) == "overflow_digits"
            calls = {last_seg(c[1]) for c in expr_calls(lhs)}
            # the digits remaining after the sign: integer_iter().as_slice().len(), or buffer_length() - cursor()
            remaining = "integer_iter" in calls and ((lhs[0] == "call" and last_seg(lhs[1]) == "len" and "as_slice" in calls) or
                                                     (lhs[0] == "bin" and lhs[1] == "Sub" and last_seg(strip_casts(lhs[2])[1] if strip_casts(lhs[2])[0] == "call" else "") == "buffer_length"
                                                      and last_seg(strip_casts(lhs[3])[1] if strip_casts(lhs[3])[0] == "call" else "") == "cursor"))
            # `remaining <= od` enters the fast path; `remaining > od` is the same test read the other way
            ok = exact_od and remaining and op in ("Le", "Gt")
            col.check(R, "%s:window#%d" % (name, n), ok,
                      "`%s`: the wrapping fast path must be entered only when the digits remaining after the sign (integer_iter().as_slice().len()) number at most overflow_digits(radix), with nothing added" % show(e)[:160], f.loc(f.blocks[i]["ts"]))


def rule_take_n_window_size(col, facts):
    """GRD-window (take_n): the checked path parses its first digits unchecked through `take_n(k)`; the digits
    before it (skipped zeros) do not contribute to the value, so k is exactly overflow_digits(radix).  Any
    arithmetic on it can underflow (`overflow_digits - (cursor - start_index)` wraps once more zeros were skipped
    than the type has digits: debug panic, out-of-slice window in release)."""
    R = "GRD-window"
    n = 0
    for name in ("algorithm_complete", "algorithm_partial"):
        f = facts.fn("lexical_parse_integer::algorithm::" + name)
        bad = 0
        where = f.loc()
        for bb, c, a, d, t in f.calls():
            if last_seg(callee_name(c)) != "take_n" or len(a) < 2:
                continue
            n += 1
            e = strip_casts(op_expr(f, a[1]))
            if not (e[0] == "call" and last_seg(e[1]) == "overflow_digits"):
                bad += 1
                where = f.loc(f.blocks[bb]["ts"])
        col.check(R, name + ":take_n-size", bad == 0,
                  "%d take_n call(s) are handed something other than overflow_digits(radix) itself: a computed window size can underflow or exceed the digits that cannot overflow" % bad, where)
    col.floor(R, "take_n calls in the integer algorithms", n, 2)


def rule_sign_in_accumulation(col, facts):
    """UNIT-sign (integer parser): negative numbers are accumulated with subtraction inside the loop (the
    value is already negative when the partial parser returns from inside it).  Both the checked and the
    unchecked (overflow-free) family of loops therefore exist in a subtracting instance that is entered
    under is_negative == true, and the accumulated value is never negated afterwards: a shared add-loop
    followed by `wrapping_neg` loses the sign on every early return of the partial parser."""
    R = "UNIT-sign"
    n = 0
    for name in ("algorithm_complete", "algorithm_partial"):
        f = facts.fn("lexical_parse_integer::algorithm::" + name)
        fam = {"unchecked": {"add": 0, "sub": 0, "sub_neg": 0}, "checked": {"add": 0, "sub": 0, "sub_neg": 0}}
        for bb, c, a, d, t in f.calls():
            cn = last_seg(callee_name(c))
            if cn not in ("wrapping_add", "wrapping_sub", "checked_add", "checked_sub"):
                continue
            macs = f.macros(f.blocks[bb]["ts"])
            if not any(m.startswith("parse_") and "digit" in m for m in macs):
                continue
            family = "checked" if any(m == "parse_digits_checked" for m in macs) else "unchecked"
            kind = "add" if cn.endswith("add") else "sub"
            fam[family][kind] += 1
            n += 1
            if kind == "sub":
                # (`if is_negative`, or an arm of `match (may_overflow, is_negative)`: a field of a tuple built from it)
                negs = [p for _d, e, p in path_conditions(f, bb) if isinstance(p, bool) and any(last_seg(c_[1]) == "parse_sign" for c_ in expr_calls(simplify_proj(strip_casts(e)))) and strip_casts(simplify_proj(strip_casts(e)))[0] == "proj"]
                if negs and negs[-1] is True:
                    fam[family]["sub_neg"] += 1
        for family in ("unchecked", "checked"):
            col.check(R, "%s:%s-subtracting-loop" % (name, family), fam[family]["sub"] >= 1 and fam[family]["sub_neg"] == fam[family]["sub"],
                      "the %s digit loops have %d adding and %d subtracting accumulations (%d of them entered under is_negative): negative values must be built by subtraction inside the loop" % (family, fam[family]["add"], fam[family]["sub"], fam[family]["sub_neg"]), f.loc())
        negs_after = [bb for bb, c, a, d, t in f.calls() if last_seg(callee_name(c)) == "wrapping_neg"]
        col.check(R, name + ":no-late-negation", not negs_after, "the accumulated value is negated after the digit loop (wrapping_neg): the partial parser returns from inside the loop with the wrong sign", f.loc())
    col.floor(R, "digit accumulations", n, 4)


def rule_index_widening(col, facts):
    """UNIT-widen (generic radix integer writer): table indices `2 * r` are computed after widening to usize; a
    product taken in the value's own type wraps for u8 (2 * 200) and reads the wrong digit pair."""
    if facts.config.startswith("compact") or not ("power-of-two" in facts.config or "radix" in facts.config):
        return
    R = "UNIT-widen"
    n = 0
    for name in ("write_digits", "write_step_digits"):
        f = facts.fn("lexical_write_integer::algorithm::" + name, required=False)
        if f is None:
            continue
        for bb, c, a, d, t in f.calls():
            cn = callee_name(c)
            if last_seg(cn) == "mul" and "ops::arith::Mul" in cn:
                es = [strip_casts(op_expr(f, x)) for x in a]
                if any(e[0] == "kc" and last_seg(e[1]) == "TWO" for e in es) and any(e[0] in ("var", "arg") for e in es):
                    # (products with a remainder `value % radix^2` stay in range; the whole remaining value does not)
                    n += 1
                    col.bad(R, "%s:narrow-product#%d" % (name, n), "`%s`: the doubled table index is multiplied in the integer's own type before widening: for u8 values >= 128 the product wraps" % " * ".join(show(e) for e in es), f.loc(f.blocks[bb]["ts"]))
        wide = 0
        for i, b in enumerate(f.blocks):
            for st in b["s"]:
                if st[0] == "=" and st[2][0] == "bin" and st[2][1].startswith("Mul"):
                    e = rvalue_expr(f, st[2], 0)
                    if any(last_seg(c[1]) == "as_cast" for c in expr_calls(e)):
                        wide += 1
        if name == "write_digits" and wide < 1:
            # (the doubled index is computed in another way - `usize(value) << 1`, `x + x`: the narrow-product test
            #  above is what decides; this is only the positive control that the reader still sees the index code)
            col.assumed("not-applied", "UNIT-widen:write_digits:wide-products", "no usize product of as_cast(..) operands found: the table index is computed in another form, positive control not available", f.loc())


def rule_naive_count_stages(col, facts):
    """UNIT-stage (naive digit count): every stage `value /= D; digits += k` runs under `value >= D` with the
    same D (non-strict): with `>` a value equal to D keeps too few digits and the unchecked writer, which trusts
    the count, writes before the caller's slice.  Both spellings are read: primitive `/` and `>=` (the macro
    instantiated per type) and the `Div`/`DivAssign`/`PartialOrd` trait calls of a generic function."""
    if facts.config.startswith("compact") or "radix" not in facts.config:
        return
    R = "UNIT-stage"
    n = 0

    def peel(x):
        x = strip_casts(x)
        while x[0] == "ref" or (x[0] == "proj" and all(p == "*" for p in x[2])):
            x = strip_casts(x[1])
        return x
    for f in facts.all_fns():
        if f.crate != "lexical_write_integer" or "digit_count" not in f.short or f.kind == "Closure":
            continue
        stages = []
        for i, b in enumerate(f.blocks):
            if not f.live(i):
                continue
            for st in b["s"]:
                if st[0] == "=" and st[2][0] == "bin" and st[2][1] == "Div":
                    e = rvalue_expr(f, st[2], 0)
                    stages.append((i, peel(e[2]), peel(e[3]), f.loc(st[3])))
            t = b["t"]
            if t["k"] == "call" and last_seg(callee_name(t["f"])) in ("div_assign", "div") and "ops::arith" in callee_name(t["f"]) and len(t["a"]) == 2:
                stages.append((i, peel(op_expr(f, t["a"][0])), peel(op_expr(f, t["a"][1])), f.loc(b["ts"])))
        for i, val, div, loc in stages:
            if val[0] not in ("var", "arg"):
                continue
            n += 1
            ok = False
            for _d, c, p in path_conditions(f, i):
                c = strip_casts(c)
                if c[0] == "bin" and peel(c[2]) == val and peel(c[3]) == div:
                    if (c[1] == "Ge" and p is True) or (c[1] == "Lt" and p is False):
                        ok = True
                if c[0] == "call" and last_seg(c[1]) in ("ge", "lt") and len(c[2]) == 2 and peel(c[2][0]) == val and peel(c[2][1]) == div:
                    if (last_seg(c[1]) == "ge" and p is True) or (last_seg(c[1]) == "lt" and p is False):
                        ok = True
            col.check(R, "%s:stage#%d" % (f.short.split(" as ")[0].strip("<").replace("lexical_write_integer::digit_count::", ""), n), ok,
                      "`%s / %s` is not guarded by `%s >= %s`: a value equal to the divisor is under-counted" % (show(val), show(div), show(val), show(div)), loc)
    col.floor(R, "division stages of the naive digit count", n, 3)


def rule_slice_length_pairing(col, facts):
    """PAIR-slice (parse_number): the integer / fraction digit slices stored in Number are
    `X.as_slice().get_unchecked(..n)` with n = byte.cursor() - X.cursor() for the *same* saved iterator X (or the
    digit count for contiguous input).  A length measured from another saved position runs past the end of
    the component (and, for the last one, past the input)."""
    R = "PAIR-slice"
    f = facts.fn(PF + "parse::parse_number")
    n = 0
    for bb, c, a, d, t in f.calls():
        if last_seg(callee_name(c)) != "get_unchecked":
            continue
        recv = strip_casts(op_expr(f, a[0]))
        rng = strip_casts(op_expr(f, a[1]))
        base = [x for x in expr_calls(recv) if last_seg(x[1]) == "as_slice"]
        if not base or rng[0] != "agg":
            continue
        n += 1
        src = strip_casts(base[0][2][0])
        while src[0] == "ref":
            src = strip_casts(src[1])
        length = strip_casts(rng[2][0])
        # the length is a multi-definition local: look at each definition
        defs = []
        if length[0] == "var":
            for bb2, j2, rv2, pr2 in f.defs().get(length[1], []):
                if rv2[0] != "call":
                    defs.append(strip_casts(rvalue_expr(f, rv2, 0)))
        else:
            defs.append(length)
        bad = None
        for e in defs:
            if e[0] == "bin" and e[1] == "Sub":
                sub = strip_casts(e[3])
                if sub[0] == "call" and last_seg(sub[1]) == "cursor":
                    who = strip_casts(sub[2][0])
                    while who[0] == "ref":
                        who = strip_casts(who[1])
                    if who != src:
                        bad = "length `%s` is measured from `%s` but the slice starts at `%s`" % (show(e), show(who), show(src))
        col.check(R, "parse_number:digit-slice#%d" % n, bad is None, "%s: the stored digits run past the component" % bad, f.loc(f.blocks[bb]["ts"]))
    col.floor(R, "digit slices taken in parse_number", n, 2)


def rule_dragonbox_left_endpoint(col, facts):
    """CFG-endpoint (Dragonbox): in the `r == deltai` case the left endpoint may be *accepted when it is an
    integer* only if the interval includes it (even significand): the compute_mul_parity call whose
    integer flag is used lies on paths with include_left_endpoint() == true; otherwise odd significands are
    printed with a decimal that reads back as the predecessor."""
    if facts.config.startswith("compact"):
        return
    R = "CFG-endpoint"
    f = facts.fn(WF + "algorithm::compute_nearest_normal")
    n = 0
    for bb, c, a, d, t in f.calls():
        if last_seg(callee_name(c)) != "compute_mul_parity":
            continue
        # is component .1 of the result read?
        dest = d[0]
        uses_int = False
        for b in f.blocks:
            for st in b["s"]:
                if st[0] == "=" and st[2][0] == "use" and st[2][1][0] in ("cp", "mv") and st[2][1][1][0] == dest and st[2][1][1][1] == [1]:
                    uses_int = True
        arg0 = show(op_expr(f, a[0]))
        if not uses_int or "Sub 1" not in arg0:
            continue                       # the y (centre) test is a different rule of the algorithm
        n += 1
        ok = any(strip_casts(e)[0] == "call" and last_seg(strip_casts(e)[1]) == "include_left_endpoint" and p is True for _d, e, p in path_conditions(f, bb))
        if not ok:
            # the call itself may be unconditional (`x_parity || (closed && x_is_integer)`): what matters is that the
            # integer flag is a *reason to accept* only on paths where the interval was found closed on the left
            from rules.core import enum_paths, bool_resolved_atoms
            from rules.pipeline import reach_from
            acc = {b2 for b2, c2, a2, d2, t2 in f.calls() if last_seg(callee_name(c2)) == "process_trailing_zeros" and b2 in reach_from(f, bb)}
            if acc:
                first_acc = {min(acc)}
                ok = True
                seen = 0
                for _t, atoms0, env in enum_paths(f, bb, first_acc, want_env=True):
                    atoms, feasible = bool_resolved_atoms(f, atoms0, env)
                    if not feasible:
                        continue
                    seen += 1
                    def _is_int_flag(e):
                        e = strip_casts(e)
                        if e[0] != "proj" or list(e[2]) != [1]:
                            return False
                        inner = strip_casts(e[1])
                        return (inner[0] == "var" and inner[1] == dest) or (inner[0] == "call" and last_seg(inner[1]) == "compute_mul_parity" and "Sub 1" in show(inner[2][0]))
                    by_int = any(p is True and _is_int_flag(e) for e, p in atoms)
                    closed = any(p is True and strip_casts(e)[0] == "call" and last_seg(strip_casts(e)[1]) == "include_left_endpoint" for e, p in atoms)
                    if by_int and not closed:
                        ok = False
                ok = ok and seen > 0
        col.check(R, "compute_nearest_normal:integer-endpoint-needs-closed-interval", ok,
                  "the integer test of the left endpoint (2f - 1) is used on a path where include_left_endpoint() was not found true: an open interval would accept its own boundary", f.loc(f.blocks[bb]["ts"]))
    col.floor(R, "left-endpoint integer tests", n, 1)


def rule_grisu_margins(col, facts):
    """PAIR-margin (Grisu, compact): after scaling by the cached power the safe interval is shrunk by one unit on
    each side: `upper.mant -= 1` and `lower.mant += 1`.  Both adjustments with the same sign widen one side and
    digits outside the rounding interval can be produced."""
    if not facts.config.startswith("compact"):
        return
    R = "PAIR-margin"
    f = facts.fn(WF + "compact::grisu")
    adj = []
    for i, b in enumerate(f.blocks):
        if not f.live(i):
            continue
        for st in b["s"]:
            if st[0] == "=" and st[2][0] == "bin" and st[2][1].replace("WithOverflow", "") in ("Add", "Sub") and st[2][3][0] == "k" and st[2][3][1].get("v") == 1 and st[2][2][0] in ("cp", "mv") and st[2][2][1][1] == [0]:
                who = f.names.get(st[2][2][1][0], "_%d" % st[2][2][1][0])
                adj.append((who, st[2][1].replace("WithOverflow", ""), st[3]))
    ops = {w: o for w, o, _ in adj}
    col.check(R, "grisu:margins", ops.get("upper") == "Sub" and ops.get("lower") == "Add",
              "the one-unit safety margins are %s (expected upper.mant - 1 and lower.mant + 1)" % sorted(ops.items()), f.loc())


def rule_raw_digit_scans(col, facts):
    """GRD-contiguous (slow path): with digit separators enabled the bytes of a component are not all digits;
    every raw view of the remaining bytes (`as_slice()`) inside the slow path's digit scans must lie on a
    path where the iterator was found contiguous.  A raw scan of the truncated tail counts a separator as a
    non-zero digit and rounds an exact tie up."""
    R = "GRD-contiguous"
    n = 0
    for f in facts.all_fns():
        if f.crate != "lexical_parse_float" or "::slow::" not in f.short and not f.short.endswith("binary::parse_u64_digits"):
            continue
        for bb, c, a, d, t in f.calls():
            if last_seg(callee_name(c)) not in ("as_slice",):
                continue
            n += 1
            ok = any(strip_casts(e)[0] == "call" and last_seg(strip_casts(e)[1]) == "is_contiguous" and p is True for _d, e, p in path_conditions(f, bb)) or \
                any(strip_casts(e)[0] == "kc" and last_seg(strip_casts(e)[1]) == "IS_CONTIGUOUS" and p is True for _d, e, p in path_conditions(f, bb))
            col.check(R, "%s:as_slice#%d" % (f.short.replace(PF, ""), n), ok,
                      "the remaining bytes are scanned raw (as_slice()) without the iterator having been found contiguous: digit separators in the tail are taken for non-zero digits", f.loc(f.blocks[bb]["ts"]))
    col.note("GRD-contiguous: %d raw scans in the slow path (0 is the expected number today)" % n)


def rule_power_index_guards(col, facts):
    """GRD-index (Bellerophon): the power tables are indexed with `exponent % step` and `exponent / step` of the
    *biased* exponent; Rust's `%` and `/` truncate towards zero, so the indices are in range only if that
    exponent itself was found non-negative (not merely its quotient) and the quotient below the table length."""
    if not (facts.config.startswith("compact") or "radix" in facts.config):
        return
    R = "GRD-index"
    f = facts.fn(PF + "bellerophon::bellerophon")
    n = 0
    for bb, c, a, d, t in f.calls():
        cn = last_seg(callee_name(c))
        if cn not in ("get_small_int", "get_small", "get_large"):
            continue
        idx = strip_casts(op_expr(f, a[1]))
        if idx[0] != "bin" or idx[1] not in ("Rem", "Div"):
            col.bad(R, "bellerophon:%s:index-shape" % cn, "index `%s` is not exponent %%/ step" % show(idx), f.loc(f.blocks[bb]["ts"]))
            continue
        x = strip_casts(idx[2])
        n += 1
        nonneg = False
        for _d, e, p in path_conditions(f, bb):
            e = strip_casts(e)
            if e[0] == "bin" and strip_casts(e[2]) == x and strip_casts(e[3]) == ("k", 0) and ((e[1] == "Lt" and p is False) or (e[1] == "Ge" and p is True)):
                nonneg = True
        col.check(R, "bellerophon:%s:dividend-nonnegative" % cn, nonneg,
                  "`%s` indexes a power table but the dividend itself was not found >= 0 on the way (a test on the quotient lets -step < exponent < 0 through and the remainder is negative: index out of bounds)" % show(idx)[:120], f.loc(f.blocks[bb]["ts"]))
    col.floor(R, "power-table index computations", n, 3)


def rule_overflow_check_unconditional(col, facts):
    """MPT-overflow (shared::round): after rounding a normal float the exponent is compared with INFINITE_POWER
    whether or not the mantissa carried: the power-of-two back-ends rely on it for inputs that overflow
    without a carry.  The comparison must be reachable on a path where the carry test was false."""
    from rules.core import enum_paths
    R = "MPT-overflow"
    f = facts.fn(PF + "shared::round")
    inf_blocks = set()
    for i, b in enumerate(f.blocks):
        if f.live(i) and b["t"]["k"] == "switch":
            e = op_expr(f, b["t"]["d"])
            if any(last_seg(k[1]) == "INFINITE_POWER" for k in expr_consts(e)):
                inf_blocks.add(i)
    col.check(R, "round:overflow-test", len(inf_blocks) >= 1, "no comparison with INFINITE_POWER in shared::round", f.loc())
    if not inf_blocks:
        return
    free = 0
    for t, atoms in enum_paths(f, 0, inf_blocks):
        carry = [p for e, p in atoms if any(last_seg(k[1]) == "CARRY_MASK" for k in expr_consts(e)) or any(last_seg(c[1]) == "as_u64" and any(last_seg(k[1]) == "CARRY_MASK" for k in expr_consts(c)) for c in expr_calls(e))]
        if carry and carry[-1] is False:
            free += 1
    col.check(R, "round:overflow-test-without-carry", free >= 1,
              "the INFINITE_POWER comparison is only reachable after a mantissa carry: an input that overflows without carrying (power-of-two radix, `1.8p1024`) keeps an exponent field of all ones with a non-zero mantissa and becomes NaN / garbage instead of infinity", f.loc())


def rule_int_pow_exact(col, facts):
    """CFG-exact (compact): RawFloat::int_pow_fast_path is also what Bigint::pow uses for the small factor
    radix^k; its compact variant computes the power instead of reading a table and must do so in integer
    arithmetic - a float `powd` is exact only up to 2^53 (5^23 .. 5^26 are not)."""
    if not facts.config.startswith("compact"):
        return
    R = "CFG-exact"
    n = 0
    for f in facts.all_fns():
        if f.crate != "lexical_parse_float" or not f.short.endswith("::int_pow_fast_path"):
            continue
        n += 1
        calls = [last_seg(callee_name(c)) for _b, c, _a, _d, _t in f.calls()]
        floaty = [c for c in calls if c in ("powd", "powf", "powi", "pow_fast_path") or c.startswith("pow") and c not in ("pow", "wrapping_pow", "checked_pow", "saturating_pow")]
        col.check(R, f.short.replace(PF, "") + ":integer-power", not floaty and any(c in ("wrapping_pow", "pow", "checked_pow") for c in calls),
                  "int_pow_fast_path computes radix^k with %s: beyond 2^53 a floating-point power is not the exact integer the big-integer slow path multiplies with" % (floaty or calls), f.loc())
    col.floor(R, "int_pow_fast_path implementations (compact)", n, 1)


def rule_pattern_before_input(col, facts):
    """ORD-match (special strings): shared::starts_with / starts_with_uncased advance the *input* iterator
    (whose next() moves the shared cursor) only after the pattern iterator yielded another byte.  Advancing
    both first consumes one input byte past a complete match, so `NaNx` is read as a complete NaN."""
    R = "ORD-match"
    n = 0
    for name in ("starts_with", "starts_with_uncased"):
        f = facts.fn(PF + "shared::" + name)
        xs = [(bb, a) for bb, c, a, d, t in f.calls() if last_seg(callee_name(c)) == "next"]
        x_calls = [bb for bb, a in xs if G.root(op_expr(f, a[0])) == ("arg", 1, f.names.get(1, "_1")) or strip_casts(op_expr(f, a[0]))[-1:] == ("x",) or "x" == f.names.get(G.root(op_expr(f, a[0]))[1] if isinstance(G.root(op_expr(f, a[0])), tuple) and len(G.root(op_expr(f, a[0]))) > 1 else -1)]
        col.check(R, name + ":anchor", len(xs) == 2 and len(x_calls) == 1, "expected one next() on each of the two iterators, found %d (%d on the input)" % (len(xs), len(x_calls)), f.loc())
        for bb in x_calls:
            n += 1
            ok = False
            for _d, e, p in path_conditions(f, bb):
                e = strip_casts(e)
                ycall = [c for c in expr_calls(e) if last_seg(c[1]) == "next"]
                if not ycall:
                    continue
                if e[0] == "call" and last_seg(e[1]) == "is_none" and p is False:
                    ok = True
                if e[0] == "call" and last_seg(e[1]) == "is_some" and p is True:
                    ok = True
                if e[0] == "discr" and (p == ("eq", 1) or (isinstance(p, tuple) and p[0] == "ne" and 1 not in p[1])):
                    ok = True
            col.check(R, name + ":input-after-pattern", ok,
                      "the input iterator is advanced without the pattern having yielded a byte first: a full match consumes one extra input byte (the cursor is shared with the caller)", f.loc(f.blocks[bb]["ts"]))
    col.floor(R, "input next() calls in the special-string matchers", n, 2)


def rule_special_trailing_trim(col, facts):
    """MPT-trim (special strings): after a special string matched, is_special_eq peeks the special iterator once
    more before reading the cursor: with `special_digit_separator` that peek is what skips separators after the
    last letter, so that `nan_` is a complete match (count == length) and the partial count includes them."""
    R = "MPT-trim"
    f = facts.fn(PF + "parse::is_special_eq")
    calls = [(bb, last_seg(callee_name(c))) for bb, c, a, d, t in f.calls()]
    n = 0
    for bb, cn in calls:
        if cn != "cursor":
            continue
        n += 1
        sw = {b3 for b3, c3 in calls if c3.startswith("starts_with")}
        def after_match(blk):
            # every path from the entry to `blk` passes through one of the starts_with calls (the cased and the
            # uncased comparison may sit in two arms, neither of which dominates)
            seen, todo = set(), [0]
            while todo:
                x = todo.pop()
                if x in seen or x in sw:
                    continue
                seen.add(x)
                if x == blk:
                    return False
                todo.extend(f.succ()[x])
            return bool(sw)
        ok = any(c2 == "peek" and f.dominates(b2, bb) and after_match(b2) for b2, c2 in calls)
        col.check(R, "is_special_eq:cursor#%d" % n, ok, "the matched length is read (cursor()) without the trailing peek() of the special iterator after the match: separators after the last letter are not consumed", f.loc(f.blocks[bb]["ts"]))
    col.floor(R, "cursor reads after a special match", n, 1)


def rule_suffix_step(col, facts):
    """MPT-suffix (integer parser, format only): when a byte that is not a digit is met after at least one
    digit and the format has a base suffix, the reported position / consumed count is moved one byte on (a
    step of the iterator, or `cursor() + 1`) *only if that byte is the suffix*, so that the suffix is included.
    The adjustment must therefore be control-dependent on the suffix comparison having succeeded.  Stepping over any non-digit makes `12x4` report
    InvalidDigit(3) and the partial parser return Ok((12, 3)), whose 3-byte prefix `12x` the complete parser
    rejects."""
    if "format" not in facts.config:
        return
    R = "MPT-suffix"
    n = 0
    for name in ("algorithm_complete", "algorithm_partial"):
        f = facts.fn("lexical_parse_integer::algorithm::" + name)
        k = 0
        badsites = []
        sites = [bb for bb, c, a, d, t in f.calls() if last_seg(callee_name(c)) == "step_unchecked"]
        # ... or the position is reported as `cursor() + 1` without moving the iterator
        for i, b in enumerate(f.blocks):
            if not f.live(i):
                continue
            for st in b["s"]:
                if st[0] == "=" and st[2][0] == "bin" and st[2][1].startswith("Add"):
                    l, r = strip_casts(op_expr(f, st[2][2])), strip_casts(op_expr(f, st[2][3]))
                    if l[0] == "call" and last_seg(l[1]) == "cursor" and r == ("k", 1):
                        sites.append(i)
        for bb in sites:
            conds = path_conditions(f, bb)
            if not any(any(last_seg(x[1]) in ("base_suffix",) for x in expr_calls(e)) or any(last_seg(x[1]) == "BASE_SUFFIX" for x in expr_consts(e)) for _d, e, p in conds):
                continue
            k += 1
            n += 1
            ok = False
            for _d, e, p in conds:
                e = strip_casts(e)
                if p is True and e[0] == "var":
                    # a local all of whose definitions compare the byte with the base suffix (`is_suffix`)
                    ds = f.defs().get(e[1], [])
                    if ds and all(any(last_seg(x[1]) == "BASE_SUFFIX" for x in expr_consts(rvalue_expr(f, rv, 1, e[1]))) or any(last_seg(x[1]) == "base_suffix" for x in expr_calls(rvalue_expr(f, rv, 1, e[1]))) for _b, _j, rv, pr in ds if not pr):
                        ok = True
                if p is True and e[0] in ("bin", "call") and (any(last_seg(x[1]) == "BASE_SUFFIX" for x in expr_consts(e)) or any(last_seg(x[1]) == "base_suffix" for x in expr_calls(e))) and \
                        ((e[0] == "bin" and e[1] == "Eq") or (e[0] == "call" and last_seg(e[1]) in ("eq_ignore_ascii_case", "eq"))):
                    ok = True
            if not ok:
                badsites.append(f.loc(f.blocks[bb]["ts"]))
        col.check(R, "%s:step-only-over-suffix" % name, not badsites,
                  "%d of %d expansions step over a byte that is not a digit without having found it equal to the base suffix: `12x4` reports InvalidDigit(3) / the partial parser consumes the `x` (Ok((12, 3)))" % (len(badsites), k), badsites[0] if badsites else f.loc())
    col.floor(R, "suffix steps in the integer parser", n, 2)


def rule_partial_count_is_position(col, facts):
    """UNIT-consumed (integer parser): the count a partial parse returns is a *position* in the input - the
    cursor (minus one when the byte just taken turned out not to be a digit), or the buffer length.  Any other
    quantity subtracted from the cursor (a number of zeros, a digit count) turns it into something else:
    with no_integer_leading_zeros `parse_partial("0")` returned Ok((0, 0)) while the complete parser accepts
    the whole input."""
    R = "UNIT-consumed"
    f = facts.fn("lexical_parse_integer::algorithm::algorithm_partial")
    n = 0
    bad = {}

    def linear(e):
        """(base, offset) for cursor()/buffer_length() +- constants, None otherwise."""
        e = strip_casts(e)
        if e[0] == "call" and last_seg(e[1]) in ("cursor", "buffer_length"):
            return last_seg(e[1]), 0
        if e[0] == "bin" and e[1] in ("Add", "Sub"):
            l = linear(e[2])
            r = strip_casts(e[3])
            if l is not None and r[0] == "k" and isinstance(r[1], int):
                return l[0], l[1] + (r[1] if e[1] == "Add" else -r[1])
        return None
    for i, b in enumerate(f.blocks):
        if not f.live(i):
            continue
        for st in b["s"]:
            if st[0] == "=" and st[1] == [0, []] and st[2][0] == "agg" and st[2][1][0] == "adt" and st[2][1][3] == "Ok":
                e = rvalue_expr(f, st[2], 0)
                tup = strip_casts(e[2][0])
                if tup[0] != "agg" or len(tup[2]) != 2:
                    col.bad(R, "algorithm_partial:Ok-shape", "an Ok value that is not (value, count): %s" % show(tup)[:80], f.loc(st[3]))
                    continue
                n += 1
                lin = linear(tup[2][1])
                if lin is None or lin[1] not in (0, -1) or (lin[0] == "buffer_length" and lin[1] != 0):
                    bad[show(strip_casts(tup[2][1]))[:120]] = f.loc(st[3])
    col.check(R, "algorithm_partial:count-is-cursor", not bad,
              "the partial parser returns a count that is not the cursor position (or cursor - 1 / the buffer length): %s - e.g. `cursor() - zeros` reports Ok((0, 0)) for the input `0` under no_integer_leading_zeros although one byte was consumed and the complete parser accepts it" % sorted(bad)[:2], sorted(bad.values())[0] if bad else f.loc())
    col.floor(R, "Ok exits of the partial integer parser", n, 4)


def rule_empty_number_exit(col, facts):
    """MPT-empty (float entry points): an input that ends right after the optional sign is accepted as zero only
    if nothing the format requires is missing.  The early `Ok` taken when the integer iterator is already
    consumed must therefore be guarded by *every* flag that makes the empty number invalid: required integer
    digits, required mantissa digits and required exponent notation (`""` has no exponent either)."""
    R = "MPT-empty"
    need = ("REQUIRED_INTEGER_DIGITS", "REQUIRED_MANTISSA_DIGITS", "REQUIRED_EXPONENT_NOTATION")
    n = 0
    for name in ("parse_complete", "fast_path_complete", "parse_partial", "fast_path_partial"):
        f = facts.fn(PF + "parse::" + name)
        for i, b in enumerate(f.blocks):
            if not f.live(i):
                continue
            for st in b["s"]:
                if not (st[0] == "=" and st[1] == [0, []] and st[2][0] == "agg" and st[2][1][0] == "adt" and st[2][1][1] == "core::result::Result" and st[2][1][3] == "Ok"):
                    continue
                conds = path_conditions(f, i)
                early = any(strip_casts(e)[0] == "call" and last_seg(strip_casts(e)[1]) == "is_consumed" and p is True for _d, e, p in conds)
                if not early:
                    continue
                n += 1
                seen = {last_seg(strip_casts(e)[1]) for _d, e, p in conds if strip_casts(e)[0] == "kc" and p is False}
                seen |= {last_seg(c[1]).upper() for _d, e, p in conds if p is False for c in expr_calls(e)}
                missing = [x for x in need if x not in seen]
                col.check(R, "%s:empty-ok" % name, not missing,
                          "the empty number is accepted as zero without having found %s false: with required_exponent_notation (and digits not required) `` / `-` are accepted while `.`, `0`, `1` are rejected with MissingExponent" % ", ".join(missing), f.loc(st[3]))
    col.floor(R, "empty-number exits of the float entry points", n, 4)


def rule_incremented_digit_in_range(col, facts):
    """GRD-digit: `digit_to_char_const(d + 1, radix)` is a digit only if d + 1 < radix.  Wherever the writers
    increment a decoded digit (carry propagation), the increment must be control-dependent on a test that the
    digit is not the largest one: `d + 1 < radix`, `d < radix - 1`, or the character compared with the largest
    digit's character.  The generic-radix writer's back-trace lacked it and wrote `3` in radix 3 (`1.203^-12`),
    `[` in radix 36."""
    R = "GRD-digit"
    n = 0
    for f in facts.all_fns():
        if f.crate not in ("lexical_write_float",):
            continue
        for bb, c, a, d, t in f.calls():
            if last_seg(callee_name(c)) not in ("digit_to_char_const", "digit_to_char"):
                continue
            e = strip_casts(op_expr(f, a[0]))
            if not (e[0] == "bin" and e[1] == "Add" and strip_casts(e[3]) == ("k", 1)):
                continue
            n += 1
            dig = strip_casts(e[2])
            ok = False
            for _d, x, p in path_conditions(f, bb):
                x = strip_casts(simplify_proj(x))
                if x[0] != "bin" or x[1] not in ("Lt", "Le", "Gt", "Ge", "Ne") or not isinstance(p, bool):
                    continue
                l, r = strip_casts(x[2]), strip_casts(x[3])
                op = x[1]
                if not p:
                    op = {"Lt": "Ge", "Ge": "Lt", "Gt": "Le", "Le": "Gt", "Ne": "Eq"}[op]
                sl, sr = show(l), show(r)
                mentions_radix = lambda z: "radix" in show(z).lower() or "max" in show(z).lower()
                # d + 1 < radix   |  d < radix - 1  | radix > d + 1
                if op == "Lt" and (l == e or l == dig) and mentions_radix(r):
                    ok = True
                if op == "Gt" and (r == e or r == dig) and mentions_radix(l):
                    ok = True
                # the character itself below the largest digit's character
                if op == "Lt" and any(last_seg(c_[1]) == "digit_to_char_const" for c_ in expr_calls(r)) and show(l) in show(dig):
                    ok = True
                if op == "Ne" and (l == dig or r == dig) and (mentions_radix(l) or mentions_radix(r)):
                    ok = True
            key = f.short.replace(WF, "") if f.kind != "Closure" else f.closure_of.replace(WF, "")
            if not ok:
                # the digit's position may be the result of a search whose predicate holds the test
                # (`digits[..count].iter().rposition(|&c| c < max_char)`): the closure is not read here
                searched = [last_seg(c_[1]) for _d, x, p in path_conditions(f, bb) for c_ in expr_calls(x) if last_seg(c_[1]) in ("rposition", "position", "rfind", "find", "find_map", "rev")]
                if searched and any(g.kind == "Closure" and g.closure_of == f.short and any(st[0] == "=" and st[2][0] == "bin" and st[2][1] in ("Lt", "Le", "Ne", "Gt", "Ge") for b_ in g.blocks for st in b_["s"]) for g in facts.all_fns()):
                    col.assumed("not-applied", "GRD-digit:%s:digit+1" % key, "the incremented digit was located by `%s` with a comparing closure: whether that comparison is `below the largest digit` is not decided" % searched[0], f.loc(f.blocks[bb]["ts"]))
                    continue
            col.check(R, "%s:digit+1" % key, ok,
                      "`%s` is turned into a digit character without having been found below the radix: the largest digit is incremented to a character that is not a digit (radix 3: `3`, radix 36: `[`)" % show(e)[:90], f.loc(f.blocks[bb]["ts"]))
    col.floor(R, "digit increments in the float writers", n, 1 if "radix" not in facts.config else 2)


def rule_zero_exponent_normalised(col, facts):
    """SIB-zero (float writers): zero has no leading non-zero digit, so "the position of the first non-zero
    digit" is not its scientific exponent.  The power-of-two and hex writers set `sci_exp = 0` when the mantissa
    is zero; the generic-radix writer derives the exponent from the count of leading `0` characters and must
    likewise treat "all characters are zeros" apart - otherwise the scientific writer is asked for digits
    starting past the end of the buffer and indexes an empty slice (`0.0` with required_exponent_notation
    panicked, debug and release)."""
    R = "SIB-zero"
    n = 0
    if "radix" in facts.config:
        f = facts.fn(WF + "radix::write_float")
        zc = None
        for bb, c, a, d, t in f.calls():
            if last_seg(callee_name(c)) == "ltrim_char_count" and d and not d[1]:
                zc = d[0]
        col.check(R, "radix::write_float:leading-zero-count", zc is not None, "the count of leading zero characters was not found", f.loc())
        if zc is not None:
            n += 1
            tested = False
            for i, b in enumerate(f.blocks):
                if f.live(i) and b["t"]["k"] == "switch":
                    e = strip_casts(op_expr(f, b["t"]["d"]))
                    if e[0] == "bin" and e[1] in ("Eq", "Ne", "Lt", "Ge"):
                        sides = [strip_casts(e[2]), strip_casts(e[3])]
                        has_zc = any(s_[0] == "call" and last_seg(s_[1]) == "ltrim_char_count" for s_ in sides)
                        has_len = any("PtrMetadata" in show(s_) or any(last_seg(c_[1]) == "len" for c_ in expr_calls(s_)) for s_ in sides)
                        if has_zc and has_len:
                            tested = True
            col.check(R, "radix::write_float:all-zero-digits-handled", tested,
                      "the scientific exponent is computed from the number of leading `0` characters without testing whether *all* characters are zeros: for 0.0 it comes out as -1 and write_float_scientific indexes an empty digit slice (panic with required_exponent_notation)", f.loc())
    for mod in ("binary", "hex"):
        f = facts.fn(WF + mod + "::write_float", required=False)
        if f is None:
            continue
        n += 1
        ok = False
        for i, b in enumerate(f.blocks):
            if f.live(i) and b["t"]["k"] == "switch":
                e = strip_casts(op_expr(f, b["t"]["d"]))
                if e[0] == "call" and last_seg(e[1]) in ("eq", "ne") and "ZERO" in show(e):
                    ok = True
                if e[0] == "bin" and e[1] in ("Eq", "Ne") and "ZERO" in show(e):
                    ok = True
        col.check(R, "%s::write_float:zero-mantissa-handled" % mod, ok, "the scientific exponent is not normalised for a zero mantissa", f.loc())
    return n


def _bsc_delegates(facts, f):
    """Private helpers of the same crate that buffer_size_const hands part of its computation to (anything it calls
    in its own crate that is not one of the option / format getters it reads)."""
    out = []
    for _b, c, _a, _d, _t in f.calls():
        cn = callee_name(c)
        for h in facts.by_short.get(cn, []):
            if h.crate == f.crate and h.short != f.short and len([1 for i in range(len(h.blocks)) if h.live(i)]) >= 3:
                out.append(h.short)
    return sorted(set(out))


def rule_break_magnitude(col, facts):
    """GRD-abs (buffer_size_const): the negative exponent break is only validated to be <= 0, so i32::MIN is a
    valid option.  Its magnitude must not be taken with `i32::abs` (panics in debug builds, wraps to a negative
    number - hence a 64-byte bound - in release): use a magnitude that is total (`unsigned_abs`,
    `saturating_abs`, `wrapping_abs` followed by a widening that keeps the bit pattern, ...)."""
    R = "GRD-abs"
    f = facts.fn(WF + "options::Options::buffer_size_const")
    partial = total = 0
    where = f.loc()
    for bb, c, a, d, t in f.calls():
        cn = callee_name(c)
        if cn in ("core::num::abs",) or cn.endswith("::abs"):
            e = strip_casts(op_expr(f, a[0]))
            if "negative_exponent_break" in show(e) or e[0] == "var":
                partial += 1
                where = f.loc(f.blocks[bb]["ts"])
        if last_seg(cn) in ("unsigned_abs", "saturating_abs", "checked_abs", "wrapping_abs"):
            total += 1
    if partial == 0 and total == 0 and _bsc_delegates(facts, f):
        raise ShapeUnknown("buffer_size_const computes the exponent term in %s: not read" % _bsc_delegates(facts, f)[:2])
    col.check(R, "buffer_size_const:break-magnitude", partial == 0 and total >= 1,
              "the magnitude of the negative exponent break is taken with i32::abs (%d site(s); total alternatives: %d): negative_exponent_break(i32::MIN) is a valid option, panics in debug builds and gives a 64-byte bound in release (1e-70 then needs 72 bytes)" % (partial, total), where)


# =================================================================================================
# Round-4 block: rules added after the fourth seeding round (DESIGN §8)
# =================================================================================================
def _promoted_variant(f, e, adt_suffix):
    """For `eq/ne(ref(X), ref(promoted))`: (variant name of the promoted enum constant, "eq"|"ne")."""
    e = strip_casts(e)
    if e[0] != "call" or last_seg(e[1]) not in ("eq", "ne") or len(e[2]) != 2:
        return None

    def peel(x):
        x = strip_casts(x)
        while isinstance(x, tuple) and x and x[0] in ("ref", "cast"):
            x = strip_casts(x[1])
        if isinstance(x, tuple) and x and x[0] == "proj" and x[2] == ("*",):
            return peel(x[1])
        return x
    pr = [peel(x) for x in e[2] if peel(x)[0] == "kprom"]
    if len(pr) != 1:
        return None
    body = f.promoted[pr[0][1]]
    for b in body["blocks"]:
        for st in b["s"]:
            if st[0] == "=" and st[2][0] == "agg" and st[2][1][0] == "adt" and st[2][1][1].endswith(adt_suffix):
                return (st[2][1][3], last_seg(e[1]))
    return None


def rule_lemire_precision_and_window(col, facts):
    """Eisel-Lemire (compute_float), two boundary facts:
    GRD-precision - the first 64x64 product is trusted unless its low `64 - precision` bits are all ones; the
      published algorithm needs precision >= mantissa bits + 3 (one bit for rounding, one for the leading-zero
      adjustment, one for the half-way test).  A smaller precision enlarges the mask and skips second products
      that are needed (`9e-265` is one ulp low).
    CFG-window - the power table covers exactly [SMALLEST_POWER_OF_TEN, LARGEST_POWER_OF_TEN]; the zero / infinity
      short-circuits must be strict (`<` / `>`): with `>=` the largest decade (`1e308`, f32 `3e38`) is infinity."""
    if facts.config.startswith("compact"):
        return
    f = facts.fn(PF + "lemire::compute_float")
    n = 0
    for bb, c, a, d, t in f.calls():
        if last_seg(callee_name(c)) != "compute_product_approx":
            continue
        n += 1
        e = strip_casts(op_expr(f, a[2]))
        k = None
        if e[0] == "bin" and e[1] == "Add":
            l, r = strip_casts(e[2]), strip_casts(e[3])
            if l[0] == "kc" and last_seg(l[1]) == "MANTISSA_SIZE" and r[0] == "k":
                k = r[1]
            if r[0] == "kc" and last_seg(r[1]) == "MANTISSA_SIZE" and l[0] == "k":
                k = l[1]
        col.check("GRD-precision", "lemire::compute_float:product-precision", k is not None and k >= 3,
                  "compute_product_approx is asked for `%s` bits: fewer than MANTISSA_SIZE + 3 enlarges the all-ones mask, so a needed second multiplication is skipped and the result accepted one ulp low" % show(e)[:60], f.loc(f.blocks[bb]["ts"]))
    col.check("GRD-precision", "lemire::compute_float:product-call", n == 1, "expected one compute_product_approx call, found %d" % n, f.loc())
    # window: collect the comparisons of q with the two limits that lead to a literal return
    seen = {}
    for i, b in enumerate(f.blocks):
        if not f.live(i) or b["t"]["k"] != "switch":
            continue
        e = strip_casts(op_expr(f, b["t"]["d"]))
        if e[0] == "bin" and e[1] in ("Lt", "Le", "Gt", "Ge"):
            for lim in ("SMALLEST_POWER_OF_TEN", "LARGEST_POWER_OF_TEN"):
                # `q OP limit`, or the mirrored `limit OP' q`
                if lim in show(e[3]) and strip_casts(e[2])[0] in ("arg", "var"):
                    seen[lim] = e[1]
                elif lim in show(e[2]) and strip_casts(e[3])[0] in ("arg", "var"):
                    seen[lim] = {"Lt": "Gt", "Gt": "Lt", "Le": "Ge", "Ge": "Le"}[e[1]]
    col.check("CFG-window", "lemire::compute_float:zero-below-smallest", seen.get("SMALLEST_POWER_OF_TEN") == "Lt",
              "q is compared with SMALLEST_POWER_OF_TEN using %s (expected `<`): the smallest decade of the table would be flushed to zero" % seen.get("SMALLEST_POWER_OF_TEN"), f.loc())
    col.check("CFG-window", "lemire::compute_float:inf-above-largest", seen.get("LARGEST_POWER_OF_TEN") == "Gt",
              "q is compared with LARGEST_POWER_OF_TEN using %s (expected `>`): the largest decade the table covers (`1e308`, f32 `3e38`) would be returned as infinity" % seen.get("LARGEST_POWER_OF_TEN"), f.loc())


def rule_bellerophon_underflow_order(col, facts):
    """ORD-underflow (Bellerophon): a denormal shift of more than 65 is zero whatever the error; a shift of
    exactly 65 is zero only if the estimate is accurate - with an error bound that crosses half the smallest
    subnormal the slow path has to decide.  So a zero return guarded by a comparison that admits 65 must be
    dominated by a successful error_is_accurate."""
    if not (facts.config.startswith("compact") or "radix" in facts.config):
        return
    R = "ORD-underflow"
    f = facts.fn(PF + "bellerophon::bellerophon")
    acc = [bb for bb, c, a, d, t in f.calls() if last_seg(callee_name(c)) == "error_is_accurate"]
    col.check(R, "bellerophon:error_is_accurate", len(acc) >= 1, "no call of error_is_accurate", f.loc())
    n = bad = 0
    where = f.loc()
    for i, b in enumerate(f.blocks):
        if not f.live(i) or b["t"]["k"] != "switch":
            continue
        e = strip_casts(op_expr(f, b["t"]["d"]))
        if not (e[0] == "bin" and e[1] in ("Gt", "Ge", "Eq", "Lt", "Le", "Ne") and any(strip_casts(x)[0] == "k" and isinstance(strip_casts(x)[1], int) and not isinstance(strip_casts(x)[1], bool) and 60 <= abs(strip_casts(x)[1]) <= 70 for x in (e[2], e[3]))):
            continue
        # ... a comparison of (a linear form of) one stored field with a constant near 64/65, however it is spelt:
        # `-fp.exp + 1 > 65`, `fp.exp < -64`, `1 - fp.exp >= 66`
        leaves = []
        def _leaves(x):
            x = strip_casts(simplify_proj(x))
            if x[0] == "k":
                return
            if x[0] == "un" and x[1] == "Neg":
                return _leaves(x[2])
            if x[0] == "bin" and x[1] in ("Add", "Sub"):
                _leaves(x[2]); _leaves(x[3]); return
            leaves.append(x)
        _leaves(e[2]); _leaves(e[3])
        if len({show(x) for x in leaves}) != 1 or leaves[0][0] != "proj":
            continue
        # the test as a predicate of the denormal shift s = -exp + 1: evaluate it with exp = 1 - s
        def _ev(x, exp):
            x = strip_casts(simplify_proj(x))
            if x[0] == "k":
                return x[1]
            if x[0] == "un" and x[1] == "Neg":
                return -_ev(x[2], exp)
            if x[0] == "bin" and x[1] in ("Add", "Sub"):
                a_, b_ = _ev(x[2], exp), _ev(x[3], exp)
                return a_ + b_ if x[1] == "Add" else a_ - b_
            return exp                      # the exponent field
        def _holds(s_):
            a_, b_ = _ev(e[2], 1 - s_), _ev(e[3], 1 - s_)
            return {"Gt": a_ > b_, "Ge": a_ >= b_, "Eq": a_ == b_, "Lt": a_ < b_, "Le": a_ <= b_, "Ne": a_ != b_}[e[1]]
        # which edge returns zero?  the one whose successor builds the literal: approximate by "the edge taken for a huge shift"
        zero_when = True if e[1] == "Eq" else (False if e[1] == "Ne" else _holds(1000))
        n += 1
        admits65 = (_holds(65) == zero_when)
        # (the accuracy test itself is skipped when lossy, so it does not dominate what follows it: what must not
        #  happen is that the zero return for 65 comes *before* it, i.e. dominates it)
        if admits65 and any(f.dominates(i, a_) for a_ in acc):
            bad += 1
            where = f.loc(b["ts"])
    col.check(R, "bellerophon:shift-65-after-accuracy", n >= 1 and bad == 0,
              "%d of %d underflow tests return zero for a denormal shift of exactly 65 before the error bound was consulted (or the second test is gone): inputs just above half the smallest subnormal whose estimate falls just below it become 0 instead of going to the slow path" % (bad, n), where)


def rule_quorem_correction(col, facts):
    """CFG-quorem (big-integer one-digit division): the estimated quotient digit is corrected when the remainder
    is *not less* than the divisor - equal included.  Correcting only when greater leaves remainder == divisor:
    the digit is one too small and followed by (radix-1) digits for ever, which breaks exact ties in the
    odd-radix slow path."""
    if "radix" not in facts.config and not facts.config.startswith("compact"):
        pass
    R = "CFG-quorem"
    f = facts.fn(PF + "bigint::large_quorem", required=False)
    if f is None:
        return
    n = 0
    ok = False
    for i, b in enumerate(f.blocks):
        if not f.live(i):
            continue
        # the block that bumps the quotient digit: `q = q + 1`
        bump = False
        for st in b["s"]:
            if st[0] == "=" and st[2][0] == "bin" and st[2][1].startswith("Add"):
                l, r = strip_casts(op_expr(f, st[2][2])), strip_casts(op_expr(f, st[2][3]))
                if r == ("k", 1) and l[0] == "var" and len(l) > 2 and l[2] == "q":
                    bump = True
        if not bump:
            continue
        for _d, e, p in path_conditions(f, i):
            pv = _promoted_variant(f, e, "cmp::Ordering")
            if pv is None or not isinstance(p, bool) or "compare" not in show(e):
                continue
            n += 1
            taken = {v for v in ("Less", "Equal", "Greater") if ((v == pv[0]) == (pv[1] == "eq")) == p}
            ok = taken == {"Equal", "Greater"}
    col.check(R, "large_quorem:correct-unless-less", n == 1 and ok,
              "the quotient correction is not taken exactly when compare(x, y) != Less: a remainder equal to the divisor is left uncorrected (radix 3 `1121202011211211122211100012101120` = 2^53 + 1 rounds up instead of to even)", f.loc())


def rule_nearest_shorter_left_endpoint(col, facts):
    """MPT-endpoint (Dragonbox, exact powers of two): below a power of two the rounding interval is only a quarter
    ulp wide, so the nearest shorter candidate can fall below the left endpoint `xi`; the algorithm then steps
    the significand up by one.  That correction - an increment of the significand control-dependent on
    `significand < xi` - must be present: without it 2^89 prints as a decimal that parses to its predecessor."""
    if facts.config.startswith("compact"):
        return
    R = "MPT-endpoint"
    f = facts.fn(WF + "algorithm::compute_nearest_shorter")
    ok = False
    for i, b in enumerate(f.blocks):
        if not f.live(i):
            continue
        for st in b["s"]:
            if st[0] == "=" and st[2][0] == "bin" and st[2][1].startswith("Add") and strip_casts(op_expr(f, st[2][3])) == ("k", 1):
                for _d, e, p in path_conditions(f, i):
                    e = strip_casts(e)
                    def _is_left_endpoint(x, depth=0):
                        # the left endpoint `xi`: a value computed from compute_left_endpoint (by name as a
                        # fallback), directly or through the assignments of a local
                        x = strip_casts(x)
                        if any(last_seg(c_[1]) == "compute_left_endpoint" for c_ in expr_calls(x)) or "xi" in show(x):
                            return True
                        if x[0] == "var" and depth < 3:
                            return any(not pr and _is_left_endpoint(rvalue_expr(f, rv, 1, x[1]), depth + 1) for _b, _j, rv, pr in f.defs().get(x[1], []))
                        return False
                    if e[0] == "bin" and ((e[1] == "Lt" and p is True) or (e[1] == "Ge" and p is False)) and _is_left_endpoint(e[3]) and strip_casts(e[2]) == strip_casts(op_expr(f, st[2][2])):
                        ok = True
    col.check(R, "compute_nearest_shorter:step-up-below-left-endpoint", ok,
              "no increment of the significand under `significand < xi`: a candidate below the left endpoint of the (narrow) interval of a power of two is kept, the output parses to the predecessor float (2^89 -> 6.189700196426901e26)", f.loc())


def rule_grisu_mul_rounds(col, facts):
    """UNIT-round (Grisu): Grisu2's one-unit safety margin assumes every 64x64->64 product is within half a unit:
    compact::mul must round the discarded low half to nearest, i.e. add 2^31 to the middle sum before it is
    shifted out.  Truncating makes the scaled lower boundary up to a unit too low and a digit string outside the
    interval is accepted (about 1 f64 in 230 000 no longer round-trips)."""
    if not facts.config.startswith("compact"):
        return
    R = "UNIT-round"
    f = facts.fn(WF + "compact::mul")
    ok = False
    for i, b in enumerate(f.blocks):
        if not f.live(i):
            continue
        for st in b["s"]:
            if st[0] == "=" and st[2][0] == "bin" and st[2][1].startswith("Add"):
                for side in (st[2][2], st[2][3]):
                    try:
                        v = fold(f, side)
                    except Exception:
                        v = None
                    if v in (1 << 31, 1 << 63):        # schoolbook 32-bit limbs, or the u128 product: `(p + 2^63) >> 64`
                        ok = True
    col.check(R, "compact::mul:round-half-up", ok,
              "the middle partial sum is shifted out without adding 2^31 first: the product is truncated, not rounded, which Grisu's boundary margin does not allow for", f.loc())


def rule_radix_delta_positive(col, facts):
    """MPT-delta (generic-radix writer): the digit loop stops when `delta >= fraction`; delta is half the spacing
    to the next float, which underflows to zero for subnormals and the lowest binade.  It must therefore be
    clamped to the smallest positive float (a definition through `max_finite`/`max` of `next_positive(ZERO)`)
    before the loop - otherwise the loop runs off the end of the 2200-byte scratch buffer."""
    if "radix" not in facts.config:
        return
    R = "MPT-delta"
    f = facts.fn(WF + "radix::write_float")
    ok = False
    for bb, c, a, d, t in f.calls():
        if last_seg(callee_name(c)) in ("max_finite", "max", "maximum"):
            es = [op_expr(f, x) for x in a]
            if any(any(last_seg(c_[1]) == "next_positive" for c_ in expr_calls(e)) for e in es):
                ok = True
    col.check(R, "radix::write_float:delta-clamped", ok,
              "delta (half the distance to the next float) is not clamped to the smallest positive float: for subnormals it is 0, `delta >= fraction` never holds and the digit loop overruns the scratch buffer (panic with a 256-byte caller buffer)", f.loc())


def rule_integer_buffer_nondecimal(col, facts):
    """TBL-size (integer, non-decimal): wherever a non-decimal radix can be compiled in (features power-of-two or
    radix), buffer_size_const must return the non-decimal FORMATTED_SIZE for radix != 10.  Selecting on the
    wrong cargo feature makes radix 2 / 4 / 8 under `power-of-two` use the decimal size (u64: 20 bytes, octal
    u64::MAX needs 22)."""
    if not ("power-of-two" in facts.config or "radix" in facts.config):
        return
    from rules.core import enum_paths, resolve_env
    R = "TBL-size"
    f = facts.fn("lexical_write_integer::options::Options::buffer_size_const")
    rets = {i for i, b in enumerate(f.blocks) if f.live(i) and b["t"]["k"] == "return"}
    n = bad = 0
    for t, atoms, env in enum_paths(f, 0, rets, want_env=True, resolve_atoms=True):
        nondec = False
        for a, p in atoms:
            a = strip_casts(a)
            if a[0] == "bin" and a[1] in ("Eq", "Ne") and strip_casts(a[3]) == ("k", 10) and any(last_seg(c[1]) == "radix" for c in expr_calls(a)):
                nondec = nondec or ((a[1] == "Eq") != p)
        if not nondec:
            continue
        n += 1
        r = env.get(0)
        e = resolve_env(r[1], env) if r and r[0] == "expr" else None
        names = {last_seg(k[1]) for k in expr_consts(e)} if e is not None else set()
        if "FORMATTED_SIZE" not in names:
            bad += 1
    col.check(R, "integer:buffer_size_const:non-decimal-size", n >= 1 and bad == 0,
              "%d path(s) for radix != 10 found, %d of them not returning FORMATTED_SIZE: in this feature set a non-decimal radix is sized with FORMATTED_SIZE_DECIMAL (u64 radix 2: 20 bytes for 64 digits)" % (n, bad), f.loc())


def rule_required_sign_enforced(col, facts):
    """MPT-required-sign: with required_mantissa_sign / required_exponent_sign a number without a sign is an
    error wherever the sign could stand - also when the input *ends* there.  In the three sign parsers every path
    that returns Ok(false) (no sign consumed) must have found the `required` getter false; paths on which one
    getter is seen both true and false are infeasible and ignored."""
    if "format" not in facts.config:
        return
    from rules.core import enum_paths, resolve_env, simplify_proj
    R = "MPT-required-sign"
    n = 0
    for nm, getter in ((PF + "parse::parse_exponent_sign", "required_exponent_sign"), (PF + "parse::parse_mantissa_sign", "required_mantissa_sign"),
                       ("lexical_parse_integer::algorithm::parse_sign", "required_mantissa_sign")):
        f = facts.fn(nm)
        rets = {i for i, b in enumerate(f.blocks) if f.live(i) and b["t"]["k"] == "return"}
        bad = 0
        seen = 0
        for t, atoms, env in enum_paths(f, 0, rets, want_env=True, resolve_atoms=True):
            pol = {}
            feasible = True
            for a, p in atoms:
                a = strip_casts(a)
                if a[0] == "call" and isinstance(p, bool):
                    g = last_seg(a[1])
                    if g in pol and pol[g] != p:
                        feasible = False
                    pol[g] = p
            if not feasible:
                continue
            r = env.get(0)
            if r is None or r[0] != "expr":
                continue
            e = strip_casts(simplify_proj(resolve_env(r[1], env)))
            if not (e[0] == "agg" and e[1][0] == "adt" and e[1][3] == "Ok" and strip_casts(e[2][0]) in (("k", False), ("k", 0))):
                continue
            # Ok(false): was a '+' consumed on this path?  (then `false` means "positive", not "no sign")
            # (read off the path itself: a byte was consumed - however the `+` was recognised)
            steps = {bb for bb, c, a_, d, t_ in f.calls() if last_seg(callee_name(c)) in ("step_unchecked", "step_by_unchecked", "next", "read_if", "read_if_value", "read_if_value_cased", "read_if_value_uncased", "set_cursor")}
            plus = any(p == ("eq", 43) for a, p in atoms) or bool(steps & env["__blocks__"])
            if plus:
                continue
            seen += 1
            if pol.get(getter) is not False:
                bad += 1
        n += seen
        col.check(R, "%s:no-sign-only-if-not-required" % last_seg(nm), seen >= 1 and bad == 0,
                  "%d of %d paths return Ok(false) without a sign having been read and without `%s()` having been found false: where the input ends at the place of a required sign it is accepted (`` as 0, `1e` with required_exponent_sign)" % (bad, seen, getter), f.loc())
    col.floor(R, "no-sign paths of the sign parsers", n, 6)


def rule_empty_component_counts_digits(col, facts):
    """UNIT-count (float parser, required digits): "the component has no digit" is a statement about digits.  The
    quantity compared with zero before EmptyInteger / EmptyFraction / EmptyExponent is returned must be a
    difference of current_count() (digits) and never of cursor() (bytes: separators and the exponent sign are
    bytes, not digits) - and for the exponent the count before must be read *after* the exponent sign was
    consumed, since for contiguous input the count is the cursor and the sign would pass for a digit."""
    from rules.syntax import error_sites
    R = "UNIT-count"
    f = facts.fn(PF + "parse::parse_number")
    sign_calls = [bb for bb, c, a, d, t in f.calls() if last_seg(callee_name(c)) == "parse_exponent_sign"]
    col.check(R, "parse_number:parse_exponent_sign", len(sign_calls) == 1, "expected one call of parse_exponent_sign, found %d" % len(sign_calls), f.loc())
    call_block = {d[0]: bb for bb, c, a, d, t in f.calls() if d and not d[1]}
    n = 0
    for bb, v, sp in error_sites(f):
        if v not in ("EmptyInteger", "EmptyFraction", "EmptyExponent"):
            continue
        for _d, e, p in path_conditions(f, bb):
            e = strip_casts(e)
            if not (e[0] == "bin" and e[1] == "Eq" and strip_casts(e[3]) == ("k", 0) and p is True):
                continue
            n += 1
            x = strip_casts(e[2])
            exprs = [x]
            if x[0] == "var":
                exprs = [rvalue_expr(f, rv, 1, x[1]) for _b, _j, rv, pr in f.defs().get(x[1], []) if not pr]
            names = set()
            for y in exprs:
                names |= {last_seg(c[1]) for c in expr_calls(y)}
            ok = "current_count" in names and "cursor" not in names
            col.check(R, "parse_number:%s:digits-not-bytes" % v, ok,
                      "Error::%s is decided on `%s`, which is %s: digit separators / the sign byte are counted as digits (`1._` accepted under required_fraction_digits)" % (v, show(x)[:60], "a byte (cursor) difference" if "cursor" in names else "not a difference of current_count()"), f.loc(sp))
            if v == "EmptyExponent" and sign_calls:
                # the subtrahend = the count taken before the digits: its call must come after the sign was parsed
                ok2 = False
                if x[0] == "bin" and x[1] == "Sub":
                    sub = strip_casts(x[3])
                    if sub[0] == "call" and len(sub) > 3 and sub[3] in call_block:
                        ok2 = f.dominates(sign_calls[0], call_block[sub[3]])
                col.check(R, "parse_number:EmptyExponent:count-after-sign", ok2,
                          "the digit count the exponent digits are measured from is read before parse_exponent_sign: for contiguous input the count is the cursor, so the sign byte counts as an exponent digit and `1e+` is accepted", f.loc(sp))
    col.floor(R, "empty-component tests in parse_number", n, 3 if "format" in facts.config else 1)


def rule_options_punctuation_pairs(col, facts):
    """KEY-constraints (options punctuation): is_valid_options_punctuation answers true only if the decimal point
    and the exponent character differ from each other and - wherever the `format` feature can set them - from the
    digit separator (feature `format` alone is enough for a separator) and from the base prefix / suffix.
    Every accepting path is enumerated; with `format` it must carry all the separator comparisons as false, and
    with `format` + a non-decimal-radix feature also the prefix / suffix ones."""
    from rules.core import enum_paths, resolve_env, simplify_proj
    R = "KEY-constraints"
    f = facts.fn("lexical_util::format_flags::is_valid_options_punctuation")
    rets = {i for i, b in enumerate(f.blocks) if f.live(i) and b["t"]["k"] == "return"}
    need = [frozenset(("arg:decimal_point", "arg:exponent"))]
    if "format" in facts.config:
        need += [frozenset(("digit_separator", "arg:decimal_point")), frozenset(("digit_separator", "arg:exponent"))]
        if "power-of-two" in facts.config or "radix" in facts.config:
            need += [frozenset((g, a)) for g in ("base_prefix", "base_suffix") for a in ("arg:decimal_point", "arg:exponent")]

    def side(x):
        x = strip_casts(x)
        if x[0] == "arg":
            return "arg:" + str(x[2] if len(x) > 2 else x[1])
        if x[0] == "call" and last_seg(x[1]) in ("digit_separator", "base_prefix", "base_suffix"):
            return last_seg(x[1])
        return None
    n = 0
    missing_any = None
    for t, atoms, env in enum_paths(f, 0, rets, want_env=True, resolve_atoms=True):
        r = env.get(0)
        val = None
        pairs = set()
        if r is not None and r[0] == "const":
            val = bool(r[1])
        elif r is not None:
            e = strip_casts(simplify_proj(resolve_env(r[1], env)))
            if e[0] == "k":
                val = bool(e[1])
            elif e[0] == "bin" and e[1] == "Ne":
                a_, b_ = side(e[2]), side(e[3])
                if a_ and b_:
                    pairs.add(frozenset((a_, b_)))
                    val = True       # the accepting outcome of a returned comparison
        if val is not True:
            continue
        for a, p in atoms:
            a = strip_casts(simplify_proj(a))
            if a[0] == "bin" and a[1] in ("Eq", "Ne") and isinstance(p, bool) and ((a[1] == "Eq") != p):
                a_, b_ = side(a[2]), side(a[3])
                if a_ and b_:
                    pairs.add(frozenset((a_, b_)))
        n += 1
        miss = [sorted(x) for x in need if x not in pairs]
        if miss and missing_any is None:
            missing_any = miss
    col.check(R, "is_valid_options_punctuation:pairwise", n >= 1 and missing_any is None,
              "an accepting path never compares %s: options whose decimal point / exponent character equals that format character are reported valid (separator '.' with the default decimal point: `1.5` parses as 15)" % (missing_any,), f.loc())


def rule_lossy_only_removes_work(col, facts):
    """WHO-lossy (polarity): `lossy` means "never fall back to a slower, exact step".  In the moderate-path
    algorithms it is therefore only ever tested to *skip* work: every computation or call that is
    control-dependent on the flag sits on the `lossy == false` side, and nothing is computed only when it is true
    (an adjustment such as `mantissa += 1` under `lossy` changes values: radix 16 `f.fffffffffffffff8` gave 8
    instead of 16).  The estimate itself is never gated either way: Bellerophon's `normalize` - on which the
    scaling and the error units rest - must not depend on the flag."""
    R = "WHO-lossy"
    n = 0
    for nm in ("binary::binary", "bellerophon::bellerophon", "lemire::lemire", "lemire::compute_float", "parse::moderate_path"):
        f = facts.fn(PF + nm, required=False)
        if f is None:
            continue
        # the flag is the one `bool` parameter of these functions, whatever it is called
        la = [l for l in range(1, f.argc + 1) if l < len(f.mir.get("locals", [])) and f.mir["locals"][l] == "bool"]
        if len(la) != 1:
            la = [l for l, name in f.names.items() if name == "lossy" and l <= f.argc]
        if len(la) != 1:
            col.bad(R, "%s:lossy-parameter" % nm, "no unique bool (`lossy`) parameter found", f.loc())
            continue
        n += 1
        bad_true = []
        bad_norm = []
        for i, b in enumerate(f.blocks):
            if not f.live(i):
                continue
            pol = [p for _d, e, p in path_conditions(f, i) if strip_casts(e)[0] == "arg" and strip_casts(e)[1] == la[0] and isinstance(p, bool)]
            if not pol:
                continue
            work = [st for st in b["s"] if st[0] == "=" and st[2][0] in ("bin", "un") and not st[1][1]]
            is_call = b["t"]["k"] == "call"
            if True in pol and (work or is_call):
                bad_true.append(f.loc(b["ts"]))
            if is_call and last_seg(callee_name(b["t"]["f"])) == "normalize":
                bad_norm.append(f.loc(b["ts"]))
        col.check(R, "%s:nothing-computed-only-when-lossy" % nm, not bad_true,
                  "%d block(s) compute something only when `lossy` is true: the flag may skip exact steps, not adjust the estimate" % len(bad_true), bad_true[0] if bad_true else f.loc())
        if nm.startswith("bellerophon"):
            col.check(R, "%s:normalize-not-gated" % nm, not bad_norm,
                      "%d normalize call(s) depend on `lossy`: the multiplication that follows loses up to 31 bits of the mantissa in lossy mode (`123456789012e-41` 19884 ulp off)" % len(bad_norm), bad_norm[0] if bad_norm else f.loc())
    col.floor(R, "moderate-path algorithms with a lossy flag", n, 1)   # compact (decimal only) has just Bellerophon


def rule_sign_needs_digit(col, facts):
    """MPT-sign-digit (partial integer parser): stopping at a byte that is not a digit is a success only if a digit
    was consumed - or nothing at all.  After a consumed sign (or base prefix) with no digit the input is as empty
    as when it ends there: `parse_partial("+x")` must not return Ok((0, 1)), since `parse("+")` is Empty.  Every
    `Ok((value, index - 1))` exit must therefore come after a test that compares the position with the start of
    the digits (the local initialised from `cursor()` after the sign was parsed)."""
    R = "MPT-sign-digit"
    f = facts.fn("lexical_parse_integer::algorithm::algorithm_partial")
    # the start of the digits: a local whose first definition is `iter.cursor()` and that is compared / re-assigned later
    starts = set()
    for l, ds in f.defs().items():
        if ds and ds[0][2][0] == "call" and last_seg(callee_name(ds[0][2][1])) == "cursor" and not ds[0][3] and f.names.get(l):
            starts.add(l)

    def mentions(x):
        if isinstance(x, tuple):
            if x and x[0] == "var" and len(x) > 1 and x[1] in starts:
                return True
            if x and x[0] == "call" and len(x) > 3 and x[3] in starts:       # a single-definition local is inlined
                return True
            return any(mentions(y) for y in x)
        return False
    tests = []
    for i, b in enumerate(f.blocks):
        if f.live(i) and b["t"]["k"] == "switch":
            e = strip_casts(op_expr(f, b["t"]["d"]))
            if e[0] == "bin" and e[1] in ("Eq", "Ne") and mentions(e):
                tests.append(i)
    n = bad = 0
    where = f.loc()
    for i, b in enumerate(f.blocks):
        if not f.live(i):
            continue
        for st in b["s"]:
            if st[0] == "=" and st[1] == [0, []] and st[2][0] == "agg" and st[2][1][0] == "adt" and st[2][1][3] == "Ok":
                tup = strip_casts(rvalue_expr(f, st[2], 0)[2][0])
                if tup[0] == "agg" and len(tup[2]) == 2:
                    idx = strip_casts(tup[2][1])
                    if idx[0] == "bin" and idx[1] == "Sub" and strip_casts(idx[3]) == ("k", 1):
                        n += 1
                        # (the test is one conjunct of `required && start != 0 && index - 1 == start`, so it need not
                        #  dominate the exit: it is enough that one way into the exit carries it)
                        def covered(bb, depth=0):
                            if any(f.dominates(t_, bb) for t_ in tests):
                                return True
                            if any(mentions(strip_casts(e_)) for alt in reach_alternatives(f, bb) for _d, e_, _p in alt):
                                return True
                            if depth >= 4:
                                return False
                            # climb to the immediate dominator (the `format` build puts its own count test in between)
                            doms = [d_ for d_ in range(len(f.blocks)) if d_ != bb and f.live(d_) and f.dominates(d_, bb)]
                            idom = [d_ for d_ in doms if all(f.dominates(x_, d_) for x_ in doms)]
                            return bool(idom) and not any(f.dominates(idom[0], t_) for t_ in tests) and covered(idom[0], depth + 1)
                        if not covered(i):
                            bad += 1
                            where = f.loc(st[3])
    col.check(R, "algorithm_partial:ok-at-non-digit-after-start-test", n >= 1 and bad == 0,
              "%d of %d exits `Ok((value, index - 1))` are taken without comparing the position with the start of the digits: after a sign with no digit (`+x`) the partial parser reports one byte consumed although `+` alone is Empty" % (bad, n), where)


def rule_bound_sums_saturate(col, facts):
    """GRD-sum (buffer_size_const): `min_significant_digits` and the exponent breaks are bounded only by their types
    (`usize::MAX`, `i32::MIN` build and validate).  Whatever is derived from them must be added to the running
    byte count with a total operation (`saturating_add`): a plain `+` overflows - panic in debug builds, a
    wrapped, far too small bound in release (the writer then panics in safe code)."""
    R = "GRD-sum"
    f = facts.fn(WF + "options::Options::buffer_size_const")
    GETTERS = ("min_significant_digits", "negative_exponent_break", "positive_exponent_break")

    def user_controlled(e, depth=0):
        e = strip_casts(e)
        if any(last_seg(c[1]) in GETTERS for c in expr_calls(e)):
            return True
        if depth < 4:
            vs = []

            def walk(x):
                if isinstance(x, tuple):
                    if x and x[0] == "var" and len(x) > 1 and isinstance(x[1], int):
                        vs.append(x[1])
                    for y in x:
                        walk(y)
            walk(e)
            for l in set(vs):
                for _b, _j, rv, pr in f.defs().get(l, []):
                    if not pr and rv[0] != "call" and user_controlled(rvalue_expr(f, rv, 1, l), depth + 1):
                        return True
                    if not pr and rv[0] == "call" and any(user_controlled(op_expr(f, a), depth + 1) for a in rv[2]):
                        return True
        return False
    n = bad = 0
    where = f.loc()
    for i, b in enumerate(f.blocks):
        if not f.live(i):
            continue
        for st in b["s"]:
            if st[0] == "=" and st[2][0] == "bin" and st[2][1].startswith("Add"):
                l, r = op_expr(f, st[2][2]), op_expr(f, st[2][3])
                accs = {l_ for l_, ds_ in f.defs().items() if any(rv_[0] == "use" and rv_[1][0] == "k" and rv_[1][1].get("ty") == "usize" and rv_[1][1].get("v") == 2 for _b, _j, rv_, _p in ds_)}
                for side in (l, r):
                    ss = strip_casts(side)
                    if ss[0] == "var" and ss[1] in accs:
                        continue            # the accumulator itself: what is added to it decides
                    if ss[0] != "k" and user_controlled(side):
                        n += 1
                        bad += 1
                        where = f.loc(st[3])
    sat = sum(1 for bb, c, a, d, t in f.calls() if last_seg(callee_name(c)) in ("saturating_add", "checked_add") and any(user_controlled(op_expr(f, x)) for x in a))
    if bad == 0 and sat < 2 and _bsc_delegates(facts, f):
        raise ShapeUnknown("buffer_size_const computes its option-derived terms in %s: not read" % _bsc_delegates(facts, f)[:2])
    col.check(R, "buffer_size_const:option-derived-terms-saturate", bad == 0 and sat >= 2,
              "%d plain `+` of a quantity derived from min_significant_digits / the exponent breaks (total additions: %d): min_significant_digits(usize::MAX) overflows the bound (debug panic, wrapped bound in release)" % (bad, sat), where)


# =================================================================================================
# Round-5 block
# =================================================================================================
def rule_disguised_fast_path_checked(col, facts):
    """GRD-fast (disguised fast path): for exponents just above the exact range the mantissa is first multiplied by
    a small integer power; the product is compared with MAX_MANTISSA_FAST_PATH afterwards, which only sees its low
    64 bits - so the multiplication itself must be checked (overflow => no fast path).  A wrapping product that
    happens to land below the limit is accepted: `5006865757753848e37` parsed as 3.1e37."""
    R = "GRD-fast"
    f = facts.fn(PF + "number::Number::try_fast_path")
    checked = wrapping = 0
    for bb, c, a, d, t in f.calls():
        cn = last_seg(callee_name(c))
        e0 = show(op_expr(f, a[0])) if a else ""
        if cn in ("checked_mul", "overflowing_mul") and len(a) == 2:
            checked += 1
        if cn in ("wrapping_mul", "unchecked_mul") and len(a) == 2 and ("int_pow_fast_path" in show(op_expr(f, a[1])) or "int_pow_fast_path" in e0):
            wrapping += 1
    col.check(R, "try_fast_path:checked-product", checked >= 1 and wrapping == 0,
              "the disguised fast path multiplies the mantissa by int_pow_fast_path(..) with %d checked and %d wrapping multiplication(s): an overflowing product is not rejected by the later comparison with MAX_MANTISSA_FAST_PATH" % (checked, wrapping), f.loc())


def rule_compact_scratch_size(col, facts):
    """TBL-size (compact integer writer): the digits are generated backwards into a stack array before being copied
    out; the widest numeral is 128 binary digits (`assert!(BITS <= 128)` is all that bounds the type), so the array
    must have at least 128 elements - with 64, u128 values >= 2^64 in radix 2 / 3 index out of bounds."""
    if not facts.config.startswith("compact"):
        return
    R = "TBL-size"
    f = facts.fn("lexical_write_integer::compact::Compact::compact", required=False)
    if f is None:
        raise AnchorMissing("Compact::compact not found")
    sizes = []
    for ty in f.mir.get("locals", []):
        m = re.match(r"^\[u8; (\d+)(?:_usize)?\]$", ty.strip())
        if m:
            sizes.append(int(m.group(1)))
    col.check(R, "compact:scratch-digits", bool(sizes) and min(sizes) >= 128,
              "the compact writer's scratch array has %s elements; a 128-bit value has up to 128 digits in radix 2" % (sizes or "no [u8; N]"), f.loc())


def rule_round_up_stores_digits(col, facts):
    """ORG-digit (round_up): the carry helper re-encodes an incremented digit; what it stores into the digit buffer
    must be a literal (`'1'`, `'0'`) or come from digit_to_char_const - arithmetic on the *character* (`c + 1`)
    is right for '0'..'8' and 'A'..'Y' only: in radix 12 the digit after '9' is 'A', not ':'."""
    R = "ORG-digit"
    f = facts.fn(WF + "shared::round_up")
    n = bad = 0
    where = f.loc()
    for i, b in enumerate(f.blocks):
        if not f.live(i):
            continue
        for st in b["s"]:
            if st[0] == "=" and st[1][1] and any(isinstance(p, list) and p and p[0] == "idx" or p == "idx" or (isinstance(p, tuple)) for p in st[1][1]) or (st[0] == "=" and st[1][1] and "idx" in json.dumps(st[1][1])):
                n += 1
                e = strip_casts(rvalue_expr(f, st[2], 0))
                ok = e[0] == "k" or (e[0] == "call" and last_seg(e[1]) in ("digit_to_char_const", "digit_to_char")) or (e[0] == "var")
                if e[0] == "var":
                    ok = all(rv[0] == "call" and last_seg(callee_name(rv[1])) in ("digit_to_char_const", "digit_to_char") or (rv[0] == "use" and rv[1][0] == "k") for _b, _j, rv, pr in f.defs().get(e[1], []) if not pr)
                if not ok:
                    bad += 1
                    where = f.loc(st[3])
    col.check(R, "round_up:stored-byte-origin", n >= 1 and bad == 0,
              "%d of %d bytes stored into the digit buffer are computed from the character itself instead of digit_to_char_const: wrong for the digit after '9' in any radix above 10" % (bad, n), where)


def rule_special_tried_on_every_error(col, facts):
    """MPT-special (float entry points): a non-numeric input is a special value exactly when it equals one of the
    configured strings - whatever error the numeric parser stopped with and wherever it stopped (`inf` in radix
    20 stops after the digit `i`).  Every `return Err(e)` that hands back the numeric parser's error must come
    after the special parser was tried: the block is dominated by a parse_special / parse_partial_special call."""
    R = "MPT-special"
    n = 0
    for name in ("parse_complete", "fast_path_complete", "parse_partial", "fast_path_partial"):
        f = facts.fn(PF + "parse::" + name)
        sp = [bb for bb, c, a, d, t in f.calls() if last_seg(callee_name(c)) in ("parse_special", "parse_partial_special")]
        num = [d[0] for bb, c, a, d, t in f.calls() if last_seg(callee_name(c)) in ("parse_complete_number", "parse_partial_number", "parse_number") and d and not d[1]]
        col.check(R, "%s:calls" % name, bool(sp) and bool(num), "special / numeric parser call not found", f.loc())
        bad = 0
        where = f.loc()
        for i, b in enumerate(f.blocks):
            if not f.live(i):
                continue
            for st in b["s"]:
                if st[0] == "=" and st[1] == [0, []] and st[2][0] == "agg" and st[2][1][0] == "adt" and st[2][1][3] == "Err":
                    e = strip_casts(op_expr(f, st[2][2][0]))
                    # the error value comes out of the numeric parser's result
                    if any(c[0] == "call" and len(c) > 3 and c[3] in num for c in expr_calls(e)):
                        n += 1
                        if not any(f.dominates(s_, i) for s_ in sp):
                            bad += 1
                            where = f.loc(st[3])
        col.check(R, "%s:error-only-after-special" % name, bad == 0,
                  "%d return(s) of the numeric parser's error are taken without the special parser having been tried: an input equal to a configured special string is rejected when the number parser consumed part of it (radix 20 `inf`)" % bad, where)
    col.floor(R, "returns of the numeric parser's error", n, 4)


def rule_default_flags_exact(col, facts):
    """KEY-constraints (without `format`): the only syntax flags a build without the `format` feature implements are
    the STANDARD ones, so a packed format is valid only if its flag bits *equal* them - the comparison in
    not_feature_format::format_error_impl must be an (in)equality between `format & FLAG_MASK` and the default
    flags, not a subset test: a format lacking REQUIRED_EXPONENT_DIGITS would be reported valid and then parsed as
    if it had it."""
    if "format" in facts.config:
        return
    R = "KEY-constraints"
    f = facts.fn("lexical_util::not_feature_format::format_error_impl")
    ok = False
    for i, b in enumerate(f.blocks):
        if not f.live(i) or b["t"]["k"] != "switch":
            continue
        e = strip_casts(op_expr(f, b["t"]["d"]))
        if e[0] == "bin" and e[1] in ("Ne", "Eq"):
            l, r = strip_casts(e[2]), strip_casts(e[3])
            for x, y in ((l, r), (r, l)):
                if x[0] == "bin" and x[1] == "BitAnd" and "FLAG_MASK" in show(x) and "Not" not in show(x) and y != ("k", 0) and "REQUIRED" in show(y):
                    ok = True
    col.check(R, "not_feature_format:flags-equal-defaults", ok,
              "format_error_impl no longer compares `format & FLAG_MASK` with the default flags for equality: a format missing one of the STANDARD flags (or carrying only a subset) is reported valid although this build cannot honour it", f.loc())


def rule_absent_punctuation_guarded(col, facts):
    """GRD-absent (round-5): an optional punctuation character that the format does not define is stored as 0.
    Every place where the parsers compare an input byte with the base prefix or base suffix character
    (read_if_value / first_is / eq_ignore_ascii_case / `==`) must be dominated by `character != 0`: otherwise the
    byte 0x00 *is* the prefix of a format that has none, and with the `format` feature the STANDARD format parses
    `0\\x0025` as 25 (without the feature: InvalidDigit(1)) - the features are no longer additive."""
    import re
    if "format" not in facts.config:
        return
    R = "GRD-absent"
    n = 0
    pat = re.compile(r"(?i)base_(prefix|suffix)")
    for f in facts.all_fns():
        if f.crate not in ("lexical_parse_float", "lexical_parse_integer") or f.kind == "Closure":
            continue
        sites = []
        for bb, c, a, d, t in f.calls():
            cn = last_seg(callee_name(c))
            if cn in ("base_prefix", "base_suffix", "case_sensitive_base_prefix", "case_sensitive_base_suffix", "has_base_prefix", "has_base_suffix"):
                continue
            for x in a[1:] if len(a) > 1 else []:
                s = show(strip_casts(op_expr(f, x)))
                m = pat.search(s)
                if m and not s.lower().startswith("case_sensitive") and "case_sensitive" not in s.lower().split("base_")[0]:
                    sites.append((bb, m.group(1).lower(), cn, f.blocks[bb]["ts"]))
                    break
        for i, b in enumerate(f.blocks):
            if not f.live(i):
                continue
            for st in b["s"]:
                if st[0] != "=" or st[2][0] != "bin" or st[2][1] not in ("Eq", "Ne"):
                    continue
                e = strip_casts(rvalue_expr(f, st[2], 0))
                l, r = show(strip_casts(e[2])), show(strip_casts(e[3]))
                for x, y in ((l, r), (r, l)):
                    m = pat.search(x)
                    if m and "case_sensitive" not in x.lower() and strip_casts(e[3] if x is l else e[2])[0] != "k":
                        sites.append((i, m.group(1).lower(), "==", st[3]))
                        break
        for bb, which, how, sp in sites:
            ok = False
            for _d, e, p in path_conditions(f, bb):
                e = strip_casts(e)
                if e[0] == "bin" and e[1] in ("Ne", "Eq") and pat.search(show(e)) and pat.search(show(e)).group(1).lower() == which:
                    z = [x for x in (strip_casts(e[2]), strip_casts(e[3])) if x[0] == "k" and x[1] in (0, False)]
                    if z and ((e[1] == "Ne") == bool(p)):
                        ok = True
                elif e[0] == "call" and last_seg(e[1]) == "has_base_" + which and p is True:
                    ok = True
            n += 1
            col.check(R, "%s:%s:%s" % (f.short, which, how), ok,
                      "an input byte is compared with the base %s character (%s) on a path where that character may be 0 (format without a base %s): the byte 0x00 then acts as the %s, so `0\\x0025` parses as 25 with the `format` feature and is an InvalidDigit without it" % (which, how, which, which), f.loc(sp))
    col.floor(R, "comparisons of input bytes with optional base prefix / suffix characters", n, 6)
