"""TBL / KEY rules over lexical-parse-float's embedded constants (C01, C05, C16)."""
import re
from fractions import Fraction

from oracle import defs as D
from rules.core import (strip_casts, op_expr, copy_root, NotATable, TableIndexOutOfRange, tbl_eval, switch_keys, AnchorMissing, fold, op_local, find_fn_suffix, callee_name)

PF = "lexical_parse_float::"


def valid_radices(facts):
    """Radices the configuration supports (from the cfg-selected `debug_assert_radix`/features)."""
    if "radix" in facts.config:
        return list(range(2, 37))
    if "power-of-two" in facts.config:
        return [2, 4, 8, 10, 16, 32]
    return [10]


def is_compact(facts):
    return facts.config.startswith("compact")


def ev(facts, short, args):
    return tbl_eval(facts, facts.fn(short), args)


def limbs_to_int(limbs, width=64):
    v = 0
    for i, l in enumerate(limbs):
        v |= l << (width * i)
    return v


def unref(v):
    while isinstance(v, dict) and "ref" in v:
        v = v["ref"]
    return v


# ---------------------------------------------------------------------------------------------
def rule_lemire(col, facts):
    """TBL-lemire: POWER_OF_FIVE_128 and the constants around compute_float."""
    if is_compact(facts):
        return
    R = "TBL-lemire"
    tp = PF + "table_lemire::"
    table = facts.const_value(tp + "POWER_OF_FIVE_128")
    lo_q = facts.const_value(tp + "SMALLEST_POWER_OF_FIVE")
    hi_q = facts.const_value(tp + "LARGEST_POWER_OF_FIVE")
    n = facts.const_value(tp + "N_POWERS_OF_FIVE")
    loc = facts.const_loc(tp + "POWER_OF_FIVE_128")
    col.check(R, "table-length", len(table) == hi_q - lo_q + 1 == n,
              "len=%d, range [%d,%d], N=%d" % (len(table), lo_q, hi_q, n), loc)
    col.floor(R, "POWER_OF_FIVE_128 rows", len(table), 651, loc)
    for i, row in enumerate(table):
        q = lo_q + i
        hi, lo = D.lemire_row(q)
        col.check(R, "POWER_OF_FIVE_128[q=%d]" % q, tuple(row) == (hi, lo),
                  "entry is (%#x,%#x), the 128-bit truncated 5^%d is (%#x,%#x)" % (row[0], row[1], q, hi, lo), loc)
    # f64 bounds equal the table bounds; f32 bounds inside it
    for fl, fmt in (("f64", D.F64), ("f32", D.F32)):
        pre = "<%s as lexical_parse_float::float::LemireFloat>::" % fl
        sm = facts.const_value(pre + "SMALLEST_POWER_OF_TEN")
        lg = facts.const_value(pre + "LARGEST_POWER_OF_TEN")
        col.check(R, "%s-range-inside-table" % fl, lo_q <= sm and lg <= hi_q,
                  "[%d,%d] not inside table range [%d,%d]: compute_product_approx would index out of the table" % (sm, lg, lo_q, hi_q),
                  facts.const_loc(pre + "SMALLEST_POWER_OF_TEN"))
        # below SMALLEST: (2^64-1)*10^(sm-1) must round to zero: < 2^(denorm_exp-1)
        col.check(R, "%s-smallest-is-underflow" % fl,
                  Fraction((1 << 64) - 1) * Fraction(10) ** (sm - 1) <= Fraction(2) ** (fmt.denorm_exp - 1),
                  "w*10^q for q < %d can be a non-zero float, yet compute_float returns 0" % sm,
                  facts.const_loc(pre + "SMALLEST_POWER_OF_TEN"))
        # above LARGEST: 1*10^(lg+1) must be >= overflow threshold
        thr = (Fraction(2) - Fraction(1, 1 << fmt.p)) * Fraction(2) ** fmt.emax
        col.check(R, "%s-largest-is-overflow" % fl, Fraction(10) ** (lg + 1) >= thr,
                  "10^q for q > %d can be finite, yet compute_float returns infinity" % lg,
                  facts.const_loc(pre + "LARGEST_POWER_OF_TEN"))
        # round-to-even window (Lemire 2021 §9): q in [qmin,qmax] iff 5^q <= 2^(p+1) resp. 2^p*5^-q < 2^64
        mn = facts.const_value(pre + "MIN_EXPONENT_ROUND_TO_EVEN")
        mx = facts.const_value(pre + "MAX_EXPONENT_ROUND_TO_EVEN")
        emx = 0
        while 5 ** (emx + 1) <= (1 << (fmt.p + 1)):
            emx += 1
        emn = 0
        while (1 << fmt.p) * 5 ** (-(emn - 1)) < (1 << 64):
            emn -= 1
        col.check(R, "%s-round-to-even-window" % fl, (mn, mx) == (emn, emx),
                  "window (%d,%d), Eisel-Lemire requires (%d,%d)" % (mn, mx, emn, emx),
                  facts.const_loc(pre + "MIN_EXPONENT_ROUND_TO_EVEN"))
        me = facts.const_value(pre + "MINIMUM_EXPONENT")
        col.check(R, "%s-minimum-exponent" % fl, me == -fmt.emax, "MINIMUM_EXPONENT=%d, expected %d" % (me, -fmt.emax),
                  facts.const_loc(pre + "MINIMUM_EXPONENT"))
    # power(q) = ((q * C) >> S) + 63 must be floor(log2 10^q) + 63 on the table range
    f = facts.fn(PF + "lemire::power")
    C = S = A = None
    mul_dest = None
    for _bb, callee, args, dest, _t in f.calls():
        if callee_name(callee).endswith("wrapping_mul") and copy_root(f, args[0]) == 1:
            C = fold(f, args[1])
            mul_dest = dest[0]
    for b in f.blocks:
        for st in b["s"]:
            if st[0] == "=" and st[2][0] == "bin":
                op = st[2][1]
                if op.startswith("Shr") and copy_root(f, st[2][2]) == mul_dest:
                    S = fold(f, st[2][3])
                    shr_dest = st[1][0]
                if op.startswith("Add") and fold(f, st[2][2]) is None and fold(f, st[2][3]) is not None:
                    A = fold(f, st[2][3])
    if C is None or S is None or A is None:
        # another spelling (a folded constant, `C.wrapping_mul(q)`, named constants): evaluate the single path
        from rules.pathmodel import Model, Shape as _Shape, Panic as _Panic
        try:
            m_ = Model(f, "i32")
            bad = [q for q in range(lo_q, hi_q + 1) if m_.value([q]) != D.lemire_power(q)]
            col.check(R, "power-constants", not bad, "power(q) != floor(log2 10^q)+63 for q=%s" % bad[:5], f.loc())
        except _Panic as e:
            col.bad(R, "power-panic", "an overflow check can fire inside the decade range: %s" % e, f.loc())
        except _Shape as e:
            col.assumed("not-applied", "TBL-lemire:power", "lemire::power is neither (q.wrapping_mul(C) >> S) + A nor loop-free integer arithmetic (%s): not decided" % e, f.loc())
    else:
        bad = [q for q in range(lo_q, hi_q + 1) if ((q * C) >> S) + A != D.lemire_power(q)]
        col.check(R, "power-constants", not bad,
                  "((q*%d)>>%d)+%d != floor(log2 10^q)+63 for q=%s" % (C, S, A, bad[:5]), f.loc())
    # inside_safe_exponent window: 5^hi < 2^128 and 5^-lo < 2^64 (Lemire 2021, §8)
    cf = facts.fn(PF + "lemire::compute_float")
    win = None
    # `(-27..=55).contains(&q)`: the range is a promoted constant of compute_float
    for bb, callee, args, _d, _t in cf.calls():
        if callee_name(callee).endswith("RangeInclusive::contains"):
            for pm in cf.promoted:
                for b in pm["blocks"]:
                    t = b["t"]
                    if t["k"] == "call" and callee_name(t["f"]).endswith("RangeInclusive::new"):
                        vals = [a[1].get("v") for a in t["a"] if a[0] == "k"]
                        if len(vals) == 2 and all(isinstance(v, int) for v in vals):
                            win = vals
                    for st in b["s"]:
                        if st[0] == "=" and st[2][0] == "agg" and "RangeInclusive" in str(st[2][1]):
                            vals = [a[1].get("v") for a in st[2][2][:2] if a[0] == "k"]
                            if len(vals) == 2 and all(isinstance(v, int) for v in vals):
                                win = vals
    if win is None:
        # the same window spelt with comparisons (`q < -27 || q > 55`): the literal bounds q (argument 1) is
        # compared with on the way to compute_error_scaled
        los, his = [], []
        from rules.core import rvalue_expr
        cmps = []
        for i, b in enumerate(cf.blocks):
            if not cf.live(i):
                continue
            if b["t"]["k"] == "switch":
                cmps.append(strip_casts(op_expr(cf, b["t"]["d"])))
            for st in b["s"]:           # `a || b` assigns the second comparison instead of branching on it
                if st[0] == "=" and st[2][0] == "bin" and st[2][1] in ("Lt", "Le", "Gt", "Ge"):
                    cmps.append(strip_casts(rvalue_expr(cf, st[2], 0)))
        seen_cmp = set()
        for e in cmps:
                if e in seen_cmp:
                    continue
                seen_cmp.add(e)
                if e[0] == "bin" and e[1] in ("Lt", "Le", "Gt", "Ge"):
                    l, r = strip_casts(e[2]), strip_casts(e[3])
                    if l[:2] == ("arg", 1) and r[0] == "k" and isinstance(r[1], int) and abs(r[1]) < 200:
                        v, op = r[1], e[1]
                    elif r[:2] == ("arg", 1) and l[0] == "k" and isinstance(l[1], int) and abs(l[1]) < 200:
                        v, op = l[1], {"Lt": "Gt", "Gt": "Lt", "Le": "Ge", "Ge": "Le"}[e[1]]
                    else:
                        continue
                    # q < v / q <= v delimit the window from below (inclusive bound v / v+1), q > v / q >= v from above
                    if op == "Lt":
                        los.append(v)
                    elif op == "Le":
                        los.append(v + 1)
                    elif op == "Gt":
                        his.append(v)
                    elif op == "Ge":
                        his.append(v - 1)
        if len(los) == 1 and len(his) == 1 and any(callee_name(c).endswith("compute_error_scaled") for _b, c, _a, _d, _t in cf.calls()):
            win = [los[0], his[0]]
    if win is None:
        col.bad(R, "safe-exponent-shape", "compute_float has neither a constant RangeInclusive nor a pair of literal comparisons of q for the safe exponent window", cf.loc())
    else:
        lo, hi = win
        ok = lo <= 0 <= hi and 5 ** hi < (1 << 128) and 5 ** (-lo) < (1 << 64)
        col.check(R, "safe-exponent-window", ok,
                  "window %d..=%d: needs 5^hi < 2^128 and 5^-lo < 2^64 (products exact inside it)" % (lo, hi), cf.loc())


# ---------------------------------------------------------------------------------------------
def reachable_pow_bases(facts, radices=None):
    """Bases that can reach Bigint::pow / Bigfloat::pow: r for every non-2^k radix, r/2 and 2 for
    even ones (negative_digit_comp), read off the callers' argument shapes (checked in rule_pow_callers)."""
    rs = [r for r in valid_radices(facts) if not D.is_pow2(r) and (radices is None or r in radices)]
    bases = set(rs)
    for r in rs:
        if r % 2 == 0:
            bases.add(r // 2)
            bases.add(2)
    return sorted(bases)


def rule_pow_callers(col, facts):
    """The set above is only right while the callers pass `radix`, `radix / 2` or the literal 2:
    verify the argument shapes of every `Bigint::pow`/`Bigfloat::pow` call site."""
    R = "KEY-split-callers"
    n = 0
    for f in facts.all_fns():
        if f.crate != "lexical_parse_float":
            continue
        for bb, callee, args, _d, _t in f.calls():
            nm = callee.get("fn", "")
            if nm.endswith("bigint::Bigint::pow") or nm.endswith("bigint::Bigfloat::pow"):
                n += 1
                a = args[1]
                kind = classify_base_arg(f, bb, a)
                col.check(R, "%s#%s" % (f.short, kind), kind in ("radix", "radix/2", "2"),
                          "base argument of Bigint/Bigfloat::pow is not radix, radix/2 or 2 (got %s): the reachable-base set is no longer known" % kind,
                          f.loc(f.blocks[bb]["ts"]))
    col.floor(R, "Bigint/Bigfloat::pow call sites", n, 4 if not ("radix" in facts.config) else 6)


def def_of(f, local, before_bb=None):
    """All assignments to a projection-free local: list of (bb, rvalue)."""
    out = []
    for i, b in enumerate(f.blocks):
        for st in b["s"]:
            if st[0] == "=" and st[1][0] == local and not st[1][1]:
                out.append((i, st[2]))
        t = b["t"]
        if t["k"] == "call" and t.get("dest") and t["dest"][0] == local and not t["dest"][1]:
            out.append((i, ["call", t["f"], t["a"]]))
    return out


def classify_base_arg(f, bb, a, depth=0):
    if depth > 6:
        return "?"
    if a[0] == "k":
        return str(a[1].get("v"))
    l = a[1][0] if not a[1][1] else None
    if l is None:
        return "?"
    if f.names.get(l) == "radix":
        return "radix"
    defs = def_of(f, l)
    if len(defs) != 1:
        return "?"
    rv = defs[0][1]
    if rv[0] == "use":
        return classify_base_arg(f, bb, rv[1], depth + 1)
    if rv[0] == "bin" and rv[1].startswith("Div"):
        lhs = classify_base_arg(f, bb, rv[2], depth + 1)
        if rv[3][0] == "k" and rv[3][1].get("v") == 2 and lhs == "radix":
            return "radix/2"
        return "?"
    if rv[0] == "call":
        nm = rv[1].get("fn", "")
        if nm.endswith("::radix") or nm.endswith("::mantissa_radix"):
            return "radix"
    return "?"


def rule_split_radix(col, facts, radices=None):
    """KEY-split: every base b that reaches pow has split_radix(b) = (o, s), o odd (or 0), o*2^s = b,
    and o is served exactly by the large/small power tables and the power limits."""
    R = "KEY-split"
    sr = facts.fn(PF + "bigint::split_radix")
    compact = is_compact(facts)
    for b in reachable_pow_bases(facts, radices):
        try:
            res = tbl_eval(facts, sr, [b])
            o, s = res.value
            dflt = res.default_taken
        except NotATable as e:
            # no longer a lookup: read it as the decision table of its (loop-free, arithmetic) paths
            from rules.pathmodel import model_value, Shape as _Shape, Panic as _Panic
            try:
                o, s = model_value(sr, [b], "u32")
                dflt = False
            except (_Shape, _Panic, ValueError, TypeError) as e2:
                col.bad(R, "split_radix-shape", "split_radix is neither a pure lookup nor loop-free arithmetic: %s; %s" % (e, e2), sr.loc())
                return
        ok = ((o if o else 1) << s) == b and (o == 0 or o % 2 == 1) and not dflt
        col.check(R, "split_radix(%d)" % b, ok,
                  "split_radix(%d) = (%d, %d): need odd factor o (or 0) with o*2^s = %d%s" %
                  (b, o, s, b, " [wildcard arm]" if dflt else ""), sr.loc())
        # whatever split_radix returns is what pow() is called with: that value must be served
        if o == 0:
            continue
        key = "base %d (from split_radix(%d))" % (o, b)
        # power limits: o^limit fits a limb and limit >= 1
        for lim_fn, bits in (("u64_power_limit", 64), ("u32_power_limit", 32)):
            lf = facts.fn(PF + "limits::" + lim_fn)
            lr = tbl_eval(facts, lf, [o])
            lim = lr.value
            col.check(R, "%s(%d)" % (lim_fn, o), 1 <= lim and o ** lim < (1 << bits) and not (lr.default_taken and lim == 1 and o ** 2 < (1 << bits) and False),
                      "%s(%d) = %d: %d^%d does not fit %d bits" % (lim_fn, o, lim, o, lim, bits), lf.loc())
            if lr.default_taken:
                col.check(R, "%s(%d)-explicit" % (lim_fn, o), False,
                          "%s has no arm for %s: the wildcard value %d makes pow() multiply one digit at a time or is wrong" % (lim_fn, key, lim), lf.loc())
        if compact:
            continue
        glp = find_fn_suffix(facts, "lexical_parse_float", "::get_large_int_power")
        try:
            lr = tbl_eval(facts, glp, [o])
            limbs, step = lr.value
            limbs = unref(limbs)
            val = limbs_to_int(limbs)
            col.check(R, "get_large_int_power(%d)" % o, step >= 1 and val == o ** step,
                      "get_large_int_power(%d) returns a %d-limb constant with step %d that is not %d^%d (%s): Bigint::pow(%d, e>=%d) multiplies by the wrong power"
                      % (o, len(limbs), step, o, step, describe_power(val, step), o, step), glp.loc())
        except NotATable as e:
            col.bad(R, "get_large_int_power-shape", "not a pure lookup: %s" % e, glp.loc())
        # small int powers for exp < u64_power_limit(o)
        lim = tbl_eval(facts, facts.fn(PF + "limits::u64_power_limit"), [o]).value
        gsp = find_fn_suffix(facts, "lexical_parse_float", "::get_small_int_power")
        for i in range(0, max(lim, 1)):
            try:
                v = tbl_eval(facts, gsp, [i, o]).value
                col.check(R, "get_small_int_power(%d,%d)" % (i, o), v == o ** i,
                          "get_small_int_power(%d, %d) = %d, expected %d" % (i, o, v, o ** i), gsp.loc())
            except TableIndexOutOfRange as e:
                col.bad(R, "get_small_int_power(%d,%d)" % (i, o), "index out of range: %s" % e, gsp.loc())
            except NotATable as e:
                col.bad(R, "get_small_int_power(%d,%d)" % (i, o),
                        "no table serves base %d (reached as %s): %s" % (o, key, e), gsp.loc())
                break


def describe_power(val, step):
    for b in range(2, 37):
        if b ** step == val:
            return "it is %d^%d" % (b, step)
    return "matches no b^step"


def table_mod(facts):
    if "radix" in facts.config:
        return "table_radix"
    if "power-of-two" in facts.config:
        return "table_binary"
    return "table_decimal"


# ---------------------------------------------------------------------------------------------
def rule_limits(col, facts, radices=None):
    """TBL-limits: exponent / mantissa / power limits, steps and max_digits per radix."""
    R = "TBL-limits"
    for r in [x for x in valid_radices(facts) if radices is None or x in radices]:
        for fl, fmt in (("f32", D.F32), ("f64", D.F64)):
            f = facts.fn(PF + "limits::%s_exponent_limit" % fl)
            res = tbl_eval(facts, f, [r])
            mn, mx = res.value
            L = D.exact_exponent_limit(r, fmt)
            col.check(R, "%s_exponent_limit(%d)" % (fl, r), -mn <= L and mx <= L and mn <= 0 <= mx and not res.default_taken,
                      "(%d,%d): %d^e is exactly representable in %s only for e <= %d, so the fast path would round twice%s" %
                      (mn, mx, r, fl, L, " [wildcard arm]" if res.default_taken else ""), f.loc())
            f = facts.fn(PF + "limits::%s_mantissa_limit" % fl)
            res = tbl_eval(facts, f, [r])
            ml = res.value
            ML = D.exact_mantissa_limit(r, fmt)
            col.check(R, "%s_mantissa_limit(%d)" % (fl, r), 0 <= ml <= ML and not res.default_taken,
                      "%d: %d^e <= 2^%d only for e <= %d%s" % (ml, r, fmt.p, ML, " [wildcard arm]" if res.default_taken else ""), f.loc())
        for lim_fn, bits in (("u64_power_limit", 64), ("u32_power_limit", 32)):
            f = facts.fn(PF + "limits::" + lim_fn)
            res = tbl_eval(facts, f, [r])
            col.check(R, "%s(%d)" % (lim_fn, r), 1 <= res.value <= D.power_limit(r, bits) and not res.default_taken,
                      "%d: %d^n fits %d bits only for n <= %d%s" % (res.value, r, bits, D.power_limit(r, bits), " [wildcard arm]" if res.default_taken else ""), f.loc())
        f = facts.fn("lexical_util::step::u64_step")
        res = tbl_eval(facts, f, [r])
        col.check(R, "u64_step(%d)" % r, 1 <= res.value and r ** res.value <= (1 << 64) and not res.default_taken,
                  "%d: %d^step must be <= 2^64%s" % (res.value, r, " [wildcard arm]" if res.default_taken else ""), f.loc())
    # max_digits: even, non-2^k radices must cover the longest halfway expansion; others None
    bigbits = facts.const_value(PF + "bigint::BIGINT_BITS")
    limbs = facts.const_value(PF + "bigint::BIGINT_LIMBS")
    col.check(R, "BIGINT_LIMBS", limbs * 64 <= bigbits and limbs * 64 > bigbits - 64, "BIGINT_LIMBS=%d vs BIGINT_BITS=%d" % (limbs, bigbits),
              facts.const_loc(PF + "bigint::BIGINT_LIMBS"))
    for r in [x for x in range(2, 37) if radices is None or x in radices]:
        o, s = D.split_pow2(r)
        for fl, fmt in (("f32", D.F32), ("f64", D.F64)):
            f = facts.fn(PF + "limits::%s_max_digits" % fl)
            res = tbl_eval(facts, f, [r])
            v = res.value
            is_some = isinstance(v, dict) and v.get("variant") == "Some"
            if s >= 1 and o > 1:
                if r not in valid_radices(facts):
                    continue
                W = D.worst_halfway_digits(r, fl)
                md = v["fields"][0] if is_some else None
                col.check(R, "%s_max_digits(%d)" % (fl, r), is_some and md >= W,
                          "%s: a halfway point between two %s floats has up to %d significant base-%d digits; truncating earlier makes digit_comp mis-compare" % (md, fl, W, r), f.loc())
                if is_some and fl == "f64":
                    need = D.bigint_bits_needed(r, md, fmt)
                    col.check(R, "BIGINT_BITS>=need(%d)" % r, need <= bigbits,
                              "BIGINT_BITS=%d but %d digits of base %d scaled to the smallest halfway point need %d bits" % (bigbits, md, r, need),
                              facts.const_loc(PF + "bigint::BIGINT_BITS"))
            else:
                col.check(R, "%s_max_digits(%d)" % (fl, r), not is_some,
                          "Some(..) for radix %d, whose halfway expansions are infinite (odd) or handled exactly (2^k): byte_comp/binary must be used" % r, f.loc())


# ---------------------------------------------------------------------------------------------
def rule_small_powers(col, facts, radices=None):
    """TBL-pow: the fast path's power tables are exact on the index range the limits allow."""
    if is_compact(facts):
        return
    R = "TBL-pow"
    mod = table_mod(facts)
    n_checked = 0
    for r in [x for x in valid_radices(facts) if radices is None or x in radices]:
        for fl, fmt in (("f32", D.F32), ("f64", D.F64)):
            mn, mx = tbl_eval(facts, facts.fn(PF + "limits::%s_exponent_limit" % fl), [r]).value
            g = find_fn_suffix(facts, "lexical_parse_float", "::get_small_%s_power" % fl)
            top = max(-mn, mx)
            for i in range(0, top + 1):
                try:
                    v = tbl_eval(facts, g, [i, r]).value
                except TableIndexOutOfRange as e:
                    col.bad(R, "get_small_%s_power(%d,%d)" % (fl, i, r), "exponent limit %d exceeds the table: %s" % (top, e), g.loc())
                    break
                except NotATable as e:
                    col.note("%s: get_small_%s_power(_, %d) is computed, not tabulated (%s): not decided" % (facts.config, fl, r, e))
                    break
                bits = v["fbits"]
                exp_bits = D.float_bits_exact(r ** i, fmt)
                n_checked += 1
                col.check(R, "get_small_%s_power(%d,%d)" % (fl, i, r), exp_bits is not None and bits == exp_bits,
                          "entry bits %#x are not the exact value %d^%d (%s)" % (bits, r, i, ("%#x" % exp_bits) if exp_bits is not None else "not representable"), g.loc())
        # integer powers: index range of the disguised fast path (<= mantissa_limit) and of
        # parse_mantissa (< u64_power_limit)
        ml = tbl_eval(facts, facts.fn(PF + "limits::f64_mantissa_limit"), [r]).value
        pl = tbl_eval(facts, facts.fn(PF + "limits::u64_power_limit"), [r]).value
        g = find_fn_suffix(facts, "lexical_parse_float", "::get_small_int_power")
        for i in range(0, max(ml + 1, pl)):
            try:
                v = tbl_eval(facts, g, [i, r]).value
            except TableIndexOutOfRange as e:
                col.bad(R, "get_small_int_power(%d,%d)" % (i, r), "limit exceeds the table: %s" % e, g.loc())
                break
            except NotATable as e:
                col.note("%s: get_small_int_power(_, %d) is computed, not tabulated (%s): not decided" % (facts.config, r, e))
                break
            n_checked += 1
            col.check(R, "get_small_int_power(%d,%d)" % (i, r), v == r ** i, "= %d, expected %d^%d = %d" % (v, r, i, r ** i), g.loc())
    tabulated = [x for x in valid_radices(facts) if (radices is None or x in radices) and not D.is_pow2(x)]
    if tabulated:
        col.floor(R, "power table entries (%s)" % facts.config, n_checked, 50)


# ---------------------------------------------------------------------------------------------
def rule_bellerophon(col, facts, only=None):
    """TBL-bellerophon: per-radix extended-precision power tables (compact: decimal; radix: all)."""
    R = "TBL-bellerophon"
    f = facts.fn(PF + "table_bellerophon::bellerophon_powers", required=False) if False else None
    # locate the dispatcher by name in whichever module holds it
    cands = [x for x in facts.all_fns() if x.short.endswith("::bellerophon_powers")]
    if not cands:
        if is_compact(facts) or "radix" in facts.config:
            col.bad(R, "anchor", "bellerophon_powers dispatcher not found", "")
        return
    disp = cands[0]
    radices = [r for r in valid_radices(facts) if not D.is_pow2(r)]
    if not is_compact(facts):
        radices = [r for r in radices if r != 10]   # decimal uses Eisel-Lemire
    if only is not None:
        radices = [r for r in radices if r in only]
    n_rows = 0
    for r in radices:
        try:
            res = tbl_eval(facts, disp, [r])
        except NotATable as e:
            col.bad(R, "dispatch-shape", "bellerophon_powers is no longer a pure lookup: %s" % e, disp.loc())
            return
        pw = unref(res.value)
        if not (isinstance(pw, dict) and "fields" in pw):
            col.bad(R, "powers(%d)" % r, "dispatcher returned no BellerophonPowers constant", disp.loc())
            continue
        fld = {k: unref(v) for k, v in pw["fields"]}
        small, large, small_int = fld["small"], fld["large"], fld["small_int"]
        step, bias, log2, log2_shift = fld["step"], fld["bias"], fld["log2"], fld["log2_shift"]
        key = "BASE%d" % r
        col.check(R, key + "-small-lengths", len(small) == len(small_int) == step and step >= 1,
                  "len(small)=%d len(small_int)=%d step=%d: small_index = exponent %% step must index both" % (len(small), len(small_int), step), disp.loc())
        col.check(R, key + "-bias-multiple", bias % step == 0 and bias >= 0, "bias %d is not a multiple of step %d: large[i] would not be radix^(i*step-bias)" % (bias, step), disp.loc())
        for i, v in enumerate(small_int):
            n_rows += 1
            col.check(R, key + "-small_int[%d]" % i, v == r ** i, "= %d, expected %d^%d" % (v, r, i), disp.loc())
        def exp_of(k):
            return (1 - 64) + ((log2 * k) >> log2_shift)
        for i, m in enumerate(small):
            n_rows += 1
            em, ee = D.norm_pow(r, i, 64, "floor")
            col.check(R, key + "-small[%d]" % i, abs(m - em) <= 1 and (m >> 63) == 1 and exp_of(i) == ee,
                      "mantissa %#x / exponent %d vs exact normalised %d^%d = %#x * 2^%d (must be within 1 ulp, normalised, same exponent)" % (m, exp_of(i), r, i, em, ee), disp.loc())
        for j, m in enumerate(large):
            n_rows += 1
            k = j * step - bias
            em, ee = D.norm_pow(r, k, 64, "floor")
            col.check(R, key + "-large[%d]" % j, abs(m - em) <= 1 and (m >> 63) == 1 and exp_of(k) == ee,
                      "mantissa %#x / exponent %d vs exact normalised %d^%d = %#x * 2^%d" % (m, exp_of(k), r, k, em, ee), disp.loc())
        # coverage: an index outside the large table must really be underflow / overflow for f64
        kmin = -bias
        kmax = (len(large) - 1) * step - bias + (step - 1)
        # smallest non-zero result: mantissa >= 1 => value >= r^k; k < kmin must round to 0 for any 64-bit mantissa
        under = Fraction((1 << 64) - 1) * Fraction(r) ** (kmin - 1) <= Fraction(2) ** (D.F64.denorm_exp - 1)
        over = Fraction(r) ** (kmax + 1) >= Fraction(2) ** (D.F64.emax + 1)
        col.check(R, key + "-range-underflow", under, "exponent < %d is treated as zero but (2^64-1)*%d^%d can be a non-zero f64" % (kmin, r, kmin - 1), disp.loc())
        col.check(R, key + "-range-overflow", over, "exponent > %d is treated as infinity but %d^%d is a finite f64" % (kmax, r, kmax + 1), disp.loc())
    floor = 0
    if is_compact(facts) and (only is None or 10 in only):
        floor = 70
    if "radix" in facts.config and only is None:
        floor = 2000
    if "radix" in facts.config and only is not None and 10 not in only:
        floor = 2000
    col.floor(R, "bellerophon table entries (%s)" % facts.config, n_rows, floor)


# ---------------------------------------------------------------------------------------------
def rule_invalid_fp_pairing(col, facts):
    """PAIR-bias: every producer of the 'moderate path could not decide' marker adds the same
    constant that parse_complete/parse_partial subtract."""
    R = "PAIR-bias"
    inv = facts.const_value(PF + "shared::INVALID_FP")
    col.check(R, "INVALID_FP-negative-enough", inv <= -(1 << 12),
              "INVALID_FP=%d: biased exponents of valid results (0..2047) plus the marker must stay negative" % inv,
              facts.const_loc(PF + "shared::INVALID_FP"))
    users = {}
    for f in facts.all_fns():
        if f.crate != "lexical_parse_float":
            continue
        for b in f.blocks:
            for st in b["s"]:
                if st[0] != "=" or st[2][0] != "bin":
                    continue
                op = st[2][1]
                for o in (st[2][2], st[2][3]):
                    if o[0] == "k" and o[1].get("uneval", "").endswith("shared::INVALID_FP"):
                        users.setdefault(f.short, []).append((op, f.loc(st[3])))
    prod = {k: v for k, v in users.items() if any(op.startswith("Add") for op, _ in v)}
    cons = {k: v for k, v in users.items() if any(op.startswith("Sub") for op, _ in v)}
    for k, v in users.items():
        for op, loc in v:
            col.check(R, "%s:%s" % (k, op[:3]), op.startswith("Add") or op.startswith("Sub"),
                      "INVALID_FP used with operator %s" % op, loc)
    want_cons = [PF + "parse::parse_complete", PF + "parse::parse_partial"]
    for w in want_cons:
        col.check(R, "consumer:%s" % w, w in cons, "%s no longer subtracts shared::INVALID_FP before the slow path" % w,
                  facts.fn(w).loc())
    col.floor(R, "INVALID_FP producers", len(prod), 1 if is_compact(facts) and "power-of-two" not in facts.config and "radix" not in facts.config else 1)
