"""C13 — digit separators: dispatch, per-component consistency, counting protocol (DESIGN §4)."""
from rules import sep as S
from rules import extra as X
from rules.core import guarded, guarded_soft

INFO = {
    "explanation": "For each component iterator the 16-way peek dispatch is decoded with that component's own flag bits and compared with the peek_<x>/is_<x>/peek_1|peek_n macros each arm expands (macro back-traces), including the no-skip arm for no separators; each iterator is shown to count into its own field, mask with its own flag mask and classify digits with the radix the parser uses for that component; every step over bytes just classified as digits must be followed by increment_count or be gated on buffer-level contiguity.",
    "not_decided": "value preservation under separator deletion / insertion over all inputs",
    "assumptions": ["rustc's MIR builder and macro back-traces"],
}


def run(col, configs, tier):
    for name, facts in configs.items():
        col.set_config(name)
        guarded(col, S.rule_peek_dispatch, facts)
        guarded(col, S.rule_components, facts)
        guarded(col, S.rule_count_protocol, facts)
        guarded(col, S.rule_count_gating, facts)
        guarded(col, S.rule_window_keeps_count, facts)
        guarded(col, S.rule_contiguity_consistent, facts)
        guarded(col, S.rule_take_n_twins, facts)
        guarded(col, S.rule_slice_iterators, facts)
        guarded_soft(col, X.rule_slice_contiguity, facts)
        guarded(col, S.rule_end_of_buffer_neutral, facts)
        guarded(col, S.rule_lookaround_kind, facts)
        guarded(col, S.rule_run_skip_bound, facts)
        guarded_soft(col, S.rule_single_never_splits_run, facts)
        guarded(col, S.rule_skip_zeros_unit, facts)
        guarded_soft(col, X.rule_raw_digit_scans, facts)
        guarded_soft(col, X.rule_grammar_guards, facts)
        guarded_soft(col, X.rule_empty_component_counts_digits, facts)
