"""Sibling-agreement rules (C11): partial and complete parsers are the same code up to a declared
substitution."""
import collections

from rules.core import (callee_name, strip_generics, op_expr, rvalue_expr, show, strip_casts, expr_calls, path_conditions,
                        reach_alternatives, last_seg, pol_is_variant, AnchorMissing)
from rules.syntax import error_sites

PF = "lexical_parse_float::"


def events(f, subst=None, exclude_macros=(), drop=()):
    """Multiset of normalised instructions of a body: calls (callee after substitution), binary ops
    with their constant operands, named constants read, ADT constructions, switch shapes."""
    subst = subst or {}
    ms = collections.Counter()

    def excluded(sp):
        m = f.macros(sp)
        return any(x in exclude_macros for x in m)

    def const_desc(op):
        if op[0] == "k":
            c = op[1]
            if "uneval" in c and "promoted" not in c:
                return "kc:" + strip_generics(c["uneval"])
            if "param" in c:
                return "kp:" + c["param"]
            if "v" in c and not isinstance(c["v"], dict):
                return "k:%s" % (c["v"],)
            return "k"
        return "_"

    for b in f.blocks:
        if b.get("cleanup"):
            continue
        for st in b["s"]:
            if st[0] != "=" or excluded(st[3]):
                continue
            rv = st[2]
            if rv[0] == "bin":
                ev = ("bin", rv[1], const_desc(rv[2]), const_desc(rv[3]))
            elif rv[0] == "un":
                ev = ("un", rv[1])
            elif rv[0] == "agg":
                k = rv[1]
                if k[0] == "adt":
                    ev = ("adt", k[1], k[3])
                else:
                    ev = ("agg", k[0])
            elif rv[0] == "use" and rv[1][0] == "k":
                d = const_desc(rv[1])
                if d.startswith(("kc:", "kp:")):
                    ev = ("read", d)
                else:
                    continue
            elif rv[0] == "cast":
                ev = ("cast", rv[1], rv[3])
            else:
                continue
            if ev not in drop:
                ms[ev] += 1
        t = b["t"]
        if excluded(b["ts"]):
            continue
        if t["k"] in ("call", "tailcall"):
            cn = callee_name(t["f"])
            cn = subst.get(cn, cn)
            ev = ("call", cn, tuple(const_desc(a) for a in t["a"]))
            if ev not in drop and ("call", cn) not in drop:
                ms[ev] += 1
        elif t["k"] == "switch":
            ms[("switch", t["dty"], tuple(v for v, _ in t["v"]), const_desc(t["d"]))] += 1
        elif t["k"] == "assert":
            ms[("assert", t["msg"])] += 1
    return ms


def diff_ms(a, b):
    only_a = a - b
    only_b = b - a
    return only_a, only_b


def rule_float_siblings(col, facts):
    R = "SIB"
    subst = {PF + "parse::parse_complete_number": PF + "parse::parse_partial_number",
             PF + "parse::parse_special": PF + "parse::parse_partial_special"}
    for a, b in (("parse::parse_complete", "parse::parse_partial"), ("parse::fast_path_complete", "parse::fast_path_partial")):
        fa, fb = facts.fn(PF + a), facts.fn(PF + b)
        ea = events(fa, subst)
        eb = events(fb)
        only_a, only_b = diff_ms(ea, eb)
        # declared difference: the partial variant pairs each result with a count: tuple aggregates,
        # reads of `.cursor()`, and moves of the count; nothing else
        # (the pairing may be written `.map(|zero| (zero, consumed))`: a closure whose body makes no call)
        pairing_closures = all(not list(g.calls()) for g in facts.all_fns() if g.kind == "Closure" and g.closure_of == fb.short)
        allowed_b = lambda ev: ev[0] == "agg" and ev[1] == "tuple" or (ev[0] == "call" and ev[1].endswith("::cursor")) or ev[0] == "cast" or \
            (pairing_closures and (ev[:2] == ("agg", "closure") or (ev[0] == "call" and ev[1].endswith(("Result::map", "Option::map")))))
        extra_b = {ev: n for ev, n in only_b.items() if not allowed_b(ev)}
        extra_a = {ev: n for ev, n in only_a.items() if not (ev[0] == "cast")}
        col.check(R, "%s~%s:complete-only" % (last_seg(a), last_seg(b)), not extra_a,
                  "instructions only in the complete parser (after substituting the partial callees): %s" % sorted(extra_a.items())[:6], fa.loc())
        col.check(R, "%s~%s:partial-only" % (last_seg(a), last_seg(b)), not extra_b,
                  "instructions only in the partial parser beyond pairing results with a count: %s" % sorted(extra_b.items())[:6], fb.loc())
        col.check(R, "%s~%s:non-trivial" % (last_seg(a), last_seg(b)), sum(ea.values()) >= 8, "bodies too small to compare (%d events)" % sum(ea.values()), fa.loc())
    # parse_partial_number is exactly parse_number::<FORMAT, true>; parse_complete_number calls ::<FORMAT,false>
    pp = facts.fn(PF + "parse::parse_partial_number")
    calls = [(callee_name(c), c.get("cargs"), c.get("args")) for _b, c, _a, _d, _t in pp.calls()]
    ok = len(calls) == 1 and calls[0][0] == PF + "parse::parse_number" and "true" in str(calls[0][2]).lower() + str(calls[0][1])
    col.check("DLG", "parse_partial_number", ok and _is_partial_arg(calls[0], True), "parse_partial_number is not `parse_number::<FORMAT, true>(..)`: %s" % calls, pp.loc())
    pc = facts.fn(PF + "parse::parse_complete_number")
    calls = [(callee_name(c), c.get("cargs"), c.get("args")) for _b, c, _a, _d, _t in pc.calls() if callee_name(c) == PF + "parse::parse_number"]
    col.check("DLG", "parse_complete_number->parse_number", len(calls) == 1 and _is_partial_arg(calls[0], False),
              "parse_complete_number must call `parse_number::<FORMAT, false>` exactly once: %s" % calls, pc.loc())
    # MPT-complete: Ok(float) only when count == length, else InvalidDigit(count)
    R2 = "MPT-complete"
    oks = []
    for i, b in enumerate(pc.blocks):
        for st in b["s"]:
            if st[0] == "=" and st[2][0] == "agg" and st[2][1][0] == "adt" and st[2][1][3] == "Ok" and st[1] == [0, []]:
                oks.append((i, st))
    good = False
    for i, st in oks:
        for _d, e, pol in path_conditions(pc, i):
            if _consumed_all(e, pol) is True:
                good = True
    col.check(R2, "parse_complete_number:Ok", bool(oks) and good, "Ok(number) is returned without `count == byte.buffer_length()` having held", pc.loc())
    errs = [(bb, v, sp) for bb, v, sp in error_sites(pc) if v == "InvalidDigit"]
    good = any(any(_consumed_all(e, pol) is False for _d, e, pol in path_conditions(pc, bb)) for bb, v, sp in errs)
    col.check(R2, "parse_complete_number:InvalidDigit", good, "no `Err(InvalidDigit(count))` on the count != length edge", pc.loc())
    ps = facts.fn(PF + "parse::parse_special")
    calls = [callee_name(c) for _b, c, _a, _d, _t in ps.calls()]
    col.check(R2, "parse_special:uses-partial", PF + "parse::parse_partial_special" in calls, "parse_special does not build on parse_partial_special (calls %s)" % calls, ps.loc())
    somes = []
    for i, b in enumerate(ps.blocks):
        for st in b["s"]:
            if st[0] == "=" and st[2][0] == "agg" and st[2][1][0] == "adt" and st[2][1][3] == "Some":
                somes.append(i)
    good = bool(somes) and all(any(_consumed_all(e, pol) is True for _d, e, pol in path_conditions(ps, i)) for i in somes)
    if not somes and any(c.endswith("Option::filter") for c in calls):
        # `parse_partial_special(..).filter(|&(_, count)| count == length).map(|(f, _)| f)`: the test is the filter's
        # closure - it must compare (==) and contain no call
        for g in facts.all_fns():
            if g.kind == "Closure" and g.closure_of == ps.short:
                eqs = [st for b in g.blocks for st in b["s"] if st[0] == "=" and st[2][0] == "bin" and st[2][1] == "Eq"]
                if eqs and not list(g.calls()):
                    good = True
    col.check(R2, "parse_special:Some", good, "Some(float) is returned without `count == length` having held", ps.loc())
    # IS_PARTIAL only chooses between errors
    pn = facts.fn(PF + "parse::parse_number")
    n = 0
    carriers = set()
    for b in pn.blocks:
        for st in b["s"]:
            if st[0] == "=" and "IS_PARTIAL" in str(st[2]):
                if st[2][0] == "use" and not st[1][1]:
                    carriers.add(st[1][0])
                else:
                    col.bad(R, "IS_PARTIAL-used-as-value", "IS_PARTIAL flows into a computation", pn.loc(st[3]))
    for i, b in enumerate(pn.blocks):
        t = b["t"]
        direct = t["k"] == "switch" and t["d"][0] == "k" and t["d"][1].get("param") == "IS_PARTIAL"
        via = t["k"] == "switch" and t["d"][0] in ("cp", "mv") and t["d"][1][0] in carriers and not t["d"][1][1]
        if direct or via:
            n += 1
            for s2 in set(pn.succ()[i]):
                col.check(R, "IS_PARTIAL-selects-errors@%d" % n, _leads_only_to_err(pn, s2),
                          "a branch on IS_PARTIAL reaches something other than an immediate Err(..) return: the two parsers would differ on accepted input", pn.loc(b["ts"]))
    # the carrier locals are used for nothing but those switches
    for b in pn.blocks:
        for st in b["s"]:
            if st[0] == "=" and any(("[%d, []]" % c) in str(st[2]) for c in carriers) and "IS_PARTIAL" not in str(st[2]):
                col.bad(R, "IS_PARTIAL-used-as-value", "a copy of IS_PARTIAL flows into a computation", pn.loc(st[3]))
    col.floor(R, "IS_PARTIAL branches", n, 1)


def _is_partial_arg(call, want):
    cargs = call[1] or []
    # const generic args: [FORMAT (param), IS_PARTIAL (0/1)]
    vals = [x for x in cargs if isinstance(x, int)]
    return vals[-1:] == [1 if want else 0]


def _is_count_eq_length(e):
    e = strip_casts(e)
    if e[0] == "bin" and e[1] == "Eq":
        s = str(e)
        return "buffer_length" in s and ("parse_number" in s or "parse_partial_special" in s)
    return False


def _consumed_all(e, pol):
    """Does the atom say that the count returned by the partial parser equals the input length?  True / False /
    None (the atom is about something else).  `count == len`, `count != len`, `count < len`, `count >= len`, either
    way round; the length is buffer_length() or the len() of get_buffer()."""
    e = strip_casts(e)
    if not (e[0] == "bin" and e[1] in ("Eq", "Ne", "Lt", "Ge", "Gt", "Le") and isinstance(pol, bool)):
        return None
    l, r = str(e[2]), str(e[3])
    is_len = lambda x: "buffer_length" in x or ("get_buffer" in x and ("::len" in x or "PtrMetadata" in x))
    is_cnt = lambda x: "parse_number" in x or "parse_partial_special" in x
    op = e[1]
    if is_len(l) and is_cnt(r) and not is_cnt(l):
        op = {"Eq": "Eq", "Ne": "Ne", "Lt": "Gt", "Gt": "Lt", "Le": "Ge", "Ge": "Le"}[op]      # count OP' length
    elif not (is_cnt(l) and is_len(r)):
        return None
    # count <= length always (a cursor into the same buffer)
    if op == "Eq":
        return pol
    if op == "Ne":
        return not pol
    if op == "Lt":
        return not pol
    if op == "Ge":
        return pol
    return None


def _leads_only_to_err(f, bb, depth=0):
    """Within a few blocks the path assigns an Err(..) to the return place and returns."""
    seen = set()
    todo = [bb]
    steps = 0
    while todo and steps < 12:
        x = todo.pop()
        if x in seen:
            continue
        seen.add(x)
        steps += 1
        b = f.blocks[x]
        made_err = any(st[0] == "=" and st[2][0] == "agg" and st[2][1][0] == "adt" and st[2][1][3] == "Err" for st in b["s"])
        if made_err:
            continue
        if b["t"]["k"] == "return":
            return False
        for s in f.succ()[x]:
            todo.append(s)
    return not todo


def rule_integer_siblings(col, facts):
    """algorithm_complete and algorithm_partial expand the same algorithm! macro and differ only
    inside the into_ok_* / invalid_digit_* handler expansions."""
    R = "SIB"
    PI = "lexical_parse_integer::algorithm::"
    fa, fb = facts.fn(PI + "algorithm_complete"), facts.fn(PI + "algorithm_partial")
    handlers = ("into_ok_complete", "into_ok_partial", "invalid_digit_complete", "invalid_digit_partial")
    ea = events(fa, exclude_macros=handlers)
    eb = events(fb, exclude_macros=handlers)
    only_a, only_b = diff_ms(ea, eb)
    # arguments of the handler macros are evaluated in algorithm!'s context but only exist when the
    # handler uses them: pure position getters, `index +/- 1` and its overflow assertion
    getters = ("::buffer_length", "::cursor", "::current_count")

    def handler_arg(k):
        return (k[0] == "call" and k[1].endswith(getters)) or k[0] == "cast" or \
            (k[0] == "bin" and k[1] in ("AddWithOverflow", "SubWithOverflow", "Add", "Sub") and k[3] == "k:1") or (k[0] == "assert" and k[1] == "Overflow")
    sw = lambda d: {k: v for k, v in d.items() if k[0] != "switch" and not handler_arg(k)}
    col.check(R, "algorithm_complete~algorithm_partial", not sw(only_a) and not sw(only_b),
              "outside the handler macros the two integer parsers differ: complete-only %s, partial-only %s" % (sorted(sw(only_a).items())[:5], sorted(sw(only_b).items())[:5]), fa.loc())
    col.check(R, "algorithm-non-trivial", sum(ea.values()) >= 50, "only %d shared events" % sum(ea.values()), fa.loc())
    # both bodies come from the algorithm! macro
    for f in (fa, fb):
        inmac = sum(1 for b in f.blocks for st in b["s"] if st[0] == "=" and "algorithm" in f.macros(st[3]))
        tot = sum(1 for b in f.blocks for st in b["s"] if st[0] == "=")
        col.check(R, "%s:from-algorithm-macro" % last_seg(f.short), tot > 0 and inmac >= 0.9 * tot, "%d of %d statements expand from algorithm!" % (inmac, tot), f.loc())
    # the partial handler for an invalid digit returns Ok with index-1; the complete one Err(InvalidDigit(index-1))
    okp = [1 for b in fb.blocks for st in b["s"] if st[0] == "=" and st[2][0] == "agg" and st[2][1][0] == "adt" and st[2][1][3] == "Ok" and "invalid_digit_partial" in fb.macros(st[3])]
    erc = [1 for bb, v, sp in error_sites(fa) if v == "InvalidDigit" and "invalid_digit_complete" in fa.macros(sp)]
    col.check(R, "handlers", bool(okp) and bool(erc), "invalid_digit_partial must return Ok(..), invalid_digit_complete Err(InvalidDigit(..)) (found %d / %d)" % (len(okp), len(erc)), fa.loc())
