"""C19 — lossy parsing changes only precision: who reads `lossy`, and where (DESIGN §4)."""
from rules.core import (pol_is_variant, guarded, guarded_soft, callee_name, path_conditions, op_expr, show, strip_casts, expr_calls, last_seg)
from rules.syntax import error_sites
from rules import extra as X

INFO = {
    "explanation": "Options::lossy() is shown to be read only in parse_complete / parse_partial, after the grammar (parse_number / specials) has produced its result and after the exact fast path has returned; from that point no Err can be constructed and no grammar function is called, and the flag only flows into moderate_path (and a debug_assert). Hence accept/reject, consumed counts, errors and fast-path results cannot depend on it.",
    "not_decided": "the one-ULP bound and zero/infinity invariance (value-level behaviour of the moderate paths under lossy)",
    "assumptions": ["rustc's MIR builder"],
}

PF = "lexical_parse_float::"
LOSSY = PF + "options::Options::lossy"
GRAMMAR = ("parse::parse_number", "parse::parse_complete_number", "parse::parse_partial_number", "parse::parse_special",
           "parse::parse_partial_special", "parse::parse_positive_special", "parse::parse_mantissa_sign",
           "parse::parse_exponent_sign", "parse::parse_digits", "parse::parse_8digits", "parse::parse_u64_digits")


def reachable_from(f, bb):
    seen = {bb}
    todo = [bb]
    while todo:
        x = todo.pop()
        for s in f.succ()[x]:
            if s not in seen:
                seen.add(s)
                todo.append(s)
    return seen


def rule_who_lossy(col, facts):
    R = "WHO-lossy"
    readers = {}
    field_readers = {}
    for f in facts.all_fns():
        if f.crate != "lexical_parse_float":
            continue
        for bb, c, a, d, t in f.calls():
            if callee_name(c) == LOSSY:
                readers.setdefault(f.short, []).append(bb)
    allowed = {PF + "parse::parse_complete", PF + "parse::parse_partial"}
    for r in readers:
        col.check(R, "reader:" + r, r in allowed, "Options::lossy() is read in %s: only parse_complete/parse_partial may (after the grammar is done)" % r, facts.fn(r).loc())
    col.floor(R, "lossy readers", len([r for r in readers if r in allowed]), 2)
    # direct field reads of Options.lossy outside the options module
    adt = facts.adts.get(PF + "options::Options")
    if adt and "lossy" in adt[0]["fields"]:
        idx = adt[0]["fields"].index("lossy")
        for f in facts.all_fns():
            if f.crate != "lexical_parse_float" or f.short.startswith(PF + "options::") or "options::Options" in (f.impl_self or ""):
                continue
            for l, ty in enumerate(f.locals):
                pass
            for b in f.blocks:
                for st in b["s"]:
                    if st[0] == "=":
                        s = str(st[2])
                        # a projection .<idx> on a local of type Options
                        for l, ty in enumerate(f.locals):
                            if ty.replace("&'{erased} ", "") == PF + "options::Options" and ("[%d, ['*', %d]]" % (l, idx) in s or "[%d, [%d]]" % (l, idx) in s):
                                col.bad(R, "field-read:" + f.short, "Options.lossy is read directly in %s" % f.short, f.loc(st[3]))
    # grammar functions never receive the flag: no call to a grammar function passes a value derived from lossy()
    for name in allowed:
        f = facts.fn(name)
        bbs = readers.get(name, [])
        if not bbs:
            continue
        first = min(bbs, key=lambda b: len(path_conditions(f, b)))
        # (a) the fast path has already returned: dominated by try_fast_path(..) == None
        for bb in bbs:
            conds = path_conditions(f, bb)
            ok = any(e[0] == "discr" and any(c[1].endswith("Number::try_fast_path") for c in expr_calls(e)) and pol_is_variant(pol, 0) for _d, e, pol in conds)
            col.check(R, "%s:after-fast-path@%d" % (last_seg(name), bbs.index(bb)), ok,
                      "options.lossy() is read on a path where try_fast_path() has not yet returned None: %s" % [(show(e), p) for _d, e, p in conds][-3:], f.loc(f.blocks[bb]["ts"]))
        # (b) nothing after the first read can fail or consume input
        for bb in bbs:
            region = reachable_from(f, bb)
            errs = [(b2, v) for b2, v, _sp in error_sites(f) if b2 in region]
            col.check(R, "%s:no-error-after@%d" % (last_seg(name), bbs.index(bb)), not errs,
                      "an Error (%s) is constructed after options.lossy() was read" % errs, f.loc(f.blocks[bb]["ts"]))
            bad_calls = []
            for b2, c, a, d, t in f.calls():
                if b2 in region and b2 != bb:
                    cn = callee_name(c)
                    if cn.endswith(GRAMMAR) or "Try::branch" in cn or "FromResidual" in cn or "iterator::" in cn or "skip::" in cn:
                        bad_calls.append(cn)
            col.check(R, "%s:no-grammar-after@%d" % (last_seg(name), bbs.index(bb)), not bad_calls,
                      "grammar / iterator code runs after options.lossy() was read: %s" % bad_calls, f.loc(f.blocks[bb]["ts"]))
        # (c) the value flows only into moderate_path and negated assertions
        for b2, c, a, d, t in f.calls():
            cn = callee_name(c)
            for i, arg in enumerate(a):
                e = op_expr(f, arg)
                if any(x[1] == LOSSY for x in expr_calls(e)):
                    col.check(R, "%s:flows-to:%s" % (last_seg(name), last_seg(cn)), cn.endswith("parse::moderate_path") and i == 1,
                              "the lossy flag is passed to %s (argument %d)" % (cn, i), f.loc(f.blocks[b2]["ts"]))
    # moderate_path forwards it to the back-ends as their `lossy` parameter only
    mp = facts.fn(PF + "parse::moderate_path")
    n = 0
    for b2, c, a, d, t in mp.calls():
        cn = callee_name(c)
        if cn.endswith(("lemire::lemire", "bellerophon::bellerophon", "binary::binary")):
            n += 1
            e = strip_casts(op_expr(mp, a[1]))
            col.check(R, "moderate_path->%s" % last_seg(cn), e[:2] == ("arg", 2), "second argument is %s, expected the lossy parameter" % show(e), mp.loc(mp.blocks[b2]["ts"]))
    col.floor(R, "moderate_path back-ends", n, 1)


def run(col, configs, tier):
    for name, facts in configs.items():
        col.set_config(name)
        guarded(col, rule_who_lossy, facts)
        guarded_soft(col, X.rule_lossy_independent_shortcuts, facts)
        guarded_soft(col, X.rule_lossy_marker, facts)
        guarded_soft(col, X.rule_lossy_rounds, facts)
        guarded_soft(col, X.rule_lossy_only_removes_work, facts)
        guarded_soft(col, X.rule_reparse_skips_zeros, facts)
