//! Positive / negative controls for the rule engine (bin/selftest).  Each `bad_*` item contains exactly
//! one deliberate violation that its rule must report; each `good_*` twin must stay silent.
#![allow(dead_code, clippy::all)]

pub mod iterator {
    /// Mirrors the shape of lexical_util::iterator::{Iter, DigitsIter} (names matter to the rules).
    pub unsafe trait Iter<'a> {
        const IS_CONTIGUOUS: bool;
        fn get_buffer(&self) -> &'a [u8];
        fn cursor(&self) -> usize;
        unsafe fn set_cursor(&mut self, index: usize);
        fn as_slice(&self) -> &'a [u8] {
            &self.get_buffer()[self.cursor()..]
        }
        fn is_buffer_empty(&self) -> bool {
            self.cursor() >= self.get_buffer().len()
        }
        fn first(&self) -> Option<&'a u8> {
            self.get_buffer().get(self.cursor())
        }
        unsafe fn step_by_unchecked(&mut self, count: usize);
        unsafe fn step_unchecked(&mut self) {
            unsafe { self.step_by_unchecked(1) };
        }
        unsafe fn peek_many_unchecked<V>(&self) -> V {
            unimplemented!()
        }
        fn peek_u32(&self) -> Option<u32> {
            if Self::IS_CONTIGUOUS && self.as_slice().len() >= core::mem::size_of::<u32>() {
                unsafe { Some(self.peek_many_unchecked()) }
            } else {
                None
            }
        }
    }
    pub trait DigitsIter<'a>: Iter<'a> {
        fn peek(&mut self) -> Option<&'a u8>;
        fn increment_count(&mut self);
        fn skip_one(&mut self);
    }
}
use iterator::{DigitsIter, Iter};

// ---- GRD-step ---------------------------------------------------------------------------
pub fn good_step<'a, I: DigitsIter<'a>>(mut it: I) -> u32 {
    let mut n = 0;
    while let Some(&c) = it.peek() {
        n += c as u32;
        unsafe { it.step_unchecked() };
        it.increment_count();
    }
    n
}

pub fn bad_step_unguarded<'a, I: DigitsIter<'a>>(mut it: I, flag: bool) {
    if flag || it.peek().is_some() {
        unsafe { it.step_unchecked() }; // not dominated by a successful peek
    }
}

pub fn bad_step_mutated<'a, I: DigitsIter<'a>>(mut it: I) {
    if it.peek().is_some() {
        it.skip_one(); // may move the cursor between guard and use
        unsafe { it.step_unchecked() };
    }
}

pub fn bad_step_by_too_far<'a, I: DigitsIter<'a>>(mut it: I) {
    if it.peek_u32().is_some() {
        unsafe { it.step_by_unchecked(8) }; // only 4 bytes known
    }
}

pub fn good_step_by<'a, I: DigitsIter<'a>>(mut it: I) {
    if it.peek_u32().is_some() {
        unsafe { it.step_by_unchecked(4) };
    }
}

// ---- tables -----------------------------------------------------------------------------
pub const fn good_table(r: u32) -> (u32, u32) {
    match r {
        6 => (3, 1),
        10 => (5, 1),
        12 => (3, 2),
        _ => (0, 0),
    }
}
pub const fn not_a_table(r: u32) -> u32 {
    r * 2 + 1
}

// ---- ORG-ascii / stores -------------------------------------------------------------------
pub fn bad_store(buf: &mut [u8]) {
    buf[0] = 0xAB;
}
pub fn good_store(buf: &mut [u8]) {
    buf[0] = b'-';
}

// ---- path conditions ----------------------------------------------------------------------
pub fn debug_only_guard(buf: &[u8], i: usize) -> u8 {
    debug_assert!(i < buf.len());
    unsafe { *buf.get_unchecked(i) }
}
pub fn real_guard(buf: &[u8], i: usize) -> u8 {
    assert!(i < buf.len());
    unsafe { *buf.get_unchecked(i) }
}
