// lexfacts: a rustc_private driver that dumps the type-checked program of each
// lexical crate (items, evaluated constants, unoptimised MIR with resolved callees
// and macro back-traces) as one JSON file per crate.  No rule lives here: the
// driver only reports what rustc knows.  See /verif/DESIGN.md §2.1.
#![feature(rustc_private)]
#![allow(clippy::all)]

extern crate rustc_abi;
extern crate rustc_data_structures;
extern crate rustc_driver;
extern crate rustc_hir;
extern crate rustc_interface;
extern crate rustc_middle;
extern crate rustc_span;

mod json;

use json::J;
use rustc_abi::{FieldsShape, Size};
use rustc_driver::{Callbacks, Compilation};
use rustc_hir::def::DefKind;
use rustc_hir::def_id::{DefId, LocalDefId};
use rustc_interface::interface::Compiler;
use rustc_middle::mir::interpret::{AllocId, Allocation, GlobalAlloc, Scalar};
use rustc_middle::mir::{
    self, AggregateKind, BasicBlock, Body, Const, ConstValue, Operand, Place, ProjectionElem,
    Rvalue, StatementKind, TerminatorKind,
};
use rustc_middle::ty::{self, Instance, Ty, TyCtxt, TypingEnv};
use rustc_span::Span;
use std::collections::HashMap;

struct Cb;

impl Callbacks for Cb {
    fn after_analysis<'tcx>(&mut self, _c: &Compiler, tcx: TyCtxt<'tcx>) -> Compilation {
        let name = tcx.crate_name(rustc_hir::def_id::LOCAL_CRATE).to_string();
        let want = std::env::var("LEXFACTS_CRATES").unwrap_or_else(|_| "lexical".to_string());
        if !want.split(',').any(|p| name.starts_with(p)) {
            return Compilation::Continue;
        }
        let out = match std::env::var("LEXFACTS_OUT") {
            Ok(o) => o,
            Err(_) => return Compilation::Continue,
        };
        let j = ty::print::with_resolve_crate_name!(ty::print::with_no_visible_paths!(
            ty::print::with_no_trimmed_paths!(Dumper::new(tcx).dump_crate(&name))
        ));
        let mut s = String::with_capacity(1 << 24);
        j.write(&mut s);
        let path = format!("{}/{}.json", out, name);
        let tmp = format!("{}.tmp{}", path, std::process::id());
        std::fs::write(&tmp, s).expect("write facts");
        std::fs::rename(&tmp, &path).expect("rename facts");
        Compilation::Continue
    }
}

fn main() {
    let mut args: Vec<String> = std::env::args().collect();
    // RUSTC_WORKSPACE_WRAPPER mode: argv[1] is the real rustc; run_compiler drops argv[0].
    if args.len() > 1 && (args[1].ends_with("rustc") || args[1].contains("/rustc")) {
        args.remove(0);
    }
    rustc_driver::run_compiler(&args, &mut Cb);
}

struct Dumper<'tcx> {
    tcx: TyCtxt<'tcx>,
    spans: Vec<J>,
    span_ix: HashMap<Span, usize>,
}

fn jstr(s: impl Into<String>) -> J {
    J::Str(s.into())
}

impl<'tcx> Dumper<'tcx> {
    fn new(tcx: TyCtxt<'tcx>) -> Self {
        Dumper { tcx, spans: Vec::new(), span_ix: HashMap::new() }
    }

    fn dump_crate(&mut self, name: &str) -> J {
        let tcx = self.tcx;
        let mut fns = Vec::new();
        let mut consts = Vec::new();
        for ldid in tcx.hir_body_owners() {
            let did = ldid.to_def_id();
            let kind = tcx.def_kind(did);
            match kind {
                DefKind::Fn | DefKind::AssocFn | DefKind::Closure => {
                    let body = tcx.optimized_mir(did);
                    fns.push(self.dump_body(ldid, kind, body));
                }
                DefKind::Const { .. } | DefKind::AssocConst { .. } | DefKind::Static { .. } => {
                    let mut item = self.item_header(ldid, kind);
                    let generic = tcx.generics_of(did).requires_monomorphization(tcx);
                    let ty = tcx.type_of(did).instantiate_identity().skip_norm_wip();
                    item.push(("ty", jstr(format!("{:?}", ty))));
                    if !generic {
                        let v = self.eval_item(did, kind, ty);
                        item.push(("value", v));
                    } else {
                        item.push(("generic", J::Bool(true)));
                    }
                    // The initialiser body (as built for CTFE) is needed for "which flag
                    // does this associated const read" rules.
                    let body = tcx.mir_for_ctfe(did);
                    let b = self.dump_mir(ldid, body);
                    item.push(("mir", b));
                    consts.push(J::obj(item));
                }
                _ => {}
            }
        }
        // local struct / enum definitions: variant and field names in declaration order
        let mut adts = Vec::new();
        for ldid in tcx.hir_crate_items(()).definitions() {
            let did = ldid.to_def_id();
            if matches!(tcx.def_kind(did), DefKind::Struct | DefKind::Enum | DefKind::Union) {
                let adt = tcx.adt_def(did);
                let mut vs = Vec::new();
                for v in adt.variants().iter() {
                    let fs: Vec<J> = v.fields.iter().map(|f| jstr(f.name.to_string())).collect();
                    vs.push(J::obj(vec![("name", jstr(v.name.to_string())), ("fields", J::Arr(fs))]));
                }
                adts.push(J::obj(vec![("path", jstr(tcx.def_path_str(did))), ("variants", J::Arr(vs))]));
            }
        }
        J::obj(vec![
            ("crate", jstr(name)),
            ("adts", J::Arr(adts)),
            ("fns", J::Arr(fns)),
            ("consts", J::Arr(consts)),
            ("spans", J::Arr(std::mem::take(&mut self.spans))),
        ])
    }

    fn item_header(&mut self, ldid: LocalDefId, kind: DefKind) -> Vec<(&'static str, J)> {
        let tcx = self.tcx;
        let did = ldid.to_def_id();
        let mut v: Vec<(&'static str, J)> = Vec::new();
        v.push(("path", jstr(tcx.def_path_str(did))));
        v.push(("dp", jstr(format!(
            "{}{}",
            tcx.crate_name(did.krate),
            tcx.def_path(did).to_string_no_crate_verbose()
        ))));
        v.push(("kind", jstr(format!("{:?}", kind))));
        let sp = tcx.def_span(did);
        v.push(("span", self.span(sp)));
        if matches!(kind, DefKind::Fn | DefKind::AssocFn) {
            let sig = tcx.fn_sig(did).instantiate_identity().skip_norm_wip();
            v.push(("unsafe", J::Bool(!sig.safety().is_safe())));
            v.push(("const", J::Bool(tcx.is_const_fn(did))));
            v.push(("vis", jstr(format!("{:?}", tcx.visibility(did)))));
            v.push(("sig", jstr(format!("{:?}", sig))));
        }
        // enclosing impl / trait
        let parent = if matches!(kind, DefKind::Closure) {
            tcx.typeck_root_def_id(did)
        } else {
            did
        };
        if matches!(kind, DefKind::Closure) {
            v.push(("closure_of", jstr(tcx.def_path_str(parent))));
        }
        if let Some(p) = tcx.opt_parent(parent) {
            match tcx.def_kind(p) {
                DefKind::Impl { of_trait } => {
                    let self_ty = tcx.type_of(p).instantiate_identity().skip_norm_wip();
                    v.push(("impl_self", jstr(format!("{:?}", self_ty))));
                    if of_trait {
                        let tr = tcx.impl_trait_ref(p).instantiate_identity().skip_norm_wip();
                        v.push(("impl_trait", jstr(tcx.def_path_str(tr.def_id))));
                        v.push(("impl_trait_ref", jstr(format!("{:?}", tr))));
                    }
                }
                DefKind::Trait => {
                    v.push(("in_trait", jstr(tcx.def_path_str(p))));
                }
                _ => {}
            }
        }
        let g = tcx.generics_of(did);
        let mut gs = Vec::new();
        let mut cur = Some(g);
        while let Some(gg) = cur {
            for p in gg.own_params.iter().rev() {
                gs.push(jstr(p.name.to_string()));
            }
            cur = gg.parent.map(|p| tcx.generics_of(p));
        }
        gs.reverse();
        v.push(("generics", J::Arr(gs)));
        v
    }

    fn dump_body(&mut self, ldid: LocalDefId, kind: DefKind, body: &Body<'tcx>) -> J {
        let mut v = self.item_header(ldid, kind);
        v.push(("mir", self.dump_mir(ldid, body)));
        // promoted constants of this body (e.g. `&(-27..=55)`): generic functions cannot have
        // them evaluated, so their (tiny) bodies are dumped instead
        let proms = self.tcx.promoted_mir(ldid.to_def_id());
        if !proms.is_empty() {
            let mut pv = Vec::new();
            for pb in proms.iter() {
                pv.push(self.dump_mir(ldid, pb));
            }
            v.push(("promoted", J::Arr(pv)));
        }
        J::obj(v)
    }

    fn span(&mut self, sp: Span) -> J {
        if let Some(&i) = self.span_ix.get(&sp) {
            return J::Int(i as i128);
        }
        let sm = self.tcx.sess.source_map();
        // innermost location (inside the macro definition if expanded)
        let lo = sm.lookup_char_pos(sp.lo());
        let file = format!("{}", lo.file.name.prefer_local_unconditionally());
        let mut o: Vec<(&'static str, J)> = vec![
            ("f", jstr(file)),
            ("l", J::Int(lo.line as i128)),
        ];
        if sp.from_expansion() {
            let mut chain = Vec::new();
            for ed in sp.macro_backtrace() {
                let n = match ed.kind {
                    rustc_span::ExpnKind::Macro(_, name) => name.to_string(),
                    rustc_span::ExpnKind::Desugaring(d) => format!("desugar:{:?}", d),
                    rustc_span::ExpnKind::AstPass(p) => format!("astpass:{:?}", p),
                    rustc_span::ExpnKind::Root => "root".to_string(),
                };
                chain.push(jstr(n));
            }
            o.push(("m", J::Arr(chain)));
            let cs = sp.source_callsite();
            let clo = sm.lookup_char_pos(cs.lo());
            o.push(("cf", jstr(format!("{}", clo.file.name.prefer_local_unconditionally()))));
            o.push(("cl", J::Int(clo.line as i128)));
        }
        let i = self.spans.len();
        self.spans.push(J::obj(o));
        self.span_ix.insert(sp, i);
        J::Int(i as i128)
    }

    fn dump_mir(&mut self, ldid: LocalDefId, body: &Body<'tcx>) -> J {
        let tcx = self.tcx;
        let env = TypingEnv::post_analysis(tcx, ldid.to_def_id());
        let mut locals = Vec::new();
        for (_l, d) in body.local_decls.iter_enumerated() {
            locals.push(jstr(format!("{:?}", d.ty)));
        }
        // user variable names (debug info) -> helps diagnostics
        let mut names = Vec::new();
        for vdi in body.var_debug_info.iter() {
            if let mir::VarDebugInfoContents::Place(p) = vdi.value {
                if p.projection.is_empty() {
                    names.push(J::Arr(vec![J::Int(p.local.as_usize() as i128), jstr(vdi.name.to_string())]));
                }
            }
        }
        let mut blocks = Vec::new();
        for (_bb, data) in body.basic_blocks.iter_enumerated() {
            let mut stmts = Vec::new();
            for st in data.statements.iter() {
                let sp = st.source_info.span;
                match &st.kind {
                    StatementKind::Assign(b) => {
                        let (pl, rv) = &**b;
                        let s = self.span(sp);
                        stmts.push(J::Arr(vec![
                            jstr("="),
                            self.place(pl),
                            self.rvalue(rv, env, body),
                            s,
                        ]));
                    }
                    StatementKind::SetDiscriminant { place, variant_index } => {
                        let s = self.span(sp);
                        stmts.push(J::Arr(vec![
                            jstr("setdisc"),
                            self.place(place),
                            J::Int(variant_index.as_usize() as i128),
                            s,
                        ]));
                    }
                    StatementKind::Intrinsic(i) => {
                        let s = self.span(sp);
                        let d = match &**i {
                            mir::NonDivergingIntrinsic::Assume(op) => {
                                J::Arr(vec![jstr("assume"), self.operand(op, env)])
                            }
                            mir::NonDivergingIntrinsic::CopyNonOverlapping(c) => J::Arr(vec![
                                jstr("copy_nonoverlapping"),
                                self.operand(&c.src, env),
                                self.operand(&c.dst, env),
                                self.operand(&c.count, env),
                            ]),
                        };
                        stmts.push(J::Arr(vec![jstr("intrinsic"), d, J::Null, s]));
                    }
                    _ => {}
                }
            }
            let term = data.terminator();
            let tsp = self.span(term.source_info.span);
            let t = self.terminator(&term.kind, env, body);
            blocks.push(J::obj(vec![
                ("s", J::Arr(stmts)),
                ("t", t),
                ("ts", tsp),
                ("cleanup", J::Bool(data.is_cleanup)),
            ]));
        }
        J::obj(vec![
            ("argc", J::Int(body.arg_count as i128)),
            ("locals", J::Arr(locals)),
            ("names", J::Arr(names)),
            ("blocks", J::Arr(blocks)),
        ])
    }

    fn place(&mut self, p: &Place<'tcx>) -> J {
        let mut proj = Vec::new();
        for e in p.projection.iter() {
            proj.push(match e {
                ProjectionElem::Deref => jstr("*"),
                ProjectionElem::Field(f, _) => J::Int(f.as_usize() as i128),
                ProjectionElem::Index(l) => J::Arr(vec![jstr("idx"), J::Int(l.as_usize() as i128)]),
                ProjectionElem::ConstantIndex { offset, min_length, from_end } => J::Arr(vec![
                    jstr("cidx"),
                    J::Int(offset as i128),
                    J::Int(min_length as i128),
                    J::Bool(from_end),
                ]),
                ProjectionElem::Subslice { from, to, from_end } => J::Arr(vec![
                    jstr("sub"),
                    J::Int(from as i128),
                    J::Int(to as i128),
                    J::Bool(from_end),
                ]),
                ProjectionElem::Downcast(_, v) => J::Arr(vec![jstr("as"), J::Int(v.as_usize() as i128)]),
                ProjectionElem::OpaqueCast(_) => jstr("opaque"),
                ProjectionElem::UnwrapUnsafeBinder(_) => jstr("unwrap_binder"),
            });
        }
        J::Arr(vec![J::Int(p.local.as_usize() as i128), J::Arr(proj)])
    }

    fn operand(&mut self, op: &Operand<'tcx>, env: TypingEnv<'tcx>) -> J {
        match op {
            Operand::Copy(p) => J::Arr(vec![jstr("cp"), self.place(p)]),
            Operand::Move(p) => J::Arr(vec![jstr("mv"), self.place(p)]),
            Operand::Constant(c) => J::Arr(vec![jstr("k"), self.mir_const(&c.const_, env, c.span)]),
            Operand::RuntimeChecks(rc) => J::Arr(vec![jstr("rtc"), jstr(format!("{:?}", rc))]),
        }
    }

    fn mir_const(&mut self, c: &Const<'tcx>, env: TypingEnv<'tcx>, span: Span) -> J {
        let tcx = self.tcx;
        let ty = c.ty();
        let mut o: Vec<(&'static str, J)> = vec![("ty", jstr(format!("{:?}", ty)))];
        if let ty::FnDef(did, args) = ty.kind() {
            o.push(("fn", jstr(tcx.def_path_str(*did))));
            o.push(("args", jstr(format!("{:?}", args))));
            return J::obj(o);
        }
        match c {
            Const::Unevaluated(u, _) => {
                o.push(("uneval", jstr(tcx.def_path_str(u.def))));
                o.push(("uargs", jstr(format!("{:?}", u.args))));
                if let Some(p) = u.promoted {
                    o.push(("promoted", J::Int(p.as_usize() as i128)));
                }
            }
            Const::Ty(_, tc) => {
                if let ty::ConstKind::Param(p) = tc.kind() {
                    o.push(("param", jstr(p.name.to_string())));
                }
            }
            Const::Val(..) => {}
        }
        // try evaluating (fails with TooGeneric for FORMAT-dependent constants: expected)
        let generic = match c {
            Const::Unevaluated(u, _) => {
                u.args.iter().any(|a| ty::TypeVisitableExt::has_non_region_param(&a))
                    || (u.promoted.is_some()
                        && tcx.generics_of(u.def).requires_monomorphization(tcx))
            }
            Const::Ty(_, tc) => ty::TypeVisitableExt::has_non_region_param(tc),
            Const::Val(..) => false,
        };
        if !generic {
            if let Ok(v) = c.eval(tcx, env, span) {
                let jv = self.const_value(v, ty, 0);
                o.push(("v", jv));
            }
        }
        J::obj(o)
    }

    fn eval_item(&mut self, did: DefId, kind: DefKind, ty: Ty<'tcx>) -> J {
        let tcx = self.tcx;
        match kind {
            DefKind::Static { .. } => match tcx.eval_static_initializer(did) {
                Ok(alloc) => self.decode(ty, alloc.inner(), 0, 0),
                Err(_) => J::Null,
            },
            _ => match tcx.const_eval_poly(did) {
                Ok(v) => self.const_value(v, ty, 0),
                Err(_) => J::Null,
            },
        }
    }

    fn const_value(&mut self, v: ConstValue, ty: Ty<'tcx>, depth: usize) -> J {
        let tcx = self.tcx;
        match v {
            ConstValue::Scalar(Scalar::Int(si)) => self.scalar_int(si.to_bits(si.size()), si.size(), ty),
            ConstValue::Scalar(Scalar::Ptr(ptr, _)) => {
                let (prov, off) = ptr.into_raw_parts();
                self.pointer(prov.alloc_id(), off.bytes(), ty, None, depth)
            }
            ConstValue::ZeroSized => J::obj(vec![("zst", jstr(format!("{:?}", ty)))]),
            ConstValue::Slice { alloc_id, meta } => {
                self.pointer(alloc_id, 0, ty, Some(meta), depth)
            }
            ConstValue::Indirect { alloc_id, offset } => match tcx.global_alloc(alloc_id) {
                GlobalAlloc::Memory(m) => self.decode(ty, m.inner(), offset.bytes() as usize, depth),
                GlobalAlloc::Static(d) => J::obj(vec![("static", jstr(tcx.def_path_str(d)))]),
                _ => J::Null,
            },
        }
    }

    fn scalar_int(&mut self, bits: u128, size: Size, ty: Ty<'tcx>) -> J {
        match ty.kind() {
            ty::Bool => J::Bool(bits != 0),
            ty::Int(_) => J::Int(size.sign_extend(bits) as i128),
            ty::Uint(_) | ty::Char => J::UInt(bits),
            ty::Float(_) => J::obj(vec![("fbits", J::UInt(bits)), ("w", J::Int(size.bits() as i128))]),
            _ => J::obj(vec![("bits", J::UInt(bits)), ("w", J::Int(size.bits() as i128))]),
        }
    }

    /// A pointer value of type `ty` (a reference / raw pointer) into `alloc_id` at `off`.
    fn pointer(&mut self, alloc_id: AllocId, off: u64, ty: Ty<'tcx>, meta: Option<u64>, depth: usize) -> J {
        let tcx = self.tcx;
        let pointee = match ty.kind() {
            ty::Ref(_, t, _) => Some(*t),
            ty::RawPtr(t, _) => Some(*t),
            _ => None,
        };
        match tcx.try_get_global_alloc(alloc_id) {
            Some(GlobalAlloc::Static(d)) => {
                let mut o = vec![("static", jstr(tcx.def_path_str(d)))];
                if off != 0 {
                    o.push(("off", J::Int(off as i128)));
                }
                if let Some(m) = meta {
                    o.push(("len", J::Int(m as i128)));
                }
                J::obj(o)
            }
            Some(GlobalAlloc::Function { instance }) => {
                J::obj(vec![("fnptr", jstr(tcx.def_path_str(instance.def_id())))])
            }
            Some(GlobalAlloc::Memory(m)) => {
                if depth > 6 {
                    return J::Null;
                }
                let Some(pt) = pointee else { return J::Null };
                let a = m.inner();
                match pt.kind() {
                    ty::Str => {
                        let n = meta.unwrap_or(0) as usize;
                        let b = a.inspect_with_uninit_and_ptr_outside_interpreter(off as usize..off as usize + n);
                        J::obj(vec![("str", jstr(String::from_utf8_lossy(b).to_string()))])
                    }
                    ty::Slice(et) => {
                        let n = meta.unwrap_or(0) as usize;
                        let inner = self.decode_seq(*et, n, a, off as usize, depth + 1);
                        J::obj(vec![("ref", inner)])
                    }
                    _ => {
                        let inner = self.decode(pt, a, off as usize, depth + 1);
                        J::obj(vec![("ref", inner)])
                    }
                }
            }
            _ => J::Null,
        }
    }

    fn decode_seq(&mut self, et: Ty<'tcx>, n: usize, a: &Allocation, off: usize, depth: usize) -> J {
        let tcx = self.tcx;
        let env = TypingEnv::fully_monomorphized();
        let Ok(el) = tcx.layout_of(env.as_query_input(et)) else { return J::Null };
        let stride = el.size.bytes() as usize;
        let mut v = Vec::with_capacity(n);
        for i in 0..n {
            v.push(self.decode(et, a, off + i * stride, depth));
        }
        J::Arr(v)
    }

    /// Decode a value of type `ty` stored in `a` at byte offset `off`.
    fn decode(&mut self, ty: Ty<'tcx>, a: &Allocation, off: usize, depth: usize) -> J {
        let tcx = self.tcx;
        let env = TypingEnv::fully_monomorphized();
        let Ok(layout) = tcx.layout_of(env.as_query_input(ty)) else { return J::Null };
        let size = layout.size.bytes() as usize;
        if off + size > a.len() {
            return J::Null;
        }
        let read = |a: &Allocation, off: usize, n: usize| -> u128 {
            let b = a.inspect_with_uninit_and_ptr_outside_interpreter(off..off + n);
            let mut x: u128 = 0;
            for (i, byte) in b.iter().enumerate() {
                x |= (*byte as u128) << (8 * i);
            }
            x
        };
        match ty.kind() {
            ty::Bool | ty::Int(_) | ty::Uint(_) | ty::Char | ty::Float(_) => {
                let bits = read(a, off, size);
                self.scalar_int(bits, Size::from_bytes(size as u64), ty)
            }
            ty::Array(et, _) => {
                let n = match &layout.fields {
                    FieldsShape::Array { count, .. } => *count as usize,
                    _ => 0,
                };
                self.decode_seq(*et, n, a, off, depth)
            }
            ty::Tuple(tys) => {
                let mut v = Vec::new();
                for (i, t) in tys.iter().enumerate() {
                    let fo = layout.fields.offset(i).bytes() as usize;
                    v.push(self.decode(t, a, off + fo, depth));
                }
                J::Arr(v)
            }
            ty::Ref(..) | ty::RawPtr(..) => {
                let psz = tcx.data_layout.pointer_size().bytes() as usize;
                let prov = a.provenance().ptrs().get(&Size::from_bytes(off as u64)).copied();
                let addr = read(a, off, psz) as u64;
                let meta = if size > psz { Some(read(a, off + psz, psz) as u64) } else { None };
                match prov {
                    Some(p) => self.pointer(p.alloc_id(), addr, ty, meta, depth),
                    None => J::obj(vec![("rawaddr", J::UInt(addr as u128))]),
                }
            }
            ty::Adt(def, args) if def.is_struct() => {
                let mut fields = Vec::new();
                let variant = def.non_enum_variant();
                for (i, f) in variant.fields.iter().enumerate() {
                    let ft = f.ty(tcx, args);
                    let ft = tcx.normalize_erasing_regions(env, ty::Unnormalized::new_wip(ft));
                    let fo = layout.fields.offset(i).bytes() as usize;
                    fields.push(J::Arr(vec![jstr(f.name.to_string()), self.decode(ft, a, off + fo, depth)]));
                }
                J::obj(vec![("struct", jstr(tcx.def_path_str(def.did()))), ("fields", J::Arr(fields))])
            }
            _ => {
                // enums, unions, fn pointers...: raw bytes (hex) so that equality rules still work
                let b = a.inspect_with_uninit_and_ptr_outside_interpreter(off..off + size);
                let hex: String = b.iter().map(|x| format!("{:02x}", x)).collect();
                J::obj(vec![("raw", jstr(hex)), ("ty", jstr(format!("{:?}", ty)))])
            }
        }
    }

    fn rvalue(&mut self, rv: &Rvalue<'tcx>, env: TypingEnv<'tcx>, body: &Body<'tcx>) -> J {
        let tcx = self.tcx;
        match rv {
            Rvalue::Use(op, _) => J::Arr(vec![jstr("use"), self.operand(op, env)]),
            Rvalue::Repeat(op, n) => {
                J::Arr(vec![jstr("repeat"), self.operand(op, env), jstr(format!("{:?}", n))])
            }
            Rvalue::Ref(_, bk, p) => {
                let k = match bk {
                    mir::BorrowKind::Shared => "shared",
                    mir::BorrowKind::Fake(_) => "fake",
                    mir::BorrowKind::Mut { .. } => "mut",
                };
                J::Arr(vec![jstr("ref"), jstr(k), self.place(p)])
            }
            Rvalue::RawPtr(k, p) => J::Arr(vec![jstr("rawptr"), jstr(format!("{:?}", k)), self.place(p)]),
            Rvalue::Cast(k, op, ty) => J::Arr(vec![
                jstr("cast"),
                jstr(format!("{:?}", k)),
                self.operand(op, env),
                jstr(format!("{:?}", ty)),
            ]),
            Rvalue::BinaryOp(op, b) => {
                let (l, r) = &**b;
                J::Arr(vec![jstr("bin"), jstr(format!("{:?}", op)), self.operand(l, env), self.operand(r, env)])
            }
            Rvalue::UnaryOp(op, o) => J::Arr(vec![jstr("un"), jstr(format!("{:?}", op)), self.operand(o, env)]),
            Rvalue::Discriminant(p) => J::Arr(vec![jstr("discr"), self.place(p)]),
            Rvalue::Aggregate(k, ops) => {
                let kd = match &**k {
                    AggregateKind::Array(t) => J::Arr(vec![jstr("array"), jstr(format!("{:?}", t))]),
                    AggregateKind::Tuple => J::Arr(vec![jstr("tuple")]),
                    AggregateKind::Adt(d, v, _, _, _) => {
                        let adt = tcx.adt_def(*d);
                        let vn = adt.variant(*v).name.to_string();
                        J::Arr(vec![jstr("adt"), jstr(tcx.def_path_str(*d)), J::Int(v.as_usize() as i128), jstr(vn)])
                    }
                    AggregateKind::Closure(d, _) => J::Arr(vec![jstr("closure"), jstr(tcx.def_path_str(*d))]),
                    AggregateKind::RawPtr(t, _) => J::Arr(vec![jstr("rawptr"), jstr(format!("{:?}", t))]),
                    _ => J::Arr(vec![jstr("other")]),
                };
                let mut v = Vec::new();
                for o in ops.iter() {
                    v.push(self.operand(o, env));
                }
                J::Arr(vec![jstr("agg"), kd, J::Arr(v)])
            }
            Rvalue::CopyForDeref(p) => J::Arr(vec![jstr("use"), J::Arr(vec![jstr("cp"), self.place(p)])]),
            Rvalue::ThreadLocalRef(d) => J::Arr(vec![jstr("tls"), jstr(tcx.def_path_str(*d))]),
            Rvalue::WrapUnsafeBinder(op, _) => J::Arr(vec![jstr("use"), self.operand(op, env)]),
        }
        .tap(|_| {
            let _ = body;
        })
    }

    fn callee(&mut self, func: &Operand<'tcx>, env: TypingEnv<'tcx>, body: &Body<'tcx>) -> J {
        let tcx = self.tcx;
        let fty = func.ty(&body.local_decls, tcx);
        if let ty::FnDef(did, args) = fty.kind() {
            let did = *did;
            let mut o: Vec<(&'static str, J)> = vec![
                ("fn", jstr(tcx.def_path_str(did))),
                ("args", jstr(format!("{:?}", args))),
            ];
            let sig = tcx.fn_sig(did).instantiate_identity().skip_norm_wip();
            o.push(("unsafe", J::Bool(!sig.safety().is_safe())));
            o.push(("krate", jstr(tcx.crate_name(did.krate).to_string())));
            // const generic arguments with known values (MASK/SHIFT pairs, SIZE, ...)
            let mut cargs = Vec::new();
            for a in args.iter() {
                if let Some(c) = a.as_const() {
                    match c.kind() {
                        ty::ConstKind::Value(v) => {
                            if let Some(si) = v.try_to_leaf() {
                                cargs.push(J::UInt(si.to_bits(si.size())));
                            } else {
                                cargs.push(jstr(format!("{:?}", c)));
                            }
                        }
                        _ => cargs.push(jstr(format!("{:?}", c))),
                    }
                }
            }
            if !cargs.is_empty() {
                o.push(("cargs", J::Arr(cargs)));
            }
            let mut targs = Vec::new();
            for a in args.iter() {
                if let Some(t) = a.as_type() {
                    targs.push(jstr(format!("{:?}", t)));
                }
            }
            if !targs.is_empty() {
                o.push(("targs", J::Arr(targs)));
            }
            if let Some(tr) = tcx.trait_of_assoc(did) {
                o.push(("trait", jstr(tcx.def_path_str(tr))));
                // try to resolve to the implementing item
                if let Ok(Some(inst)) = Instance::try_resolve(tcx, env, did, args) {
                    let rd = inst.def_id();
                    if rd != did {
                        o.push(("resolved", jstr(tcx.def_path_str(rd))));
                        o.push(("resolved_args", jstr(format!("{:?}", inst.args))));
                    }
                }
            } else if let Some(imp) = tcx.opt_parent(did) {
                if let DefKind::Impl { .. } = tcx.def_kind(imp) {
                    let st = tcx.type_of(imp).instantiate_identity().skip_norm_wip();
                    o.push(("impl_self", jstr(format!("{:?}", st))));
                }
            }
            J::obj(o)
        } else {
            J::obj(vec![("indirect", self.operand(func, env)), ("ty", jstr(format!("{:?}", fty)))])
        }
    }

    fn bb(b: BasicBlock) -> J {
        J::Int(b.as_usize() as i128)
    }

    fn terminator(&mut self, k: &TerminatorKind<'tcx>, env: TypingEnv<'tcx>, body: &Body<'tcx>) -> J {
        match k {
            TerminatorKind::Goto { target } => J::obj(vec![("k", jstr("goto")), ("to", Self::bb(*target))]),
            TerminatorKind::SwitchInt { discr, targets } => {
                let mut vs = Vec::new();
                for (v, t) in targets.iter() {
                    vs.push(J::Arr(vec![J::UInt(v), Self::bb(t)]));
                }
                J::obj(vec![
                    ("k", jstr("switch")),
                    ("d", self.operand(discr, env)),
                    ("dty", jstr(format!("{:?}", discr.ty(&body.local_decls, self.tcx)))),
                    ("v", J::Arr(vs)),
                    ("else", Self::bb(targets.otherwise())),
                ])
            }
            TerminatorKind::Return => J::obj(vec![("k", jstr("return"))]),
            TerminatorKind::Unreachable => J::obj(vec![("k", jstr("unreachable"))]),
            TerminatorKind::UnwindResume => J::obj(vec![("k", jstr("resume"))]),
            TerminatorKind::UnwindTerminate(_) => J::obj(vec![("k", jstr("terminate"))]),
            TerminatorKind::Drop { place, target, .. } => J::obj(vec![
                ("k", jstr("drop")),
                ("p", self.place(place)),
                ("to", Self::bb(*target)),
            ]),
            TerminatorKind::Call { func, args, destination, target, .. } => {
                let mut a = Vec::new();
                for x in args.iter() {
                    a.push(self.operand(&x.node, env));
                }
                let mut o = vec![
                    ("k", jstr("call")),
                    ("f", self.callee(func, env, body)),
                    ("a", J::Arr(a)),
                    ("dest", self.place(destination)),
                ];
                if let Some(t) = target {
                    o.push(("to", Self::bb(*t)));
                }
                J::obj(o)
            }
            TerminatorKind::TailCall { func, args, .. } => {
                let mut a = Vec::new();
                for x in args.iter() {
                    a.push(self.operand(&x.node, env));
                }
                J::obj(vec![("k", jstr("tailcall")), ("f", self.callee(func, env, body)), ("a", J::Arr(a))])
            }
            TerminatorKind::Assert { cond, expected, msg, target, .. } => {
                let mk = format!("{:?}", msg);
                let mk = mk.split(|c: char| !c.is_alphanumeric()).next().unwrap_or("").to_string();
                J::obj(vec![
                    ("k", jstr("assert")),
                    ("c", self.operand(cond, env)),
                    ("exp", J::Bool(*expected)),
                    ("msg", jstr(mk)),
                    ("to", Self::bb(*target)),
                ])
            }
            TerminatorKind::FalseEdge { real_target, .. } => {
                J::obj(vec![("k", jstr("goto")), ("to", Self::bb(*real_target))])
            }
            TerminatorKind::FalseUnwind { real_target, .. } => {
                J::obj(vec![("k", jstr("goto")), ("to", Self::bb(*real_target))])
            }
            _ => J::obj(vec![("k", jstr("other"))]),
        }
    }
}

trait Tap: Sized {
    fn tap(self, f: impl FnOnce(&Self)) -> Self {
        f(&self);
        self
    }
}
impl Tap for J {}
