// Minimal JSON value + serializer (the driver has no Cargo dependencies).
pub enum J {
    Null,
    Bool(bool),
    Int(i128),
    UInt(u128),
    Str(String),
    Arr(Vec<J>),
    Obj(Vec<(&'static str, J)>),
}

impl J {
    pub fn obj(v: Vec<(&'static str, J)>) -> J {
        J::Obj(v)
    }

    pub fn write(&self, out: &mut String) {
        use std::fmt::Write;
        match self {
            J::Null => out.push_str("null"),
            J::Bool(b) => out.push_str(if *b { "true" } else { "false" }),
            J::Int(i) => {
                let _ = write!(out, "{}", i);
            }
            J::UInt(u) => {
                let _ = write!(out, "{}", u);
            }
            J::Str(s) => write_str(s, out),
            J::Arr(v) => {
                out.push('[');
                for (i, x) in v.iter().enumerate() {
                    if i > 0 {
                        out.push(',');
                    }
                    x.write(out);
                }
                out.push(']');
            }
            J::Obj(v) => {
                out.push('{');
                for (i, (k, x)) in v.iter().enumerate() {
                    if i > 0 {
                        out.push(',');
                    }
                    write_str(k, out);
                    out.push(':');
                    x.write(out);
                }
                out.push('}');
            }
        }
    }
}

fn write_str(s: &str, out: &mut String) {
    use std::fmt::Write;
    out.push('"');
    for c in s.chars() {
        match c {
            '"' => out.push_str("\\\""),
            '\\' => out.push_str("\\\\"),
            '\n' => out.push_str("\\n"),
            '\r' => out.push_str("\\r"),
            '\t' => out.push_str("\\t"),
            c if (c as u32) < 0x20 => {
                let _ = write!(out, "\\u{:04x}", c as u32);
            }
            c => out.push(c),
        }
    }
    out.push('"');
}
