#!/bin/bash
# MANIFEST.setup_cmd: build the fact extractor offline and self-test the rule engine on the fixtures.
set -euo pipefail
cd "$(dirname "$0")/.."
export CARGO_NET_OFFLINE=true
(cd driver && cargo build --release --offline 2>&1 | tail -3)
test -x driver/target/release/lexfacts
mkdir -p cache evidence
if [ -x bin/selftest ]; then bin/selftest; fi
echo "setup ok"
