#!/bin/bash
# usage: extract.sh <repo> <outdir> <features-or-"-"> [extra cargo args]
# Runs the lexfacts driver over the lexical workspace under one feature configuration.
set -euo pipefail
REPO=$1; OUT=$2; FEAT=$3; shift 3
DRV=/verif/driver/target/release/lexfacts
[ -x "$DRV" ] || { echo "driver not built: run MANIFEST.setup_cmd" >&2; exit 2; }
mkdir -p "$OUT"
T=$(mktemp -d /var/tmp/lexfacts-target.XXXXXX)
trap 'rm -rf "$T"' EXIT
FA=()
if [ "$FEAT" != "-" ]; then FA=(--features "$FEAT"); fi
cd "$REPO"
LEXFACTS_OUT="$OUT" LD_LIBRARY_PATH="$(rustc +nightly --print sysroot)/lib" \
 RUSTFLAGS="-Zmir-opt-level=0 -Awarnings" RUSTC_WORKSPACE_WRAPPER="$DRV" CARGO_NET_OFFLINE=true \
 CARGO_TARGET_DIR="$T" cargo +nightly check --offline -q -p lexical "${FA[@]}" "$@" 2>"$OUT/cargo.stderr" || { cat "$OUT/cargo.stderr" >&2; exit 3; }
