#!/usr/bin/env python3
"""tools/seed_eval.py <ID> <N> [--skip-confirm]
Takes a property-breaking change written by an independent sub-agent in its scratch worktree
/tmp/seed/<ID>/seed_out/<N>/, (1) confirms in that worktree that it applies, that the demonstration
fails with it and passes without it, and that the existing test suite still passes with it;
(2) runs every claimed check against a scratch copy of /repo with the change applied; (3) stores
patch, demonstration and meta.json under /verif/seeded/<ID>-<N>/."""
import json, os, shutil, subprocess, sys, tempfile, re

V = os.path.dirname(os.path.dirname(os.path.abspath(__file__)))

def sh(cmd, cwd=None, timeout=3000, env=None):
    r = subprocess.run(cmd, cwd=cwd, shell=isinstance(cmd, str), capture_output=True, text=True, timeout=timeout, env=env)
    return r.returncode, (r.stdout + r.stderr)

def main():
    pid, n = sys.argv[1], sys.argv[2]
    skip = "--skip-confirm" in sys.argv
    wt = "/tmp/seed/%s" % pid
    src = os.path.join(wt, "seed_out", n)
    patch = os.path.join(src, "patch.diff")
    meta_in = {}
    try:
        meta_in = json.load(open(os.path.join(src, "meta.json")))
    except Exception as e:
        meta_in = {"error": "meta.json unreadable: %s" % e}
    rnd = os.environ.get("SEED_ROUND", "")
    tag = "%s-%s%s" % (pid, (rnd + "-") if rnd else "", n)
    out = os.path.join(V, "seeded", tag)
    os.makedirs(out, exist_ok=True)
    shutil.copy(patch, os.path.join(out, "patch.diff"))
    for f in ("demo.rs",):
        if os.path.exists(os.path.join(src, f)):
            shutil.copy(os.path.join(src, f), os.path.join(out, f))
    demo_dir = os.path.join(src, "demo")
    if os.path.isdir(demo_dir):
        os.makedirs(os.path.join(out, "demo", "src"), exist_ok=True)
        for f in ("Cargo.toml",):
            if os.path.exists(os.path.join(demo_dir, f)):
                shutil.copy(os.path.join(demo_dir, f), os.path.join(out, "demo", f))
        if os.path.exists(os.path.join(demo_dir, "src", "main.rs")):
            shutil.copy(os.path.join(demo_dir, "src", "main.rs"), os.path.join(out, "demo", "src", "main.rs"))
    confirm = {}
    first_round = None
    if skip:
        # keep what an earlier full run established (confirmation in the agent's worktree; which checks
        # reported the change *before* any rule was strengthened because of it)
        log = "/var/tmp/seedlogs/%s.log" % tag
        try:
            t = open(log).read()
            d0 = json.loads(t[t.index("{"):])
            confirm = d0.get("confirm", {})
            first_round = d0.get("detected_by")
        except Exception:
            pass
        try:
            old = json.load(open(os.path.join(out, "meta.json")))
            if old.get("confirmed_by_me"):
                confirm = old["confirmed_by_me"]
            if old.get("first_round_checks_that_reported_it") is not None:
                first_round = old["first_round_checks_that_reported_it"]
        except Exception:
            pass
    if not skip:
        sh("git checkout -- . ", cwd=wt)
        rc, o = sh(["git", "apply", "--check", patch], cwd=wt)
        confirm["applies"] = rc == 0
        release = "--release" in (meta_in.get("demo_cmd") or "")
        run = "cargo run --offline -q" + (" --release" if release else "")
        if os.path.isdir(demo_dir):
            sh(["git", "apply", patch], cwd=wt)
            rc1, o1 = sh(run, cwd=demo_dir)
            rct, ot = sh("cargo test --workspace --no-fail-fast --offline 2>&1 | grep -E '^test result' | awk '{p+=$4; f+=$6} END {print p, f}'", cwd=wt)
            sh("git checkout -- .", cwd=wt)
            rc0, o0 = sh(run, cwd=demo_dir)
            confirm.update({"demo_cmd": run, "demo_exit_with_change": rc1, "demo_tail_with_change": o1[-400:],
                            "demo_exit_without_change": rc0, "demo_tail_without_change": o0[-200:],
                            "existing_tests_with_change(passed failed)": ot.strip()})
            shutil.rmtree(os.path.join(demo_dir, "target"), ignore_errors=True)
        else:
            confirm["demo"] = "no demo/ project; see meta"
    # run all claimed checks on a scratch copy with the change
    man = json.load(open(os.path.join(V, "MANIFEST.json")))
    props = [c["property_id"] for c in man["checks"]]
    d = tempfile.mkdtemp(prefix="lexmut-", dir="/var/tmp")
    results = {}
    try:
        subprocess.check_call(["rsync", "-a", "--exclude", "target", "--exclude", ".git", "/repo/", d + "/"])
        rc, o = sh(["patch", "-p1", "-s", "-d", d, "-i", patch])
        if rc != 0:
            results["error"] = "patch does not apply to /repo HEAD: " + o[-300:]
        else:
            for p in props:
                rc, o = sh([os.path.join(V, "bin", "check"), p, "--repo", d, "--no-evidence"])
                finds = re.findall(r"^finding: (.*)$", o, re.M)
                if rc != 0:
                    results[p] = finds or ["exit %d" % rc]
    finally:
        shutil.rmtree(d, ignore_errors=True)
    if first_round is None:
        first_round = results
    meta = {"property": pid, "seed": n, "from_agent": meta_in, "confirmed_by_me": confirm,
            "first_round_checks_that_reported_it": first_round,
            "checks_that_report_it": results,
            "detected": bool(results) and "error" not in results,
            "detected_by_own_property": pid in results}
    json.dump(meta, open(os.path.join(out, "meta.json"), "w"), indent=1)
    print(json.dumps({"seed": tag, "confirm": {k: v for k, v in confirm.items() if "tail" not in k}, "detected_by": results}, indent=1)[:3000])

main()
