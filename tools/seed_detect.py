#!/usr/bin/env python3
"""tools/seed_detect.py <verif-root> <out.json> <tag>...
Runs every claimed check of the machinery at <verif-root> against a scratch copy of /repo with the seeded
change /verif/seeded/<tag>/patch.diff applied; writes {tag: {property: [findings]}}."""
import json, os, re, shutil, subprocess, sys, tempfile

def main():
    root, outp, tags = sys.argv[1], sys.argv[2], sys.argv[3:]
    man = json.load(open(os.path.join(root, "MANIFEST.json")))
    props = [c["property_id"] for c in man["checks"]]
    out = {}
    if os.path.exists(outp):
        out = json.load(open(outp))
    for tag in tags:
        if tag in out:
            continue
        patch = os.path.join("/verif/seeded", tag, "patch.diff")
        if os.environ.get("SEED_AS_WRITTEN") == "1" and os.path.exists(os.path.join("/verif/seeded", tag, "patch.as_written.diff")):
            patch = os.path.join("/verif/seeded", tag, "patch.as_written.diff")     # baseline runs use the agent's commit
        d = tempfile.mkdtemp(prefix="lexmut-", dir="/var/tmp")
        res = {}
        try:
            subprocess.check_call(["rsync", "-a", "--exclude", "target", "--exclude", ".git", os.environ.get("SEED_REPO_ROOT", "/repo").rstrip("/") + "/", d + "/"])
            r = subprocess.run(["patch", "-p1", "-s", "-d", d, "-i", patch], capture_output=True, text=True)
            if r.returncode != 0:
                res["error"] = "patch does not apply: " + (r.stdout + r.stderr)[-300:]
            else:
                for p in props:
                    r = subprocess.run([os.path.join(root, "bin", "check"), p, "--repo", d, "--no-evidence"], capture_output=True, text=True)
                    finds = re.findall(r"^finding: (.*)$", r.stdout, re.M)
                    if r.returncode != 0:
                        res[p] = finds or ["exit %d" % r.returncode]
        finally:
            shutil.rmtree(d, ignore_errors=True)
        out[tag] = res
        json.dump(out, open(outp, "w"), indent=1)
        print(tag, sorted(res.keys()), flush=True)

main()
