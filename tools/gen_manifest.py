#!/usr/bin/env python3
"""Regenerates /verif/MANIFEST.json from the table below (one place to keep it consistent)."""
import json, os
V = os.path.dirname(os.path.dirname(os.path.abspath(__file__)))

CLAIMED = {
    # id: (technique, level text, note, design_ref)
}
NA = {}

def load():
    import importlib.util
    spec = importlib.util.spec_from_file_location("claims", os.path.join(V, "tools", "claims.py"))
    m = importlib.util.module_from_spec(spec); spec.loader.exec_module(m)
    return m

def main():
    m = load()
    checks = []
    for pid in sorted(m.CLAIMED):
        c = m.CLAIMED[pid]
        checks.append({
            "property_id": pid,
            "quick_cmd": "bin/check %s --tier quick" % pid,
            "thorough_cmd": "bin/check %s --tier thorough" % pid,
            "evidence_file": "/verif/evidence/%s.json" % pid,
            "replay_cmd_template": "bin/check %s --tier thorough   # finding recorded in {path}" % pid,
            "engine": "lexfacts+rules",
            "level_claimed": {"category": "other", "text": c["level"], "design_ref": c["ref"]},
            "level_note": c["note"],
            "technique": c["technique"],
        })
    man = {
        "version": 1,
        "setup_cmd": "bin/setup.sh",
        "hooks": {
            "guard": "none (the analysis reads the type-checked program; no hooks in /repo)",
            "enable": "not applicable: checks run `cargo +nightly check` on /repo's working tree through the lexfacts RUSTC_WORKSPACE_WRAPPER; no cfg flag is needed",
            "baseline_off_cmd": "cd /repo && cargo test --workspace --no-fail-fast --offline",
            "source_commits": [],
            "add_only": True,
        },
        "engines": [
            {"name": "lexfacts", "path": "driver/", "serves_properties": sorted(m.CLAIMED),
             "kind_free_text": "rustc_private driver (nightly) dumping items, evaluated constants and unoptimised MIR with resolved callees and macro back-traces for every feature configuration"},
            {"name": "oracle", "path": "oracle/", "serves_properties": [p for p in sorted(m.CLAIMED) if m.CLAIMED[p].get("oracle")],
             "kind_free_text": "exact integer/rational definitions of every embedded table and limit (Python stdlib)"},
            {"name": "rules", "path": "rules/", "serves_properties": sorted(m.CLAIMED),
             "kind_free_text": "CFG / dominance / pairing / sibling / origin rules over the extracted facts (Python stdlib)"},
        ],
        "checks": checks,
        "not_applicable": [{"property_id": p, "reason": r} for p, r in sorted(m.NOT_APPLICABLE.items())],
        "notes": "Technique family: static analysis. Every verdict is derived from /repo's current source (type-checked MIR and compiler-evaluated constants) on every run; nothing executes lexical. See DESIGN.md.",
    }
    with open(os.path.join(V, "MANIFEST.json"), "w") as fh:
        json.dump(man, fh, indent=1)
    print("wrote MANIFEST.json with %d checks, %d not applicable" % (len(checks), len(man["not_applicable"])))

if __name__ == "__main__":
    main()
