#!/usr/bin/env python3
"""tools/seed_round.py <ID>...  : create a scratch worktree /tmp/seed/<ID> of /repo HEAD and write the prompt
/tmp/seed/<ID>.prompt.txt (property text only + summaries of changes earlier reviewers already tried)."""
import json, os, subprocess, sys, glob
V = os.path.dirname(os.path.dirname(os.path.abspath(__file__)))
tmpl = open(os.path.join(V, "tools", "seed_prompt.tmpl")).read()
props = {json.loads(l)["id"]: json.loads(l) for l in open(os.path.join(V, "properties.jsonl"))}
os.makedirs("/tmp/seed", exist_ok=True)
for pid in sys.argv[1:]:
    wt = "/tmp/seed/%s" % pid
    if not os.path.isdir(wt):
        subprocess.check_call(["git", "-C", "/repo", "worktree", "add", "--detach", "-q", wt, "HEAD"])
    tried = []
    for m in sorted(glob.glob(os.path.join(V, "seeded", pid + "-*", "meta.json"))):
        d = json.load(open(m))
        s = (d.get("from_agent") or {}).get("summary") or ""
        if s:
            tried.append("- " + " ".join(s.split())[:420])
    text = tmpl.replace("__WT__", wt).replace("__PROPERTY__", json.dumps(props[pid], indent=1))
    if tried:
        text = text.replace("YOUR TASK", "ALREADY TRIED by earlier reviewers (do NOT repeat these or close variants of them; use different functions / mechanisms / files where you can):\n" + "\n".join(tried) + "\n\n\nYOUR TASK", 1)
    text += "\n\nOne more request: if, while exploring, you notice that the UNMODIFIED code already violates the property for some concrete input, do not use that as your seeded change, but describe it (input, configuration, observed vs expected) in __WT__/seed_out/HEAD_OBSERVATIONS.txt and mention it in your final answer. Earlier reviewers' observations of this kind were the most useful thing they produced (they have been repaired since), so spend a real part of your effort - roughly a third - on it: a differential run of the UNMODIFIED code against an independent reference you write yourself (exact rational / big-integer arithmetic, a reference grammar, std's parser or formatter), concentrating on configurations the default test suite does not compile (cargo features radix, power-of-two, format, compact; custom formats and options; debug-assertion builds) and on corners of the property's quantifier that look least exercised. Report only what you actually observed by running code, with the exact input, configuration, observed and expected result.\n".replace("__WT__", wt)
    open("/tmp/seed/%s.prompt.txt" % pid, "w").write(text)
    print(pid, len(tried), "tried")
