#!/usr/bin/env python3
"""tools/redetect_all.py [K [tag-regex]]  : re-run the current machinery against every seeded change (K parallel copies of
/verif under /var/tmp, each with its own fact cache), then update `checks_that_report_it`, `detected`,
`detected_by_own_property` in every seeded/<tag>/meta.json and regenerate seeded/README.md.
`first_round_checks_that_reported_it` is never touched."""
import json, os, shutil, subprocess, sys, glob
V = os.path.dirname(os.path.dirname(os.path.abspath(__file__)))
import re
K = int(sys.argv[1]) if len(sys.argv) > 1 else 6
FILT = re.compile(sys.argv[2]) if len(sys.argv) > 2 else None
tags = sorted(os.path.basename(os.path.dirname(m)) for m in glob.glob(os.path.join(V, "seeded", "*", "meta.json")))
if FILT:
    tags = [t for t in tags if FILT.search(t)]
procs = []
for k in range(K):
    root = "/var/tmp/verif_copy%d" % k
    shutil.rmtree(root, ignore_errors=True)
    subprocess.check_call(["rsync", "-a", "--exclude", "cache", "--exclude", ".git", V + "/", root + "/"])
    mine = tags[k::K]
    out = "/var/tmp/redetect_%d.json" % k
    if os.path.exists(out):
        os.remove(out)
    procs.append((subprocess.Popen([sys.executable, os.path.join(V, "tools", "seed_detect.py"), root, out] + mine, stdout=open("/var/tmp/redetect_%d.log" % k, "w"), stderr=subprocess.STDOUT), out, root))
res = {}
for p, out, root in procs:
    p.wait()
    res.update(json.load(open(out)))
    shutil.rmtree(root, ignore_errors=True)
bad = []
for t in tags:
    mp = os.path.join(V, "seeded", t, "meta.json")
    m = json.load(open(mp))
    n = res.get(t, {"error": "not run"})
    m["checks_that_report_it"] = n
    m["detected"] = bool(n) and "error" not in n
    m["detected_by_own_property"] = m["property"] in n
    json.dump(m, open(mp, "w"), indent=1)
    if not m["detected_by_own_property"]:
        bad.append((t, sorted(n.keys()) if isinstance(n, dict) else n))
subprocess.call([sys.executable, os.path.join(V, "tools", "seed_table.py")])
print("not reported by own check:", bad)
