#!/usr/bin/env python3
"""Regenerates seeded/README.md from the per-seed meta.json files."""
import glob, json, os
V = os.path.dirname(os.path.dirname(os.path.abspath(__file__)))
rows = []
supers = []
for f in sorted(glob.glob(os.path.join(V, "seeded", "*", "meta.json"))):
    m = json.load(open(f))
    sid = os.path.basename(os.path.dirname(f))
    a = m.get("from_agent", {})
    c = m.get("confirmed_by_me", {})
    first = m.get("first_round_checks_that_reported_it") or {}
    now = m.get("checks_that_report_it") or {}
    own = m["property"]
    keys = []
    for p in ([own] if own in now else sorted(now)):
        for k in now[p][:2]:
            keys.append("%s `%s`" % (p, k))
    if m.get("superseded"):
        supers.append((sid, m["superseded"]))
        continue
    rows.append((sid, (a.get("summary") or "").replace("\n", " ").replace("|", "/")[:230], (a.get("needs_to_manifest") or "").replace("\n", " ").replace("|", "/")[:200],
                 "fails/passes=%s/%s, suite %s" % (c.get("demo_exit_with_change"), c.get("demo_exit_without_change"), c.get("existing_tests_with_change(passed failed)")),
                 ("own check" if own in first else ("only " + ",".join(sorted(first)) if first else "**missed**")),
                 "; ".join(keys) + ("" if own in now else " (NOT by own check)")))
out = ["# Seeded property-breaking changes", "",
       "Written by independent sub-agents that were given only the text of one property and a scratch",
       "worktree of rust-lexical (nothing from /verif). Each directory holds `patch.diff`, the",
       "demonstration (`demo.rs`, and the tiny cargo project under `demo/`; its path dependency expects to",
       "live at `<worktree>/seed_out/<n>/demo/`) and `meta.json` (the agent's description, what I re-ran to",
       "confirm it: the demonstration exits non-zero with the change and zero without it, the unedited",
       "`cargo test --workspace --offline` suite passes with it; and which checks report it).",
       "", "`first round` = which checks reported the change *before* any rule was added because of it;",
       "`now` = the finding keys of the property's own check on the changed tree.", "",
       "To replay: `tools/mutest.py <ID> --patch seeded/<dir>/patch.diff` (scratch copy, removed afterwards), or",
       "`git -C /repo apply seeded/<dir>/patch.diff; bin/check <ID>; git -C /repo checkout -- .`.", "",
       "| seed | change | needs, to manifest | confirmed | first round | now reported as |", "|---|---|---|---|---|---|"]
for r in rows:
    out.append("| %s | %s | %s | %s | %s | %s |" % r)
def rnd(sid):
    for k in (2, 3, 4, 5, 7):
        if "-r%d-" % k in sid:
            return k
    return 1
out += [""]
for k in (1, 2, 3, 4, 5, 7):
    rr = [r for r in rows if rnd(r[0]) == k]
    if not rr:
        continue
    firsts = sum(1 for r in rr if r[4] == "own check")
    other = sum(1 for r in rr if r[4].startswith("only"))
    now_own = sum(1 for r in rr if not r[5].endswith("(NOT by own check)") and r[5])
    out.append("Round %d: %d changes; first round: %d reported by the property's own check, %d only by a neighbouring property's check, %d missed; now: %d reported by the property's own check." % (k, len(rr), firsts, other, len(rr) - firsts - other, now_own))
# round 5 also asked every sub-agent for two behaviour-PRESERVING refactorings: any finding on them is a false alarm
neu = []
for f in sorted(glob.glob(os.path.join(V, "seeded", "_neutral", "*", "meta.json"))):
    m = json.load(open(f))
    neu.append((os.path.basename(os.path.dirname(f)), m))
if neu:
    def cnt(d):
        return sum(len(v) if isinstance(v, list) else 1 for k, v in (d or {}).items() if k != "error")
    first_any = sum(1 for _t, m in neu if cnt(m.get("first_run_false_alarms")))
    r6 = [(t, m) for t, m in neu if "-r6-" in t]
    r6_first = sum(1 for _t, m in r6 if cnt(m.get("first_run_false_alarms")))
    now_any = sum(1 for _t, m in neu if cnt(m.get("false_alarms_now")))
    na_any = sum(1 for _t, m in neu if m.get("rules_not_applied_now"))
    out += ["", "## Behaviour-preserving refactorings (rounds 5 and 6, `seeded/_neutral/`)", "",
            "%d refactorings; alarms on the first run (machinery as it was when they were written): %d of them; with the current machinery: %d raise an alarm, %d make at least one shape-bound rule report `not applied` (no alarm, recorded as an assumed obligation)." % (len(neu), first_any, now_any, na_any), "",
            "Of these, %d are the round-6 batch (written after the round-5 generalisations, i.e. unseen when the rules were re-stated): %d of them alarmed on their first run." % (len(r6), r6_first), "",
            "| refactoring | confirmed neutral (final tree) | alarms at first run | alarms now | rules not applied now |", "|---|---|---|---|---|"]
    for t, m in neu:
        rv = m.get("reconfirmed_on_final_tree") or {}
        conf = ("outputs identical, suite %s" % rv.get("existing_tests_with_change(passed failed)")) if rv.get("ok") else ("NOT confirmed: %s" % (rv.get("error") or {k: v for k, v in rv.items() if k in ("demo_exit_head", "demo_exit_with_change", "git_apply_check")})) if rv else "first evaluation only"
        fa = m.get("first_run_false_alarms") or {}
        nowa = m.get("false_alarms_now") or {}
        out.append("| %s | %s | %s | %s | %s |" % (t, conf, ", ".join("%s:%d" % (k, len(v) if isinstance(v, list) else 1) for k, v in sorted(fa.items())) or "none",
                                                ", ".join("%s:%d" % (k, len(v) if isinstance(v, list) else 1) for k, v in sorted(nowa.items())) or "none", len(m.get("rules_not_applied_now") or [])))
if supers:
    out += ["", "Superseded (behaviour-preserving on the repaired tree, not counted above):", ""]
    for sid, why in supers:
        out.append("* `%s` - %s" % (sid, why))
open(os.path.join(V, "seeded", "README.md"), "w").write("\n".join(out) + "\n")
print("\n".join(out[-4:]))
