#!/usr/bin/env python3
"""tools/revalidate.py <out.json> <workdir> <tag>...
Re-confirms kept seeded changes against the *current* /repo (which has moved on since the change was written:
`fix:` commits): in a scratch copy of /repo at <workdir> (outside /repo and /verif, reused between tags so that
cargo can rebuild incrementally, removed by the caller) it (1) checks that patch.diff applies with `git apply`
semantics, (2) runs the demonstration with the change (must fail) and without it (must pass), (3) runs the
pinned test command with the change (must pass).  Nothing is written to /repo."""
import json, os, re, shutil, subprocess, sys

ENV = dict(os.environ, CARGO_NET_OFFLINE="true")


def sh(cmd, cwd=None, timeout=3600):
    r = subprocess.run(cmd, cwd=cwd, shell=isinstance(cmd, str), capture_output=True, text=True, timeout=timeout, env=ENV)
    return r.returncode, (r.stdout + r.stderr)


def main():
    outp, work, tags = sys.argv[1], sys.argv[2], sys.argv[3:]
    skip_tests = os.environ.get("REVAL_SKIP_TESTS") == "1"
    out = json.load(open(outp)) if os.path.exists(outp) else {}
    os.makedirs(work, exist_ok=True)
    for tag in tags:
        if tag in out:
            continue
        sd = os.path.join("/verif/seeded", tag)
        patch = os.path.join(sd, "patch.diff")
        meta = json.load(open(os.path.join(sd, "meta.json")))
        res = {}
        subprocess.check_call(["rsync", "-a", "--delete", "--exclude", "target", "--exclude", ".git", "--exclude", "seed_out", "/repo/", work + "/"])
        rc, o = sh(["git", "apply", "--check", patch], cwd="/repo")
        res["git_apply_check"] = rc == 0
        demo = os.path.join(work, "seed_out", "1", "demo")
        os.makedirs(os.path.dirname(demo), exist_ok=True)
        tgt = os.path.join(demo, "target")
        keep = None
        if os.path.isdir(tgt):
            keep = os.path.join(work, "seed_out", "_target")
            shutil.rmtree(keep, ignore_errors=True)
            os.rename(tgt, keep)
        shutil.rmtree(demo, ignore_errors=True)
        shutil.copytree(os.path.join(sd, "demo"), demo)
        if os.path.exists(os.path.join(sd, "demo.rs")):       # some demo projects build `../demo.rs`
            shutil.copy(os.path.join(sd, "demo.rs"), os.path.join(os.path.dirname(demo), "demo.rs"))
        if keep:
            os.rename(keep, tgt)
        release = "--release" in ((meta.get("from_agent") or {}).get("demo_cmd") or "") or "--release" in ((meta.get("confirmed_by_me") or {}).get("demo_cmd") or "")
        run = "cargo run --offline -q" + (" --release" if release else "")
        rc, o = sh(["patch", "-p1", "-s", "--no-backup-if-mismatch", "-i", patch], cwd=work)
        if rc != 0:
            res["error"] = "patch failed: " + o[-200:]
            out[tag] = res
            json.dump(out, open(outp, "w"), indent=1)
            continue
        rc1, o1 = sh(run, cwd=demo)
        res["demo_exit_with_change"] = rc1
        res["demo_tail_with_change"] = "\n".join(l for l in o1.splitlines() if not l.startswith(("warning", " ", "help", "note")) and l.strip())[-300:]
        if not skip_tests:
            rct, ot = sh("cargo test --workspace --no-fail-fast --offline 2>&1 | grep -E '^test result' | awk '{p+=$4; f+=$6} END {print p, f}'", cwd=work)
            res["existing_tests_with_change(passed failed)"] = ot.strip()
        sh(["patch", "-p1", "-R", "-s", "--no-backup-if-mismatch", "-i", patch], cwd=work)
        rc0, o0 = sh(run, cwd=demo)
        res["demo_exit_without_change"] = rc0
        res["ok"] = bool(res["git_apply_check"] and rc1 != 0 and rc0 == 0 and (skip_tests or res["existing_tests_with_change(passed failed)"].endswith(" 0")))
        out[tag] = res
        json.dump(out, open(outp, "w"), indent=1)
        print(tag, "ok" if res["ok"] else "NOT-OK", {k: v for k, v in res.items() if "tail" not in k}, flush=True)


main()
