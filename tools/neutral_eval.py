#!/usr/bin/env python3
"""tools/neutral_eval.py <ID> <K>      (K = n1 | n2)
Takes a behaviour-PRESERVING refactoring written by an independent sub-agent in its scratch worktree
/tmp/seed/<ID>/seed_out/<K>/ and (1) confirms in that worktree that it applies, that the crates still build with
default / radix,format / compact features, that the existing test suite passes with it and that the agent's
differential demonstration prints the same output with and without it; (2) runs every claimed check (current
machinery, and the frozen baseline copy if VERIF_BASELINE is set) against a scratch copy of /repo with the change
applied - any finding is a FALSE ALARM; (3) stores patch, demonstration and meta.json under
/verif/seeded/_neutral/<ID>-r5-<K>/."""
import json, os, re, shutil, subprocess, sys, tempfile, hashlib

V = os.path.dirname(os.path.dirname(os.path.abspath(__file__)))
ENV = dict(os.environ, CARGO_NET_OFFLINE="true")


def sh(cmd, cwd=None, timeout=3600):
    r = subprocess.run(cmd, cwd=cwd, shell=isinstance(cmd, str), capture_output=True, text=True, timeout=timeout, env=ENV)
    return r.returncode, r.stdout, r.stderr


def run_checks(root, repo_dir):
    man = json.load(open(os.path.join(root, "MANIFEST.json")))
    res = {}
    for c in man["checks"]:
        p = c["property_id"]
        rc, o, e = sh([os.path.join(root, "bin", "check"), p, "--repo", repo_dir, "--no-evidence"])
        finds = re.findall(r"^finding: (.*)$", o, re.M)
        if rc != 0:
            res[p] = finds or ["exit %d" % rc]
    return res


def main():
    pid, k = sys.argv[1], sys.argv[2]
    wt = "%s/%s" % (os.environ.get("SEED_DIR", "/tmp/seed"), pid)
    src = os.path.join(wt, "seed_out", k)
    patch = os.path.join(src, "patch.diff")
    rnd = os.environ.get("NEUTRAL_ROUND", "r5")
    tag = "%s-%s-%s" % (pid, rnd, k)
    out = os.path.join(V, "seeded", "_neutral", tag)
    os.makedirs(out, exist_ok=True)
    shutil.copy(patch, os.path.join(out, "patch.diff"))
    try:
        meta_in = json.load(open(os.path.join(src, "meta.json")))
    except Exception as e:
        meta_in = {"error": "meta.json unreadable: %s" % e}
    for f in ("demo.rs",):
        if os.path.exists(os.path.join(src, f)):
            shutil.copy(os.path.join(src, f), os.path.join(out, f))
    demo_dir = os.path.join(src, "demo")
    if os.path.isdir(demo_dir):
        # the complete demonstration project (without build output)
        subprocess.call(["rsync", "-a", "--delete", "--exclude", "target*", "--exclude", "*.log", "--max-size=400k", demo_dir + "/", os.path.join(out, "demo") + "/"])
    confirm = {}
    sh("git checkout -- .", cwd=wt)
    rc, o, e = sh(["git", "apply", "--check", patch], cwd=wt)
    confirm["applies"] = rc == 0
    if rc == 0 and os.path.isdir(demo_dir):
        release = "--release" in (str(meta_in.get("demo_cmd")) + open(os.path.join(demo_dir, "Cargo.toml")).read())
        run = "cargo run --offline -q --release"
        rc0, o0, e0 = sh(run, cwd=demo_dir)
        sh(["git", "apply", patch], cwd=wt)
        builds = {}
        for feats in ("", "radix,format", "compact", "compact,radix,format", "power-of-two"):
            rcb, ob, eb = sh("cargo check --offline -q -p lexical-core" + ((" --features " + feats) if feats else ""), cwd=wt)
            builds[feats or "default"] = rcb == 0
        rc1, o1, e1 = sh(run, cwd=demo_dir)
        rct, ot, et = sh("cargo test --workspace --no-fail-fast --offline 2>&1 | grep -E '^test result' | awk '{p+=$4; f+=$6} END {print p, f}'", cwd=wt)
        sh("git checkout -- .", cwd=wt)
        confirm.update({"builds": builds, "demo_cmd": run, "demo_exit_head": rc0, "demo_exit_with_change": rc1,
                        "demo_output_identical": o0 == o1 and rc0 == 0 and rc1 == 0,
                        "demo_output_sha256_head": hashlib.sha256(o0.encode()).hexdigest()[:16],
                        "demo_output_sha256_with_change": hashlib.sha256(o1.encode()).hexdigest()[:16],
                        "demo_tail_head": o0[-300:], "demo_tail_with_change": o1[-300:],
                        "existing_tests_with_change(passed failed)": ot.strip()})
        shutil.rmtree(os.path.join(demo_dir, "target"), ignore_errors=True)
    d = tempfile.mkdtemp(prefix="lexmut-", dir="/var/tmp")
    alarms = {}
    base_alarms = None
    try:
        subprocess.check_call(["rsync", "-a", "--exclude", "target", "--exclude", ".git", "/repo/", d + "/"])
        rc, o, e = sh(["patch", "-p1", "-s", "-d", d, "-i", patch])
        if rc != 0:
            alarms["error"] = "patch does not apply to /repo HEAD: " + (o + e)[-300:]
        else:
            alarms = run_checks(V, d)
            if os.environ.get("VERIF_BASELINE"):
                base_alarms = run_checks(os.environ["VERIF_BASELINE"], d)
    finally:
        shutil.rmtree(d, ignore_errors=True)
    meta = {"property": pid, "kind": "neutral", "seed": k, "round": int(os.environ.get("NEUTRAL_ROUND", "r5")[1:]), "from_agent": meta_in, "confirmed_by_me": confirm,
            "first_run_false_alarms": base_alarms if base_alarms is not None else alarms,
            "false_alarms_now": alarms}
    old = os.path.join(out, "meta.json")
    if os.path.exists(old):
        try:
            prev = json.load(open(old))
            meta["first_run_false_alarms"] = prev.get("first_run_false_alarms", meta["first_run_false_alarms"])
        except Exception:
            pass
    json.dump(meta, open(old, "w"), indent=1)
    print(json.dumps({"tag": tag, "confirm": {kk: vv for kk, vv in confirm.items() if "tail" not in kk}, "false_alarms": alarms, "baseline": base_alarms}, indent=1)[:3000])


main()
