#!/usr/bin/env python3
"""tools/seed_round5.py <ID>...  : round 5 - one breaking change + two behaviour-preserving refactorings per agent.
Creates a scratch worktree /tmp/seed/<ID> of /repo HEAD and writes /tmp/seed/<ID>.prompt.txt."""
import json, os, subprocess, sys, glob
V = os.path.dirname(os.path.dirname(os.path.abspath(__file__)))
tmpl = open(os.path.join(V, "tools", "seed_prompt_r5.tmpl")).read()
props = {json.loads(l)["id"]: json.loads(l) for l in open(os.path.join(V, "properties.jsonl"))}
os.makedirs("/tmp/seed", exist_ok=True)
for pid in sys.argv[1:]:
    wt = "/tmp/seed/%s" % pid
    if not os.path.isdir(wt):
        subprocess.check_call(["git", "-C", "/repo", "worktree", "add", "--detach", "-q", wt, "HEAD"])
    tried = []
    for m in sorted(glob.glob(os.path.join(V, "seeded", pid + "-*", "meta.json"))):
        d = json.load(open(m))
        s = (d.get("from_agent") or {}).get("summary") or ""
        if s:
            tried.append("- " + " ".join(s.split())[:300])
    t = ""
    if tried:
        t = "ALREADY TRIED by earlier reviewers (do NOT repeat these or close variants; use different functions / mechanisms / files):\n" + "\n".join(tried) + "\n"
    text = tmpl.replace("__TRIED__", t).replace("__WT__", wt).replace("__PROPERTY__", json.dumps(props[pid], indent=1))
    open("/tmp/seed/%s.prompt.txt" % pid, "w").write(text)
    print(pid, len(tried), "tried")
