"""What is claimed, per property.  Kept in step with DESIGN.md §4 and the rules/cXX.py modules."""
BASE_NOTE = ("Trusted: rustc nightly front end / MIR builder / const evaluator, the lexfacts decoding of them, "
             "and the oracle's definitions written from the published algorithms. Decides necessary structural "
             "conditions only; the value-level behaviour of the arithmetic is not decided.")

CLAIMED = {
    "C01": {
        "technique": "static analysis: compiler-evaluated table/limit constants vs exact definitions + MIR dominance/pairing rules",
        "level": "Every constant the decimal rounding decision depends on (651 Eisel-Lemire rows, power tables, Bellerophon tables, limits, safe windows) is proved equal to / bounded by its mathematical definition in every feature configuration, and the three-tier pipeline's fallbacks are checked as must-pass-through facts on the MIR; the exact-tie branch of Eisel-Lemire is entered for the closed round-to-even window; multi-word hi64 helpers never report not-truncated as a literal; the many-digits re-parse skips the zeros the overflow test discounted; the truncated-digits error in Bellerophon is scaled by the normalisation shift. This is the part of correct rounding that is visible in the shape of the code; the arithmetic itself is not decided.",
        "note": BASE_NOTE, "ref": "§4 C01", "oracle": True,
    },
}

def _c(technique, level, ref, oracle=False):
    return {"technique": technique, "level": level, "note": BASE_NOTE, "ref": ref, "oracle": oracle}


CLAIMED.update({
    "C02": _c("static analysis: compiler-evaluated Dragonbox/Grisu tables and magic constants vs exact definitions",
              "All 78+619 Dragonbox cached powers, the k-range reachable from every finite exponent (the bound the unchecked table index relies on), modular inverses, magic divisors, the five floor_log* multiplier triples (exact on their callers' ranges), and under `compact` the 87 Grisu cached powers with their exponent formula and search-loop coverage are proved equal to their mathematical definitions. Round-trip / shortest-ness of the interval arithmetic itself is not decided.",
              "§4 C02", True),
    "C03": _c("static analysis: digit tables, digit-count tables, 128-bit division constants, step tables, size constants vs exact definitions; dispatch/width pairing on MIR",
              "Every DIGIT_TO_BASE{r}_SQUARED table and get_table arm, Lemire's digit-count table (checked at every boundary of every log2 class), the power-of-ten tables and fast_log10 multiplier, every (d, factor, shift) of the 128-bit division (d = radix^u64_step, reciprocal valid for all n < 2^128), min/max step tables, FORMATTED_SIZE constants, jeaiii re-slice constants and multipliers, signed->unsigned width pairing, MASK/SHIFT instantiations of the mantissa/exponent writers, inner 128-bit chunks zero-padded (write_step_digits) and the u128 digit count built from the same chunks are decided in every feature configuration. The digit-extraction arithmetic is not decided.",
              "§4 C03", True),
    "C05": _c("static analysis: per-radix tables/limits vs exact definitions; key agreement between split_radix and the power tables; debug_assert beliefs vs admitted formats",
              "For every radix 2..36: power tables exact on the index ranges the limits allow, exponent/mantissa/power limits and max_digits within their exact bounds, every base that reaches Bigint::pow factored into (odd, shift) and served by an explicit table row whose value is odd^step, all Bellerophon tables within 1 ulp with exact exponents and covering the f64 range; the same-base belief of the fast path is checked against the formats the entry validation admits; mixed-base exponent scaling multiplies before it divides; the odd-radix digit comparison answers Equal only when the theoretical digits are exhausted; integral_binary_factor = ceil(log2 radix); Bellerophon error units.",
              "§4 C05", True),
    "C12": _c("static analysis: flag-to-getter pairing and error-under-flag path conditions on MIR",
              "Each NumberFormat::<F>::NAME reads exactly flags::NAME (or equals STANDARD's bit without `format`), each getter returns its own const, every flag-specific error in parse_number/parse_*sign is constructed only on paths where that flag's getter tested true and is still constructed somewhere, '-' produces a negative only under T::IS_SIGNED, every syntax flag is read by the parsers it concerns; ExponentWithoutFraction is guarded by the absence of the fraction component itself; a base prefix is looked for only after exactly one leading zero in both parsers. The float parser's prefix flag is set only after the prefix character itself was read (a lone `0` stays a digit); the integer parser's start of digits moves only over a recognised prefix; the leading-zeros errors count digits. Grammar equivalence over all strings is not decided.",
              "§4 C12"),
    "C18": _c("static analysis: bit-layout algebra on evaluated constants; builder/flag/rebuild pairing; constraint-table and validation-before-use dominance rules on MIR",
              "The flag part of build->rebuild round-trip is proved (31 distinct single-bit flags, each ORed in from its own field and read back into it; 6 byte fields with matching MASK/SHIFT); format_error_impl has a correctly polarised rejecting branch with the documented error for every documented constraint in both cfg variants; is_valid_radix accepts exactly the feature set's radices; build_strict returns only on Success; every *_with_options back-end call is dominated by is_valid() (and is_valid_options_punctuation for float parsers); is_valid_punctuation compares all three pairs of optional control characters.",
              "§4 C18"),
})

CLAIMED.update({
    "C09": _c("static analysis: unsafe-site inventory with guard dominance on MIR; assertion/re-slice must-pass-through; size constants vs exact bounds",
              "The memory-safety clause: every unsafe call in the writer crates and `lexical` is classified (guard-dominated, forwarded, named contract, else violation); the radix/table/count assertions and the re-slice dominate every unchecked digit writer; write_float asserts check_buffer and is_valid (in release builds: debug_assert-only tests are not accepted) before any store or back-end; dragonbox_power's argument is the k formula whose range is bounded against the table; FORMATTED_SIZE constants cover the longest numeral; the notation defaults of the writers equal those of buffer_size_const; its exponent allowance covers the integer writer's re-slice window, its digit term honours min_significant_digits on every path; debug-only buffer-length beliefs hold after the sign byte; the generic-radix writers clamp the digits they copy; the u128 digit count mirrors the chunking of the writer. Sufficiency of the bound for every (value, options) is not decided.",
              "§4 C09", True),
    "C10": _c("static analysis: guard dominance with mutation-freedom between guard and use, on MIR of all parse crates; unsafe and panic inventories",
              "The out-of-bounds clause: all step_unchecked / step_by_unchecked(N) / peek_many_unchecked::<V> / set_cursor sites and all StackVec/ReverseView primitives are shown to be dominated by a guard on the same object giving the needed capacity, with no cursor/length mutation on any path in between; remaining unsafe calls are forwarded inside unsafe fns or named contracts; writers of Bytes.index and StackVec.length are inventoried; explicit panic sites reachable from parse entry points match a reasoned table; every peek dispatch has all 16 arms (its unreachable!() arm); integral_binary_factor leaves enough spare bits for large_quorem's assertion. A step guarded only by a length fact is taken only on an iterator known to be contiguous (the debug-build assertion of step_by_unchecked_impl). Arithmetic-overflow/bounds-check panics and termination are not decided.",
              "§4 C10"),
    "C11": _c("static analysis: normalised instruction multisets of sibling bodies under a declared substitution; macro back-traces",
              "parse_complete/parse_partial and fast_path_complete/fast_path_partial are equal up to the complete->partial callee substitution and pairing results with a count; complete = partial + `count == length`; IS_PARTIAL only selects between errors; the integer algorithms differ only inside the handler macros of the shared algorithm! expansion, and every Ok exit of both passes the required-digits test; the separator predicates treat the end of the buffer like a neutral byte and use run-skipping look-around exactly in the consecutive variants (what a prefix re-parse depends on). The take_n window of the skip and no-skip iterators is built identically (prefix of the whole buffer, absolute cursor) and only over a contiguous buffer; the reported position moves past a byte only if it compared equal to the base suffix; the count of every partial Ok is cursor(), cursor() - 1 or buffer_length(). The relation over all inputs is not decided.",
              "§4 C11"),
    "C13": _c("static analysis: peek dispatch decoded against macro back-traces; per-component field/mask/radix pairing; counting-protocol rules on MIR",
              "All 16 arms of each component iterator's peek dispatch are decoded with that component's flag bits and matched to the peek_<x>/is_<x>/peek_1|peek_n macros they expand; each iterator counts into its own field, masks with its own mask, classifies digits with the radix the parser uses for that component; Number's digit slices are re-iterated with the same component's iterator; digit-consuming steps are followed by increment_count and counting is gated on buffer-level contiguity; all 178 look-arounds of the separator predicates classify the end of the buffer like a neutral byte; consecutive variants look past the whole run and plain variants one byte; skip_zeros returns a digit count. A zero-count take_n window is handed out only when the buffer is contiguous; the float leading-zeros test compares a digit count and reads the first digit through the iterator. Value preservation over all inputs is not decided.",
              "§4 C13"),
    "C15": _c("static analysis: must-pass-through / who-may-produce rules and validator constraint tables on MIR",
              "Special parsing only on the Err edge of the numeric parse; NAN/INFINITY constants produced only in parse_positive_special, each from its own option string, under the no_special test, sign applied afterwards; the writer's '-' store is control-dependent on needs_negative_sign() = is_sign_negative & !is_nan; a disabled special diverges without a store; both float option builders impose the same constraints on special strings; is_nan / is_inf partition is_special on all mantissa bits; every Ok value the float entry points build after the sign was parsed is dominated by a use of is_negative (the sign of an empty mantissa is not lost).",
              "§4 C15"),
    "C17": _c("static analysis: delegation shape, origin (taint) analysis of stored bytes, validator constraint tables on MIR",
              "lexical::parse* and all lexical_core wrappers/impls are single forwarding calls (equality for the parse side); to_string* write once into a buffer of the documented size and truncate to exactly the returned length; every byte store in the writer crates has an ASCII origin; option builders reject non-ASCII punctuation and non-letter specials on every Ok path; the buffer bound to_string_with_options relies on honours min_significant_digits and the exponent writer's window.",
              "§4 C17"),
    "C19": _c("static analysis: who-may-read and must-pass-through rules for the lossy flag on MIR",
              "Options::lossy() is read only in parse_complete/parse_partial, after the grammar has produced its result and after the exact fast path returned, with no error construction or grammar/iterator call afterwards, and flows only into moderate_path: accept/reject, counts, errors and fast-path results cannot depend on it; every result returnable under lossy is a literal zero/infinity or has passed shared::round; the many-digits re-parse skips the discounted zeros. The one-ULP bound is not decided.",
              "§4 C19"),
})

CLAIMED.update({
    "C04": _c("static analysis: overflow_digits shape + exact bound for 12 types x 35 radices; SWAR lane constants; gating and error-pairing path conditions on MIR",
              "radix^overflow_digits(radix) - 1 <= T::MAX for every integer type and radix (so the unchecked prefix cannot wrap); the SWAR validity constants are the per-lane bounds 0x30 <= b < 0x30+radix; every multi-digit fast path is gated on contiguity and radix <= 10; Overflow/Underflow are produced only from the matching failed checked operation on the matching sign branch; '-' yields a negative only under T::IS_SIGNED; iterator steps are guard-dominated; the byte->digit decoders are tabulated over all 256 x 35 (byte, radix) pairs from their MIR paths; Error::Empty is tested after the sign was consumed. Error precedence and value exactness over all strings are not decided.",
              "§4 C04", True),
    "C08": _c("static analysis: writer/parser interface agreement (mixed-base pair sets, MASK/SHIFT instantiations, flag polarity) on MIR",
              "The float writer's admitted mixed (radix, exponent_base) pairs equal the parser's; every MASK/SHIFT const instantiation is a matching pair of the radix its caller means (mantissa vs exponent); '+' is written only under required_*_sign, scientific notation never under no_exponent_notation and positional never when notation is required; the exponent '+' is written on every non-negative path exactly when required_exponent_sign; mixed-base exponent scaling in the parser multiplies before it divides; punctuation and special strings come from same-named option getters on both sides. Value equality after the round trip is not decided.",
              "§4 C08"),
    "C16": _c("static analysis: cross-configuration comparison of cfg-alternative tables/constants and of the radix-10 dispatch under every feature set",
              "Every cfg-alternative table, limit, step, divider and constant agrees with the default build on the decimal keys in every analysed feature configuration, and the radix-10 arm of every dispatcher resolves to the same back-end as in the default (resp. compact) build; together with the decimal table rules of C01-C03 running in every configuration and the structural rules of the feature-only back-ends (Grisu boundaries and weeding under compact). Equality of results is not decided.",
              "§4 C16", True),
})

CLAIMED.update({
    "C14": _c("static analysis: path-sensitive enumeration of the notation dispatch; option-getter reachability per sibling back-end; origin of punctuation bytes; round-mode gating of every round-up, on MIR",
              "The control clauses only: in every compiled back-end (algorithm/compact, binary, hex, radix) exponent notation is chosen exactly when the format allows it and (the format requires it or sci_exp < negative_exponent_break or sci_exp > positive_exponent_break), the positional writer by the sign of the same sci_exp; every back-end reads all eight Options getters; the decimal point and exponent character stored are the configured ones and no punctuation literal is written; every round-up of truncated digits happens only when round_mode() is Round. Digit counts, rounded values, carries, padding and trimming as functions of (value, options) are not decided.",
              "§4 C14"),
})

CLAIMED.update({
    "C06": _c("static analysis: decision tables of the digit-alignment helpers read off their MIR paths vs their definitions; operand pairing of every writer; carry / scale rules of the rounding step",
              "The digit-alignment clauses only: fast_log2, calculate_shl (Euclidean modulus), inverse_remainder, fast_ceildiv, binary::scale_sci_exp (floor division) and hex::scale_sci_exp are tabulated from their feasible MIR paths for every binary exponent in [-1200, 1200] and every bits-per-digit 1..5 and equal their definitions; every power-of-two / hex-float writer calls them with the operands they are defined for and writes the digits of mantissa << shift in the mantissa radix and scale_sci_exp(sci_exp, ..) as the exponent; sci_exp = exponent() + mantissa_bits - 1; with default options the mantissa is not modified; the carry of a rounded mantissa and its scale are handled (F11/F12). That the written digits denote the float is not decided.",
              "§4 C06", True),
})

NOT_APPLICABLE = {
    "C07": "Generic-radix float output is native floating-point digit generation with carry back-tracking; every clause (valid digits, <2048 ulp, exact integers) is a statement about runtime values.",
}
