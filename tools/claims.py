"""What is claimed, per property.  Kept in step with DESIGN.md §4 and the rules/cXX.py modules."""
BASE_NOTE = ("Trusted: rustc nightly front end / MIR builder / const evaluator, the lexfacts decoding of them, "
             "and the oracle's definitions written from the published algorithms. Decides necessary structural "
             "conditions only; the value-level behaviour of the arithmetic is not decided.")

CLAIMED = {
    "C01": {
        "technique": "static analysis: compiler-evaluated table/limit constants vs exact definitions + MIR dominance/pairing rules",
        "level": "Every constant the decimal rounding decision depends on (651 Eisel-Lemire rows, power tables, Bellerophon tables, limits, safe windows) is proved equal to / bounded by its mathematical definition in every feature configuration, and the three-tier pipeline's fallbacks are checked as must-pass-through facts on the MIR. This is the part of correct rounding that is visible in the shape of the code; the arithmetic itself is not decided.",
        "note": BASE_NOTE, "ref": "§4 C01", "oracle": True,
    },
}

def _c(technique, level, ref, oracle=False):
    return {"technique": technique, "level": level, "note": BASE_NOTE, "ref": ref, "oracle": oracle}


CLAIMED.update({
    "C02": _c("static analysis: compiler-evaluated Dragonbox/Grisu tables and magic constants vs exact definitions",
              "All 78+619 Dragonbox cached powers, the k-range reachable from every finite exponent (the bound the unchecked table index relies on), modular inverses, magic divisors, the five floor_log* multiplier triples (exact on their callers' ranges), and under `compact` the 87 Grisu cached powers with their exponent formula and search-loop coverage are proved equal to their mathematical definitions. Round-trip / shortest-ness of the interval arithmetic itself is not decided.",
              "§4 C02", True),
    "C03": _c("static analysis: digit tables, digit-count tables, 128-bit division constants, step tables, size constants vs exact definitions; dispatch/width pairing on MIR",
              "Every DIGIT_TO_BASE{r}_SQUARED table and get_table arm, Lemire's digit-count table (checked at every boundary of every log2 class), the power-of-ten tables and fast_log10 multiplier, every (d, factor, shift) of the 128-bit division (d = radix^u64_step, reciprocal valid for all n < 2^128), min/max step tables, FORMATTED_SIZE constants, jeaiii re-slice constants and signed->unsigned width pairing are decided in every feature configuration. The digit-extraction arithmetic is not decided.",
              "§4 C03", True),
    "C05": _c("static analysis: per-radix tables/limits vs exact definitions; key agreement between split_radix and the power tables; debug_assert beliefs vs admitted formats",
              "For every radix 2..36: power tables exact on the index ranges the limits allow, exponent/mantissa/power limits and max_digits within their exact bounds, every base that reaches Bigint::pow factored into (odd, shift) and served by an explicit table row whose value is odd^step, all Bellerophon tables within 1 ulp with exact exponents and covering the f64 range; the same-base belief of the fast path is checked against the formats the entry validation admits.",
              "§4 C05", True),
    "C12": _c("static analysis: flag-to-getter pairing and error-under-flag path conditions on MIR",
              "Each NumberFormat::<F>::NAME reads exactly flags::NAME (or equals STANDARD's bit without `format`), each getter returns its own const, every flag-specific error in parse_number/parse_*sign is constructed only on paths where that flag's getter tested true and is still constructed somewhere, '-' produces a negative only under T::IS_SIGNED, and every syntax flag is read by the parsers it concerns. Grammar equivalence over all strings is not decided.",
              "§4 C12"),
    "C18": _c("static analysis: bit-layout algebra on evaluated constants; builder/flag/rebuild pairing; constraint-table and validation-before-use dominance rules on MIR",
              "The flag part of build->rebuild round-trip is proved (31 distinct single-bit flags, each ORed in from its own field and read back into it; 6 byte fields with matching MASK/SHIFT); format_error_impl has a correctly polarised rejecting branch with the documented error for every documented constraint in both cfg variants; is_valid_radix accepts exactly the feature set's radices; build_strict returns only on Success; every *_with_options back-end call is dominated by is_valid() (and is_valid_options_punctuation for float parsers).",
              "§4 C18"),
})

NOT_APPLICABLE = {
    "C06": "Exactness of power-of-two radix float output is arithmetic on runtime exponents (calculate_shl, scale_sci_exp); no table or guard whose truth implies it beyond the digit tables already covered under C03.",
    "C07": "Generic-radix float output is native floating-point digit generation with carry back-tracking; every clause (valid digits, <2048 ulp, exact integers) is a statement about runtime values.",
    "C14": "Digit counts, rounding carries, notation thresholds and trimming are functions of (value, options); no structural necessary condition beyond the defaults agreement checked under C09.",
}
