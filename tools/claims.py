"""What is claimed, per property.  Kept in step with DESIGN.md §4 and the rules/cXX.py modules."""
BASE_NOTE = ("Trusted: rustc nightly front end / MIR builder / const evaluator, the lexfacts decoding of them, "
             "and the oracle's definitions written from the published algorithms. Decides necessary structural "
             "conditions only; the value-level behaviour of the arithmetic is not decided.")

CLAIMED = {
    "C01": {
        "technique": "static analysis: compiler-evaluated table/limit constants vs exact definitions + MIR dominance/pairing rules",
        "level": "Every constant the decimal rounding decision depends on (651 Eisel-Lemire rows, power tables, Bellerophon tables, limits, safe windows) is proved equal to / bounded by its mathematical definition in every feature configuration, and the three-tier pipeline's fallbacks are checked as must-pass-through facts on the MIR. This is the part of correct rounding that is visible in the shape of the code; the arithmetic itself is not decided.",
        "note": BASE_NOTE, "ref": "§4 C01", "oracle": True,
    },
}

NOT_APPLICABLE = {
    "C06": "Exactness of power-of-two radix float output is arithmetic on runtime exponents (calculate_shl, scale_sci_exp); no table or guard whose truth implies it beyond the digit tables already covered under C03.",
    "C07": "Generic-radix float output is native floating-point digit generation with carry back-tracking; every clause (valid digits, <2048 ulp, exact integers) is a statement about runtime values.",
    "C14": "Digit counts, rounding carries, notation thresholds and trimming are functions of (value, options); no structural necessary condition beyond the defaults agreement checked under C09.",
}
