#!/usr/bin/env python3
"""tools/neutral_recheck.py [K]  : re-run every claimed check (current machinery) against a scratch copy of /repo with
each behaviour-preserving refactoring under seeded/_neutral applied (K parallel workers, each with its own copy of
/verif and fact cache under /var/tmp), update `false_alarms_now` in the meta.json files and print the table."""
import json, os, re, shutil, subprocess, sys, glob, tempfile
V = os.path.dirname(os.path.dirname(os.path.abspath(__file__)))
K = int(sys.argv[1]) if len(sys.argv) > 1 else 4

WORKER = r'''
import json, os, re, shutil, subprocess, sys, tempfile
root, outp, tags = sys.argv[1], sys.argv[2], sys.argv[3:]
man = json.load(open(os.path.join(root, "MANIFEST.json")))
props = [c["property_id"] for c in man["checks"]]
out = {}
for tag in tags:
    patch = os.path.join("/verif/seeded/_neutral", tag, "patch.diff")
    d = tempfile.mkdtemp(prefix="lexmut-", dir="/var/tmp")
    res = {}
    try:
        subprocess.check_call(["rsync", "-a", "--exclude", "target", "--exclude", ".git", "/repo/", d + "/"])
        r = subprocess.run(["patch", "-p1", "-s", "-d", d, "-i", patch], capture_output=True, text=True)
        if r.returncode != 0:
            res["error"] = "patch does not apply: " + (r.stdout + r.stderr)[-300:]
        else:
            na = []
            for p in props:
                r = subprocess.run([os.path.join(root, "bin", "check"), p, "--repo", d, "--no-evidence"], capture_output=True, text=True)
                finds = re.findall(r"^finding: (.*)$", r.stdout, re.M)
                na += re.findall(r"^NOT-APPLIED property=\S+ .*?: (.*)$", r.stdout, re.M)
                if r.returncode != 0:
                    res[p] = finds or ["exit %d" % r.returncode]
            if na:
                res["_not_applied"] = sorted(set(", ".join(na).split(", ")))
    finally:
        shutil.rmtree(d, ignore_errors=True)
    out[tag] = res
    json.dump(out, open(outp, "w"), indent=1)
    print(tag, {k: v[:2] for k, v in res.items()}, flush=True)
'''

tags = sorted(os.path.basename(os.path.dirname(m)) for m in glob.glob(os.path.join(V, "seeded", "_neutral", "*", "meta.json")))
procs = []
wf = "/var/tmp/neutral_worker.py"
open(wf, "w").write(WORKER)
for k in range(K):
    root = "/var/tmp/verif_ncopy%d" % k
    shutil.rmtree(root, ignore_errors=True)
    subprocess.check_call(["rsync", "-a", "--exclude", "cache", "--exclude", ".git", V + "/", root + "/"])
    mine = tags[k::K]
    out = "/var/tmp/neutral_%d.json" % k
    if os.path.exists(out):
        os.remove(out)
    if mine:
        procs.append((subprocess.Popen([sys.executable, wf, root, out] + mine, stdout=open("/var/tmp/neutral_%d.log" % k, "w"), stderr=subprocess.STDOUT), out, root))
res = {}
for p, out, root in procs:
    p.wait()
    if os.path.exists(out):
        res.update(json.load(open(out)))
    shutil.rmtree(root, ignore_errors=True)
for t in tags:
    mp = os.path.join(V, "seeded", "_neutral", t, "meta.json")
    m = json.load(open(mp))
    r = res.get(t, {"error": "not run"})
    m["rules_not_applied_now"] = r.pop("_not_applied", [])
    m["false_alarms_now"] = r
    json.dump(m, open(mp, "w"), indent=1)
subprocess.call([sys.executable, os.path.join(V, "tools", "neutral_table.py")])
