#!/usr/bin/env python3
"""tools/treehash.py <repo-dir> : the fact-cache key bin/check uses for that tree (debugging aid)."""
import importlib.machinery, importlib.util, sys
loader = importlib.machinery.SourceFileLoader("chk", __file__.replace("tools/treehash.py", "bin/check"))
spec = importlib.util.spec_from_loader("chk", loader)
m = importlib.util.module_from_spec(spec)
argv, sys.argv = sys.argv, ["check"]
try:
    loader.exec_module(m)
except SystemExit:
    pass
print(m.repo_hash(argv[1])[0])
