#!/usr/bin/env python3
"""Prints the state of the behaviour-preserving refactorings under seeded/_neutral."""
import json, glob, os
V = os.path.dirname(os.path.dirname(os.path.abspath(__file__)))
for mp in sorted(glob.glob(os.path.join(V, "seeded", "_neutral", "*", "meta.json"))):
    m = json.load(open(mp)); c = m.get("confirmed_by_me", {})
    ok = c.get("applies") and c.get("demo_output_identical") and str(c.get("existing_tests_with_change(passed failed)", "")).endswith(" 0") and all((c.get("builds") or {"x": False}).values())
    print(os.path.basename(os.path.dirname(mp)), "confirmed" if ok else "UNCONFIRMED %s" % {k: v for k, v in c.items() if "tail" not in k and "sha" not in k},
          "| first run:", {k: len(v) for k, v in (m.get("first_run_false_alarms") or {}).items()}, "| now:", {k: v[:3] for k, v in (m.get("false_alarms_now") or {}).items()})
