#!/usr/bin/env python3
"""tools/neutral_revalidate.py <out.json> <workdir> <tag>...
Re-confirms the behaviour-PRESERVING refactorings kept under seeded/_neutral against the *current* /repo: in a
scratch copy of /repo at <workdir> (outside /repo and /verif, removed by the caller) it runs the sub-agent's
differential program without the change and with it (the two outputs must be byte-identical and both runs must
succeed) and the pinned test command with the change (must pass).  The differential command is the demo's own
driver script when it has one (run_all.sh / digests.sh: several feature sets), `cargo run --release` otherwise.
If the sub-agent's worktree still exists the complete demo directory is copied into seeded/_neutral first (the
first evaluation kept only Cargo.toml and src/main.rs).  Nothing is written to /repo."""
import hashlib, json, os, re, shutil, subprocess, sys

ENV = dict(os.environ, CARGO_NET_OFFLINE="true")


def sh(cmd, cwd=None, timeout=5400):
    try:
        r = subprocess.run(cmd, cwd=cwd, shell=isinstance(cmd, str), capture_output=True, text=True, timeout=timeout, env=ENV)
        return r.returncode, r.stdout, r.stderr
    except subprocess.TimeoutExpired:
        return 124, "", "timeout"


def demo_cmd(demo):
    for s in ("run_all.sh", "digests.sh"):
        if os.path.exists(os.path.join(demo, s)):
            return "sh ./" + s if s == "run_all.sh" else "bash ./" + s
    name = None
    try:
        name = re.search(r'^name\s*=\s*"([^"]+)"', open(os.path.join(demo, "Cargo.toml")).read(), re.M).group(1)
    except Exception:
        pass
    if os.path.isdir(os.path.join(demo, "src", "bin")) and name:
        return "cargo run --offline -q --release --bin " + name
    return "cargo run --offline -q --release"


def main():
    outp, work, tags = sys.argv[1], sys.argv[2], sys.argv[3:]
    out = json.load(open(outp)) if os.path.exists(outp) else {}
    os.makedirs(work, exist_ok=True)
    for tag in tags:
        if tag in out:
            continue
        sd = os.path.join("/verif/seeded/_neutral", tag)
        pid, _r, k = tag.split("-")
        src = "/tmp/seed/%s/seed_out/%s/demo" % (pid, k)
        if os.path.isdir(src):
            subprocess.call(["rsync", "-a", "--delete", "--exclude", "target*", "--exclude", "*.log", "--max-size=400k", src + "/", os.path.join(sd, "demo") + "/"])
            if os.path.exists(os.path.join(os.path.dirname(src), "demo.rs")):
                shutil.copy(os.path.join(os.path.dirname(src), "demo.rs"), os.path.join(sd, "demo.rs"))
        patch = os.path.join(sd, "patch.diff")
        res = {}
        subprocess.check_call(["rsync", "-a", "--delete", "--exclude", "target", "--exclude", ".git", "--exclude", "seed_out", "/repo/", work + "/"])
        rc, o, e = sh(["git", "apply", "--check", patch], cwd="/repo")
        res["git_apply_check"] = rc == 0
        demo = os.path.join(work, "seed_out", k, "demo")
        shutil.rmtree(os.path.join(work, "seed_out"), ignore_errors=True)
        os.makedirs(os.path.dirname(demo), exist_ok=True)
        if not os.path.isdir(os.path.join(sd, "demo")):
            res["error"] = "no demo"
            out[tag] = res
            json.dump(out, open(outp, "w"), indent=1)
            continue
        shutil.copytree(os.path.join(sd, "demo"), demo)
        if os.path.exists(os.path.join(sd, "demo.rs")):
            shutil.copy(os.path.join(sd, "demo.rs"), os.path.join(os.path.dirname(demo), "demo.rs"))
        run = demo_cmd(demo)
        res["demo_cmd"] = run
        rc0, o0, e0 = sh(run, cwd=demo)
        rc, o, e = sh(["patch", "-p1", "-s", "--no-backup-if-mismatch", "-i", patch], cwd=work)
        if rc != 0:
            res["error"] = "patch failed: " + (o + e)[-200:]
            out[tag] = res
            json.dump(out, open(outp, "w"), indent=1)
            continue
        rc1, o1, e1 = sh(run, cwd=demo)
        rct, ot, et = sh("cargo test --workspace --no-fail-fast --offline 2>&1 | grep -E '^test result' | awk '{p+=$4; f+=$6} END {print p, f}'", cwd=work)
        res.update({"demo_exit_head": rc0, "demo_exit_with_change": rc1, "demo_output_bytes": len(o0),
                    "demo_output_sha256_head": hashlib.sha256(o0.encode()).hexdigest()[:16],
                    "demo_output_sha256_with_change": hashlib.sha256(o1.encode()).hexdigest()[:16],
                    "demo_tail_head": o0[-300:], "demo_err_tail": (e0 if rc0 else e1 if rc1 else "")[-300:],
                    "existing_tests_with_change(passed failed)": ot.strip()})
        res["ok"] = bool(res["git_apply_check"] and rc0 == 0 and rc1 == 0 and o0 == o1 and len(o0) > 0 and "BUILD FAILED" not in o0 and ot.strip().endswith(" 0"))
        out[tag] = res
        json.dump(out, open(outp, "w"), indent=1)
        print(tag, "ok" if res["ok"] else "NOT-OK", {kk: vv for kk, vv in res.items() if "tail" not in kk}, flush=True)


main()
