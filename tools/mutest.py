#!/usr/bin/env python3
"""tools/mutest.py <PROP>[,<PROP>...] <file> <old> <new> [<file> <old> <new> ...]   (or --patch file.diff)
Applies a textual mutation to a scratch copy of /repo (outside /repo and /verif), runs the
property checks against the copy, prints their verdict and removes the copy.  Used to test that
rules fire on broken variants and stay silent on behaviour-preserving ones."""
import os, shutil, subprocess, sys, tempfile

def main():
    props = sys.argv[1].split(",")
    rest = sys.argv[2:]
    d = tempfile.mkdtemp(prefix="lexmut-", dir="/var/tmp")
    try:
        subprocess.check_call(["rsync", "-a", "--exclude", "target", "--exclude", ".git", "/repo/", d + "/"])
        if rest and rest[0] == "--patch":
            subprocess.check_call(["patch", "-p1", "-s", "-d", d, "-i", os.path.abspath(rest[1])])
        else:
            assert len(rest) % 3 == 0
            for i in range(0, len(rest), 3):
                f, old, new = rest[i:i + 3]
                if os.path.isabs(f):
                    f = os.path.relpath(f, "/repo")   # never touch /repo itself
                assert not f.startswith(".."), f
                p = os.path.join(d, f)
                s = open(p).read()
                if s.count(old) != 1:
                    print("mutest: pattern occurs %d times in %s" % (s.count(old), f)); sys.exit(2)
                open(p, "w").write(s.replace(old, new))
        rc = 0
        for pr in props:
            r = subprocess.run([os.path.join(os.path.dirname(os.path.abspath(__file__)), "..", "bin", "check"), pr, "--repo", d, "--no-evidence"] + (["--tier", os.environ["TIER"]] if "TIER" in os.environ else []),
                               capture_output=True, text=True)
            out = r.stdout.replace(d + "/", "")
            lines = [l for l in out.splitlines() if l.startswith(("finding:", "VIOLATION", "KNOWN", "[check", "   "))]
            print("\n".join(lines[:int(os.environ.get("LINES", "14"))]))
            print("=> %s exit %d" % (pr, r.returncode))
            if r.stderr.strip():
                print(r.stderr[-1500:])
            rc |= r.returncode
        sys.exit(rc)
    finally:
        shutil.rmtree(d, ignore_errors=True)

main()
