"""E2 — mathematical definitions of every pre-computed constant family lexical embeds.

Written from the published algorithms (Eisel-Lemire 2021 / fast_float table generator,
Dragonbox 2020, Grisu 2010, Clinger 1990, jeaiii/Jeon 2022, Granlund-Montgomery 1994,
Lemire's digit-count note), never from the repository's own generator scripts.  Everything
is exact integer / rational arithmetic on Python ints; no floating point is used for a verdict."""
from fractions import Fraction
from functools import lru_cache
import struct


# ------------------------------------------------------------------ small helpers
def bitlen(n):
    return n.bit_length()


def ilog(n, base):
    """floor(log_base(n)) for n >= 1, exact."""
    assert n >= 1
    k = 0
    p = 1
    while p * base <= n:
        p *= base
        k += 1
    return k


def split_pow2(r):
    """r = odd * 2^s"""
    s = 0
    while r % 2 == 0:
        r //= 2
        s += 1
    return r, s


def is_pow2(r):
    return r & (r - 1) == 0


def digit_char(d):
    return ord("0") + d if d < 10 else ord("A") + d - 10


# ------------------------------------------------------------------ IEEE formats
class Fmt:
    def __init__(self, name, bits, mant, emax):
        self.name = name
        self.bits = bits
        self.mant = mant           # explicit mantissa bits (23 / 52)
        self.p = mant + 1          # precision
        self.emax = emax           # 127 / 1023
        self.emin = 1 - emax       # -126 / -1022
        self.bias = emax + mant    # lexical's EXPONENT_BIAS (150 / 1075)
        self.denorm_exp = 1 - self.bias   # exponent of the lowest subnormal bit (-149 / -1074)


F32 = Fmt("f32", 32, 23, 127)
F64 = Fmt("f64", 64, 52, 1023)


def float_bits_exact(value, fmt):
    """Bit pattern of the positive integer/rational `value` if it is exactly representable
    as a finite float of format `fmt`, else None."""
    value = Fraction(value)
    if value == 0:
        return 0
    if value < 0:
        return None
    num, den = value.numerator, value.denominator
    if den & (den - 1):
        return None
    e2 = -(den.bit_length() - 1)
    # value = num * 2^e2, num odd or den == 1
    while num % 2 == 0:
        num //= 2
        e2 += 1
    nb = num.bit_length()
    if nb > fmt.p:
        return None
    top = e2 + nb - 1          # exponent of the leading bit
    if top > fmt.emax:
        return None
    if top >= fmt.emin:
        mant = (num << (fmt.p - nb)) & ((1 << fmt.mant) - 1)
        return ((top + fmt.emax) << fmt.mant) | mant
    # subnormal
    if e2 < fmt.denorm_exp:
        return None
    return num << (e2 - fmt.denorm_exp)


def exactly_representable(value, fmt):
    return float_bits_exact(value, fmt) is not None


def norm_mantissa(x, bits, mode):
    """For positive rational x return (m, e) with m = round_mode(x / 2^e), 2^(bits-1) <= x/2^e < 2^bits."""
    x = Fraction(x)
    assert x > 0
    e = x.numerator.bit_length() - x.denominator.bit_length() - bits
    # adjust so that 2^(bits-1) <= x / 2^e < 2^bits
    while x / Fraction(2) ** e >= (1 << bits):
        e += 1
    while x / Fraction(2) ** e < (1 << (bits - 1)):
        e -= 1
    y = x / Fraction(2) ** e
    fl = y.numerator // y.denominator
    if mode == "floor":
        m = fl
    elif mode == "ceil":
        m = fl if y == fl else fl + 1
    elif mode == "nearest":
        rem = y - fl
        if rem > Fraction(1, 2) or (rem == Fraction(1, 2) and fl & 1):
            m = fl + 1
        else:
            m = fl
    else:
        raise ValueError(mode)
    return m, e


def norm_pow(base, k, bits, mode):
    """Normalised `bits`-bit mantissa (and binary exponent) of base^k, k any integer, fast path."""
    if k >= 0:
        v = base ** k
        n = v.bit_length()
        e = n - bits
        if e <= 0:
            return v << (-e), e
        fl = v >> e
        rem = v - (fl << e)
        half = 1 << (e - 1)
    else:
        d = base ** (-k)
        n = d.bit_length()
        if d & (d - 1) == 0:
            # exact power of two
            return 1 << (bits - 1), -(n - 1) - (bits - 1)
        sh = bits - 1 + n
        fl, r = divmod(1 << sh, d)
        e = -sh
        # compare remainder with half
        rem = r
        half = None
        if mode == "floor":
            return fl, e
        if mode == "ceil":
            return (fl + (1 if r else 0)), e
        # nearest
        if 2 * r > d or (2 * r == d and fl & 1):
            return fl + 1, e
        return fl, e
    if mode == "floor":
        return fl, e
    if mode == "ceil":
        return fl + (1 if rem else 0), e
    if rem > half or (rem == half and fl & 1):
        return fl + 1, e
    return fl, e


# ------------------------------------------------------------------ Eisel-Lemire
def lemire_row(q):
    """128-bit truncated power of five for decimal exponent q, as (hi, lo); the definition used by
    the reference fast_float table generator (Lemire 2021, §"table of powers")."""
    if q < 0:
        power5 = 5 ** (-q)
        z = 0
        while (1 << z) < power5:
            z += 1
        if q >= -27:
            b = z + 127
            c = (1 << b) // power5 + 1
        else:
            b = 2 * z + 2 * 64
            c = (1 << b) // power5 + 1
            while c >= (1 << 128):
                c //= 2
    else:
        c = 5 ** q
        while c < (1 << 127):
            c *= 2
        while c >= (1 << 128):
            c //= 2
    return c >> 64, c & ((1 << 64) - 1)


def lemire_power(q):
    """floor(log2(10^q)) + 63 -- what lemire::power must return on its domain."""
    # floor(q*log2(10)) = floor(log2(5^q)) + q
    if q >= 0:
        f = (5 ** q).bit_length() - 1
    else:
        d = 5 ** (-q)
        # floor(log2(1/d)) = -ceil(log2 d)
        f = -((d - 1).bit_length()) if d > 1 else 0
    return f + q + 63


# ------------------------------------------------------------------ Dragonbox
def dragonbox_row(k, bits):
    """ceil(5^k * 2^-e_k) normalised to `bits` bits (Jeon 2020, cache definition)."""
    m, _e = norm_pow(5, k, bits, "ceil")
    if m == (1 << bits):   # cannot happen for 5^k (never a power of two except k=0)
        m >>= 1
    return m


def floor_log10_pow2(e):
    # floor(e*log10(2)) exact
    if e >= 0:
        return len(str(1 << e)) - 1
    # 2^e = 1/2^-e ; floor(log10(1/x)) = -ceil(log10 x)
    x = 1 << (-e)
    d = len(str(x)) - 1      # floor(log10 x); x is never a power of ten for e<0 except x=1
    return -(d + 1)


def floor_log10_pow2_minus_log10_4_over_3(e):
    # floor(log10(2^e * 3/4))
    x = Fraction(3, 4) * Fraction(2) ** e
    return floor_log_frac(x, 10)


def floor_log_frac(x, base):
    """floor(log_base(x)) for positive rational x, exact."""
    x = Fraction(x)
    k = 0
    if x >= 1:
        p = Fraction(1)
        while p * base <= x:
            p *= base
            k += 1
        return k
    p = Fraction(1)
    while p > x:
        p /= base
        k -= 1
    return k


def floor_log2_pow10(e):
    return floor_log_frac(Fraction(10) ** e, 2)


def floor_log5_pow2(e):
    return floor_log_frac(Fraction(2) ** e, 5)


def floor_log5_pow2_minus_log5_3(e):
    return floor_log_frac(Fraction(2) ** e / 3, 5)


# ------------------------------------------------------------------ limits
def exact_exponent_limit(r, fmt):
    """max e such that r^e is exactly representable (so that w * r^e / w / r^e is one rounding)."""
    o, s = split_pow2(r)
    if o == 1:
        return fmt.emax // s
    e = 0
    while o ** (e + 1) < (1 << fmt.p):
        e += 1
    return e


def exact_mantissa_limit(r, fmt):
    """max e such that r^e <= 2^p"""
    e = 0
    while r ** (e + 1) <= (1 << fmt.p):
        e += 1
    return e


def power_limit(r, bits):
    return ilog((1 << bits) - 1, r)


def ndigits(v, r):
    """Number of base-r digits of the positive integer v (exact; estimate then correct)."""
    import math
    k = max(0, int((v.bit_length() - 1) / math.log2(r)) - 1)
    p = r ** k
    while p * r <= v:
        p *= r
        k += 1
    while p > v:
        p //= r
        k -= 1
    return k + 1


@lru_cache(maxsize=None)
def worst_halfway_digits(r, fmt_name):
    """Largest number of significant base-r digits of any halfway point (2m+1)*2^q between two
    adjacent finite floats, for an even radix r = o*2^s with o > 1 (odd radices have infinite
    expansions, powers of two take the binary path).  Exact: every binade is enumerated with the
    largest odd numerator 2^(p+1)-1, which maximises the digit count within the binade."""
    fmt = F32 if fmt_name == "f32" else F64
    o, s = split_pow2(r)
    assert s >= 1 and o > 1
    best = 0
    M = (1 << (fmt.p + 1)) - 1
    qmin = fmt.denorm_exp - 1
    qmax = fmt.emax - fmt.p
    for q in range(qmin, qmax + 1):
        if q >= 0:
            v = M << q
        else:
            n = -q
            d = -(-n // s)                 # ceil(n/s) fractional digits needed
            v = M * o ** d * (1 << (s * d - n))
        while v % r == 0:
            v //= r
        cnt = ndigits(v, r)
        if cnt > best:
            best = cnt
    return best


def bigint_bits_needed(r, max_digits, fmt):
    """Bits the slow path's big integer must hold: max_digits(+1 sticky digit) significant digits
    scaled by the zeros in front of the smallest halfway point, plus one limb of slack."""
    import math
    zeros = 0
    # number of leading fractional zero digits of the smallest halfway point 2^(denorm_exp-1)
    x = Fraction(1, 1 << (-(fmt.denorm_exp - 1)))
    zeros = -floor_log_frac(x, r)
    total_digits = max_digits + 1 + zeros
    return (r ** total_digits).bit_length() + 64


# ------------------------------------------------------------------ integer division magic
def div128_valid(d, factor, shift):
    """Granlund-Montgomery: n // d == (n * factor) >> (128 + shift) for all n < 2^128
    holds if 2^(128+shift) <= factor*d <= 2^(128+shift) + 2^shift."""
    lo = 1 << (128 + shift)
    return lo <= factor * d <= lo + (1 << shift)


def magic_div_valid(mult, shift, d, nmax):
    """floor(n*mult / 2^shift) == n // d for all 0 <= n <= nmax, exact.
    With e = mult*d - 2^shift >= 0 and n = q*d + r the result is right iff n*e < (d-r)*2^shift;
    for each residue r the largest n <= nmax with that residue is the binding case."""
    e = mult * d - (1 << shift)
    if e < 0:
        return False
    if e == 0:
        return True
    two = 1 << shift
    # residues d-1, d-2, ... : stop as soon as the bound is implied for all smaller residues
    for back in range(1, d + 1):
        r = d - back
        if nmax < r:
            continue
        n = nmax - ((nmax - r) % d)
        if n * e >= back * two:
            return False
        if nmax * e < back * two:
            return True
    return True


# ------------------------------------------------------------------ digit tables
def digit_pair_table(r):
    out = []
    for hi in range(r):
        for lo in range(r):
            out.append(digit_char(hi))
            out.append(digit_char(lo))
    return out


def f32_from_bits(b):
    return struct.unpack("<f", struct.pack("<I", b))[0]


# ------------------------------------------------------------------ fast exact logs (integers only)
def floor_log_ratio(num, den, base):
    """k with base^k <= num/den < base^(k+1), for positive integers; estimate then correct."""
    import math

    def le(k):          # base^k <= num/den
        if k >= 0:
            return base ** k * den <= num
        return den <= num * base ** (-k)

    k = int(math.floor((num.bit_length() - den.bit_length()) / math.log2(base)))
    while not le(k):
        k -= 1
    while le(k + 1):
        k += 1
    return k


def flog_pow2(q, base, num=1, den=1):
    """floor(log_base(2^q * num/den))"""
    if q >= 0:
        return floor_log_ratio((1 << q) * num, den, base)
    return floor_log_ratio(num, den << (-q), base)


def flog2_pow10(q):
    if q >= 0:
        return (10 ** q).bit_length() - 1
    return floor_log_ratio(1, 10 ** (-q), 2)
